"""Key-holding deviant peer: a real TLSConnection whose outgoing messages are
intercepted *before* record protection (instance attributes `_sendMsg` and
`_queue_message` are wrapped).  The endpoint under observation is never
touched."""
from . import boot  # noqa
from tlslite.messages import Message


class Raw(Message):
    """pre-serialised message of any content type"""

    def __init__(self, ctype, data, tokname=None):
        Message.__init__(self, ctype, bytearray(data))
        self.tokname = tokname

    def splitFirstByte(self):
        # 1/n-1 split of application data in CBC suites below TLS 1.1
        first = Raw(self.contentType, self.data[:1], self.tokname)
        self.data = self.data[1:]
        return first


def tok(msg, raw=None):
    """token for a message: 'ccs', 'alert', 'app' or handshake type int"""
    if getattr(msg, "tokname", None):
        return msg.tokname
    ct = msg.contentType
    if ct == 20:
        return "ccs"
    if ct == 21:
        return "alert"
    if ct == 23:
        return "app"
    if ct == 24:
        return "hb"
    raw = raw if raw is not None else bytes(msg.write())
    return raw[0] if raw else -1


class Deviant(object):
    """rewrite(i, token, msg, raw) -> None (send as is) or list of Message
    objects to send instead (may be empty).  Indices count every message
    of content type handshake or change_cipher_spec the endpoint emits
    (coalesced flights are seen message by message)."""

    def __init__(self, conn, rewrite=None, count_types=(20, 22)):
        self.conn = conn
        self.rewrite = rewrite
        self.i = 0
        self.log = []          # (i, token, raw bytes) as the endpoint meant
        self.emitted = []      # tokens actually emitted, in order
        self.applied = False
        self.after = []        # sent before the endpoint's next message of
                               # any type once the current flight is out
        self.count_types = count_types
        self._busy = False
        osend, oqueue = conn._sendMsg, conn._queue_message
        self.osend, self.oqueue = osend, oqueue
        dev = self

        def emit(m, rfb=True, uh=True):
            """send m; a message with `force_inner` set travels *protected*
            with that inner content type (TLS 1.3), whatever the library
            would do with its type"""
            inner = getattr(m, "force_inner", None)
            rl = conn._recordLayer
            if inner is None or not (rl._is_tls13_plus() and rl._writeState
                                     and rl._writeState.encContext):
                for r in osend(m, rfb, uh):
                    yield r
                return
            from . import wire
            try:
                conn.sock.flush()
            except Exception:   # noqa
                pass
            data = rl._encryptThenSeal(bytearray(m.data) +
                                       bytearray([inner]), 23)
            sock = conn.sock.socket
            sock.link.push(sock.out, wire.record(23, (3, 3), bytes(data)))

        def decide(msg):
            if msg.contentType not in dev.count_types:
                return None
            raw = bytes(msg.write())
            t = tok(msg, raw)
            i = dev.i
            dev.i += 1
            dev.log.append((i, t, raw))
            out = None
            if dev.rewrite is not None:
                out = dev.rewrite(i, t, msg, raw)
            if out is None:
                dev.emitted.append(t)
                return None
            dev.applied = True
            for m in out:
                dev.emitted.append(tok(m))
            return out

        def _sendMsg(msg, randomizeFirstBlock=True, update_hashes=True):
            if dev.after and not dev._busy and \
                    msg.contentType not in dev.count_types:
                aft, dev.after = dev.after, []
                dev._busy = True
                try:
                    for m in aft:
                        for r in osend(m, randomizeFirstBlock, False):
                            yield r
                finally:
                    dev._busy = False
            if dev._busy or not update_hashes:
                for r in osend(msg, randomizeFirstBlock, update_hashes):
                    yield r
                return
            out = decide(msg)
            if out is None:
                for r in osend(msg, randomizeFirstBlock, update_hashes):
                    yield r
                return
            dev._busy = True
            try:
                for m in out:
                    for r in emit(m, randomizeFirstBlock, update_hashes and
                                  not getattr(m, "nohash", False)):
                        yield r
            finally:
                dev._busy = False

        dev.pending = []     # (buffer position, non-handshake message)

        def _queue_message(msg):
            out = decide(msg)
            for m in ([msg] if out is None else out):
                if m.contentType == 22 and getattr(m, "nohash", False):
                    # an extra message the deviant keeps out of its own
                    # transcript (what a peer does that counts on the
                    # victim dropping it)
                    conn._buffer += m.write()
                    conn._buffer_content_type = 22
                elif m.contentType == 22:
                    # the library hashes at queue time: keep that
                    oqueue(m)
                else:
                    dev.pending.append((len(conn._buffer), m))
            return None

        def _queue_flush():
            # send the coalesced handshake bytes, cut where a message of
            # another content type was inserted
            buf = bytes(conn._buffer)
            pend, dev.pending = dev.pending, []
            conn._buffer_content_type = None
            conn._buffer = bytearray()
            dev._busy = True
            try:
                last = 0
                for pos, m in pend:
                    if buf[last:pos]:
                        for r in osend(Message(22, bytearray(buf[last:pos])),
                                       True, False):
                            yield r
                    for r in emit(m):
                        yield r
                    last = pos
                if buf[last:]:
                    for r in osend(Message(22, bytearray(buf[last:])), True,
                                   False):
                        yield r
            finally:
                dev._busy = False
        conn._queue_flush = _queue_flush
        conn._sendMsg = _sendMsg
        conn._queue_message = _queue_message
