"""Named handshake scenarios used by the tamper / malformed-input / ordering /
fault checks.  A scenario may need earlier honest connections (resumption);
`prepare()` runs them and returns state for `flavor(state)`."""
from . import boot  # noqa
from . import pair, drive, creds
from .pair import Pair, Flavor, ver_settings, settings

from tlslite.sessioncache import SessionCache

TK = [bytes(range(32))]
V = {"ssl3": (3, 0), "tls10": (3, 1), "tls11": (3, 2), "tls12": (3, 3),
     "tls13": (3, 4)}


def pump(p, conn, sock, n=3):
    """let an endpoint consume pending post-handshake messages"""
    for _ in range(n):
        d = "s2c" if conn is p.c else "c2s"
        if not p.link.in_flight(d):
            break
        t = drive.Task("pump", drive.aread(conn, None, 0), sock)
        drive.run([t], p.link)
        if t.status != "done":
            break


class Scenario(object):
    def __init__(self, name, ver, make, prepare=None, tags=()):
        self.name = name
        self.ver = ver
        self._make = make
        self._prepare = prepare
        self.tags = set(tags)

    def prepare(self):
        return self._prepare() if self._prepare else None

    def flavor(self, state=None):
        return self._make(state)


def _kx(kxname, ver, skey, kind="cert", **fkw):
    def make(state):
        cs = ver_settings(ver, keyExchangeNames=[kxname])
        ss = ver_settings(ver, keyExchangeNames=[kxname])
        return Flavor(kind, skey=skey, cset=cs, sset=ss, **fkw)
    return make


def _tls13(skey="rsa", ckw=None, skw=None, **fkw):
    def make(state):
        cs = ver_settings((3, 4), **(ckw or {}))
        ss = ver_settings((3, 4), **(skw or {}))
        return Flavor("cert", skey=skey, cset=cs, sset=ss, **fkw)
    return make


def _resume_prepare(ver, mode):
    def prep():
        cache = SessionCache() if mode == "id" else None
        skw = {} if mode == "id" else {"ticketKeys": TK}
        p = Pair()
        fl = Flavor("cert", skey="rsa", cset=ver_settings(ver),
                    sset=ver_settings(ver, **skw), session_cache=cache)
        tc, ts = p.handshake(fl)
        if tc.status != "done" or ts.status != "done":
            raise RuntimeError("resumption source handshake failed")
        pump(p, p.c, p.csock)
        # close cleanly so the session stays resumable
        t1 = drive.Task("cc", drive.aclose(p.c), p.csock)
        t2 = drive.Task("sc", drive.aclose(p.s), p.ssock)
        drive.run([t1, t2], p.link)
        return {"session": p.c.session, "cache": cache, "skw": skw}
    return prep


def _resume_make(ver):
    def make(state):
        return Flavor("cert", skey="rsa", cset=ver_settings(ver),
                      sset=ver_settings(ver, **state["skw"]),
                      session_cache=state["cache"], session=state["session"])
    return make


def _psk(modes, h="sha256", with_cert=False):
    def make(state):
        psk = (creds.PSK_ID, creds.PSK_SECRET, h)
        cs = ver_settings((3, 4), pskConfigs=[psk], psk_modes=modes)
        ss = ver_settings((3, 4), pskConfigs=[psk], psk_modes=modes)
        return Flavor("psk", skey="rsa" if with_cert else None, cset=cs,
                      sset=ss)
    return make


def build():
    S = []
    for vn in ("ssl3", "tls10", "tls11", "tls12"):
        ver = V[vn]
        S.append(Scenario(vn + "-rsa", ver, _kx("rsa", ver, "rsa"),
                          tags=["plain", "rsa_kx"]))
        S.append(Scenario(vn + "-dhe_rsa", ver, _kx("dhe_rsa", ver, "rsa"),
                          tags=["plain"]))
        S.append(Scenario(vn + "-ecdhe_rsa", ver, _kx("ecdhe_rsa", ver, "rsa"),
                          tags=["plain"]))
        S.append(Scenario(vn + "-ecdhe_ecdsa", ver,
                          _kx("ecdhe_ecdsa", ver, "ecdsa256"),
                          tags=["plain"]))
        S.append(Scenario(vn + "-dhe_dsa", ver, _kx("dhe_dsa", ver, "dsa"),
                          tags=["plain"]))
        S.append(Scenario(vn + "-srp", ver,
                          _kx("srp_sha", ver, None, kind="srp"),
                          tags=["plain", "srp"]))
        S.append(Scenario(vn + "-srp_rsa", ver,
                          _kx("srp_sha_rsa", ver, "rsa", kind="srp_cert"),
                          tags=["plain", "srp"]))
        S.append(Scenario(vn + "-dh_anon", ver,
                          _kx("dh_anon", ver, None, kind="anon"),
                          tags=["plain", "anon"]))
        S.append(Scenario(vn + "-ecdh_anon", ver,
                          _kx("ecdh_anon", ver, None, kind="anon"),
                          tags=["plain", "anon"]))
        S.append(Scenario(vn + "-ecdhe_rsa-clientauth", ver,
                          _kx("ecdhe_rsa", ver, "rsa", ckey="rsa",
                              req_cert=True), tags=["plain", "cauth"]))
        S.append(Scenario(vn + "-rsa-clientauth-ecdsa", ver,
                          _kx("rsa", ver, "rsa", ckey="ecdsa", req_cert=True),
                          tags=["plain", "cauth"]))
        S.append(Scenario(vn + "-rsa-reqcert-nocert", ver,
                          _kx("rsa", ver, "rsa", req_cert=True),
                          tags=["plain", "cauth"]))
        S.append(Scenario(vn + "-resume-id", ver, _resume_make(ver),
                          _resume_prepare(ver, "id"),
                          tags=["plain", "resume"]))
        if ver > (3, 0):
            S.append(Scenario(vn + "-resume-ticket", ver, _resume_make(ver),
                              _resume_prepare(ver, "ticket"),
                              tags=["plain", "resume", "ticket"]))
            S.append(Scenario(vn + "-ecdhe_rsa-npn", ver,
                              _kx("ecdhe_rsa", ver, "rsa", npn_c=[b"http/1.1"],
                                  npn_s=[b"h2", b"http/1.1"]),
                              tags=["plain", "npn"]))
    S.append(Scenario("tls12-ecdhe_rsa-alpn", (3, 3),
                      _kx("ecdhe_rsa", (3, 3), "rsa", alpn_c=[b"h2", b"x"],
                          alpn_s=[b"x", b"h2"], sni="WWW.Example.COM"),
                      tags=["plain", "alpn"]))
    S.append(Scenario("tls12-ecdhe_ed25519", (3, 3),
                      _kx("ecdhe_ecdsa", (3, 3), "ed25519"),
                      tags=["plain"]))
    S.append(Scenario("tls12-ecdhe_rsapss", (3, 3),
                      _kx("ecdhe_rsa", (3, 3), "rsapss"), tags=["plain"]))
    S.append(Scenario("tls12-tickets-issue", (3, 3),
                      lambda st: Flavor("cert", skey="rsa",
                                        cset=ver_settings((3, 3)),
                                        sset=ver_settings((3, 3),
                                                          ticketKeys=TK)),
                      tags=["plain", "ticket"]))
    # TLS 1.3
    S.append(Scenario("tls13-rsa", (3, 4), _tls13("rsa"), tags=["tls13"]))
    S.append(Scenario("tls13-ecdsa", (3, 4), _tls13("ecdsa256"),
                      tags=["tls13"]))
    S.append(Scenario("tls13-ed25519", (3, 4), _tls13("ed25519"),
                      tags=["tls13"]))
    S.append(Scenario("tls13-rsapss", (3, 4), _tls13("rsapss"),
                      tags=["tls13"]))
    S.append(Scenario("tls13-x448-ffdhe", (3, 4),
                      _tls13("rsa", ckw=dict(keyShares=["ffdhe2048"],
                                             dhGroups=["ffdhe2048"]),
                             skw=dict(dhGroups=["ffdhe2048"])),
                      tags=["tls13"]))
    S.append(Scenario("tls13-hrr", (3, 4),
                      _tls13("rsa", ckw=dict(keyShares=["x25519"]),
                             skw=dict(eccCurves=["secp256r1"],
                                      keyShares=["secp256r1"])),
                      tags=["tls13", "hrr"]))
    S.append(Scenario("tls13-hrr-noshare", (3, 4),
                      _tls13("ecdsa256", ckw=dict(keyShares=[])),
                      tags=["tls13", "hrr"]))
    S.append(Scenario("tls13-clientauth", (3, 4),
                      _tls13("rsa", ckey="rsa", req_cert=True),
                      tags=["tls13", "cauth"]))
    S.append(Scenario("tls13-clientauth-ecdsa-nocert", (3, 4),
                      _tls13("ecdsa256", req_cert=True),
                      tags=["tls13", "cauth"]))
    S.append(Scenario("tls13-alpn-tickets", (3, 4),
                      _tls13("rsa", skw=dict(ticketKeys=TK),
                             alpn_c=[b"h2"], alpn_s=[b"h2"]),
                      tags=["tls13", "ticket", "alpn"]))
    S.append(Scenario("tls13-psk_dhe", (3, 4), _psk(["psk_dhe_ke"]),
                      tags=["tls13", "psk"]))
    S.append(Scenario("tls13-psk_ke", (3, 4), _psk(["psk_ke"]),
                      tags=["tls13", "psk"]))
    S.append(Scenario("tls13-psk-sha384", (3, 4),
                      _psk(["psk_dhe_ke", "psk_ke"], "sha384", True),
                      tags=["tls13", "psk"]))
    S.append(Scenario("tls13-resume-ticket", (3, 4), _resume_make((3, 4)),
                      _resume_prepare((3, 4), "ticket"),
                      tags=["tls13", "resume", "ticket"]))
    # mixed-version defaults (negotiation with downgrade protection in play)
    S.append(Scenario("default-default", (3, 4),
                      lambda st: Flavor("cert", skey="rsa"),
                      tags=["tls13", "default"]))
    S.append(Scenario("default-vs-tls12server", (3, 3),
                      lambda st: Flavor("cert", skey="rsa",
                                        sset=settings(maxVersion=(3, 3))),
                      tags=["plain", "default"]))
    return S


ALL = build()
BY_NAME = {s.name: s for s in ALL}


# what the two ends say to each other after the handshake (a check may
# replace them before it starts, e.g. by payloads filling several records)
PING = b"ping-from-client" * 3
PONG = b"pong-from-server" * 3


def script_after_handshake(p, steps=True):
    """short data exchange + orderly close, as two programs (generators)"""
    def client():
        yield from drive.awrite(p.c, PING)
        r = yield from drive.aread(p.c, None, len(PONG))
        yield from drive.awrite(p.c, b"bye")
        yield from drive.aclose(p.c)
        return r

    def server():
        r = yield from drive.aread(p.s, None, len(PING))
        yield from drive.awrite(p.s, PONG)
        r2 = yield from drive.aread(p.s, None, 3)
        yield from drive.aclose(p.s)
        return (r, r2)
    return client, server
