"""Process bootstrap: import tlslite from /repo's working tree, deterministic
randomness, virtual clock.  Must be imported before tlslite."""
import os
import sys
import hashlib
import time as _time

sys.dont_write_bytecode = True
REPO = os.environ.get("VT_REPO", "/repo")
VERIF = os.path.dirname(os.path.dirname(os.path.abspath(__file__)))
if sys.path[0] != REPO:
    sys.path.insert(0, REPO)
_deps = os.path.join(VERIF, ".deps")
if os.path.isdir(_deps) and _deps not in sys.path:
    sys.path.append(_deps)

GUARD = "TLSLITE_NG_VERIF"
os.environ.setdefault(GUARD, "1")

_real_urandom = os.urandom
_real_time = _time.time


class DRBG(object):
    """SHA-256 counter DRBG replacing os.urandom inside a shard."""

    def __init__(self):
        self.key = b"boot"
        self.ctr = 0
        self.enabled = False

    def reseed(self, label):
        if not isinstance(label, bytes):
            label = str(label).encode()
        self.key = hashlib.sha256(label).digest()
        self.ctr = 0

    def __call__(self, n):
        if not self.enabled:
            return _real_urandom(n)
        out = b""
        while len(out) < n:
            out += hashlib.sha256(self.key + self.ctr.to_bytes(8, "big")).digest()
            self.ctr += 1
        return out[:n]


drbg = DRBG()


def install_drbg():
    drbg.enabled = True
    os.urandom = drbg


def uninstall_drbg():
    drbg.enabled = False
    os.urandom = _real_urandom


class VClock(object):
    def __init__(self):
        self.enabled = False
        self.now = 1_800_000_000.0

    def __call__(self):
        if not self.enabled:
            return _real_time()
        return self.now

    def advance(self, dt):
        self.now += dt


vclock = VClock()


def install_vclock(start=1_800_000_000.0):
    vclock.enabled = True
    vclock.now = float(start)
    _time.time = vclock


def uninstall_vclock():
    vclock.enabled = False
    _time.time = _real_time


def check_repo_import():
    import tlslite
    p = os.path.realpath(os.path.dirname(tlslite.__file__))
    want = os.path.realpath(os.path.join(REPO, "tlslite"))
    if p != want:
        raise RuntimeError("tlslite imported from %s, wanted %s" % (p, want))
    return p
