"""Controlled thread scheduler, schedule enumeration and a linearizability
checker (used by C18).

Worker threads are real ``threading.Thread``s but only the one holding the
*token* runs.  ``sys.settrace`` (installed per worker thread) turns every
*line* executed in the target source files into a preemption point at which
a *chooser* decides who runs next.  Locks of the object under test are
replaced by :class:`SchedLock`: a thread that finds it taken becomes
not-runnable and hands the token on; hooks registered on the lock run inside
``release()`` while the lock is still held.  If no thread is runnable while
some are still blocked the scheduler reports a deadlock (of the code under
test: the only way to block inside the scheduler is a SchedLock); any other
hang is caught by a real-time watchdog and is reported as a harness problem
(never a verdict).

Everything in a Scheduler object is touched only by the token holder, so it
needs no locking of its own; the few fields used while threads unwind
concurrently after an abort are guarded by ``_mx``.
"""
import hashlib
import sys
import threading
import time as _time

RUNNABLE, BLOCKED, FINISHED = 0, 1, 2
_mono = _time.monotonic


class Abort(BaseException):
    """raised inside worker threads to unwind them (deadlock, step limit)"""


class Nondeterminism(Exception):
    pass


class SThread(object):
    __slots__ = ("tid", "body", "go", "state", "waiting_on", "error",
                 "thread", "ident", "steps", "log")

    def __init__(self, tid, body):
        self.tid = tid
        self.body = body
        self.go = threading.Lock()
        self.go.acquire()
        self.state = RUNNABLE
        self.waiting_on = None
        self.error = None
        self.thread = None
        self.ident = None
        self.steps = 0
        self.log = []

    def __repr__(self):
        return "T%d" % self.tid


class SchedLock(object):
    """threading.Lock look-alike understood by the scheduler"""

    def __init__(self, sched, name, hooks=()):
        self.sched = sched
        self.name = name
        self.hooks = list(hooks)
        self.owner = None
        self.waiters = []
        self.acquisitions = 0
        self.contended = 0
        self.hook_runs = 0

    def _me(self):
        s = self.sched
        cur = s.current
        if s.running and cur is not None and \
                threading.get_ident() == cur.ident:
            return cur
        return None

    def acquire(self, blocking=True, timeout=-1):
        s = self.sched
        t = self._me()
        if s.aborting:
            raise Abort()
        if t is None:
            # sequential use outside a scheduled run (set-up, epilogue)
            if self.owner is not None:
                raise RuntimeError("SchedLock %s still held by %r outside a "
                                   "scheduled run" % (self.name, self.owner))
            self.owner = "main"
            self.acquisitions += 1
            return True
        self.acquisitions += 1
        first = True
        while self.owner is not None:
            if not blocking:
                return False
            if first:
                self.contended += 1
                first = False
            t.state = BLOCKED
            t.waiting_on = self
            self.waiters.append(t)
            s._block(t)
        self.owner = t
        return True

    def release(self):
        s = self.sched
        if self.owner is None:
            if s.aborting:
                return
            raise RuntimeError("release unlocked lock")
        if not s.aborting and self.hooks:
            s.suspend += 1
            try:
                for h in self.hooks:
                    self.hook_runs += 1
                    try:
                        h()
                    except Abort:
                        raise
                    except BaseException as e:   # noqa  harness fault
                        s.harness_errors.append("hook %s: %r" % (self.name,
                                                                 e))
            finally:
                s.suspend -= 1
        self.owner = None
        if self.waiters:
            for w in self.waiters:
                w.state = RUNNABLE
                w.waiting_on = None
            del self.waiters[:]

    def locked(self):
        return self.owner is not None

    def __enter__(self):
        self.acquire()
        return True

    def __exit__(self, *a):
        self.release()
        return False


class _PoolWorker(object):
    """persistent OS thread reused by successive Scheduler runs (creating
    threads dominates the cost of a short schedule)"""

    def __init__(self):
        self.wake = threading.Lock()
        self.wake.acquire()
        self.fn = None
        self.thread = threading.Thread(target=self._loop, daemon=True)
        self.thread.start()

    def _loop(self):
        while True:
            self.wake.acquire()
            fn, self.fn = self.fn, None
            try:
                fn()
            except BaseException:   # noqa
                pass
            with _pool_mx:
                _pool_idle.append(self)

    def submit(self, fn):
        self.fn = fn
        self.wake.release()


_pool_mx = threading.Lock()
_pool_idle = []


def _pool_get():
    with _pool_mx:
        if _pool_idle:
            return _pool_idle.pop()
    return _PoolWorker()


class Scheduler(object):
    def __init__(self, targets, chooser, max_steps=20000, watchdog=60.0):
        """targets: {absolute source filename: short label}"""
        self.targets = targets
        self.chooser = chooser
        self.max_steps = max_steps
        self.watchdog = watchdog
        self.threads = []
        self.current = None
        self.running = False
        self.aborting = False
        self.outcome = None          # done|deadlock|steplimit|watchdog
        self.detail = None
        self.tick = 0                # global step / stamp counter
        self.trace = []              # [(tick, tid)] every token hand-over
        self.preemptions = 0
        self.pp = {}                 # label -> preemption points seen
        self.harness_errors = []
        self.locks = []
        self.suspend = 0             # >0: no preemption (harness code runs)
        self._mx = threading.Lock()
        self._alive = 0
        self._done = threading.Event()

    # -- construction -----------------------------------------------------
    def lock(self, name, hooks=()):
        lk = SchedLock(self, name, hooks)
        self.locks.append(lk)
        return lk

    def spawn(self, body):
        t = SThread(len(self.threads), body)
        self.threads.append(t)
        return t

    def stamp(self):
        self.tick += 1
        return self.tick

    # -- tracing ------------------------------------------------------------
    def _gtrace(self, frame, event, arg):
        if frame.f_code.co_filename in self.targets:
            return self._ltrace
        return None

    def _ltrace(self, frame, event, arg):
        if event == "line":
            self._yield_point(frame)
        return self._ltrace

    def _yield_point(self, frame):
        if self.aborting or self.suspend:
            return
        t = self.current
        self.tick += 1
        t.steps += 1
        lab = self.targets[frame.f_code.co_filename]
        self.pp[lab] = self.pp.get(lab, 0) + 1
        if self.tick > self.max_steps:
            self._abort("steplimit", None)
            raise Abort()
        runnable = [u for u in self.threads if u.state == RUNNABLE]
        if len(runnable) < 2:
            return
        nxt = self.chooser.choose(t, runnable, True)
        if nxt is not t:
            self.preemptions += 1
            self._switch(t, nxt)

    # -- token passing ----------------------------------------------------------
    def _switch(self, t, nxt):
        self.trace.append((self.tick, nxt.tid))
        self.current = nxt
        nxt.go.release()
        t.go.acquire()
        if self.aborting:
            raise Abort()

    def _block(self, t):
        runnable = [u for u in self.threads if u.state == RUNNABLE]
        if not runnable:
            self._deadlock()
            raise Abort()
        nxt = runnable[0] if len(runnable) == 1 else \
            self.chooser.choose(t, runnable, False)
        self._switch(t, nxt)

    def _deadlock(self):
        d = []
        for u in self.threads:
            if u.state == BLOCKED:
                lk = u.waiting_on
                d.append({"thread": u.tid, "waits_for": lk.name,
                          "held_by": getattr(lk.owner, "tid", lk.owner)})
        self._abort("deadlock", d)

    def _abort(self, outcome, detail):
        with self._mx:
            if self.outcome is None:
                self.outcome = outcome
                self.detail = detail
            self.aborting = True
        me = threading.get_ident()
        for u in self.threads:
            if u.state != FINISHED and u.ident != me:
                try:
                    u.go.release()
                except RuntimeError:
                    pass

    def _worker(self, t):
        t.go.acquire()
        try:
            if not self.aborting:
                sys.settrace(self._gtrace)
                try:
                    t.body(t)
                finally:
                    sys.settrace(None)
        except Abort:
            pass
        except BaseException as e:   # noqa: harness fault in a body
            t.error = e
            self.harness_errors.append("body T%d: %r" % (t.tid, e))
        self._finish(t)

    def _finish(self, t):
        if not self.aborting:
            t.state = FINISHED
            runnable = [u for u in self.threads if u.state == RUNNABLE]
            if runnable:
                nxt = runnable[0] if len(runnable) == 1 else \
                    self.chooser.choose(t, runnable, False)
                self.trace.append((self.tick, nxt.tid))
                self.current = nxt
                nxt.go.release()
            elif any(u.state == BLOCKED for u in self.threads):
                self._deadlock()
        with self._mx:
            t.state = FINISHED
            self._alive -= 1
            if self._alive == 0:
                self._done.set()

    # -- run ------------------------------------------------------------------
    def run(self):
        """run all spawned bodies to completion under the chooser.
        -> outcome string"""
        self._alive = len(self.threads)
        for t in self.threads:
            t.thread = _pool_get()
            t.ident = t.thread.thread.ident
            t.thread.submit(lambda t=t: self._worker(t))
        self.running = True
        first = self.threads[0] if len(self.threads) == 1 else \
            self.chooser.choose(None, list(self.threads), False)
        self.trace.append((self.tick, first.tid))
        self.current = first
        first.go.release()
        if not self._done.wait(self.watchdog):
            # harness-level hang: not a verdict
            self._abort("watchdog", None)
            self._done.wait(5.0)
        self.running = False
        self.current = None
        if self.outcome is None:
            self.outcome = "done"
        return self.outcome

    def trace_hash(self, salt=""):
        h = hashlib.sha1(salt.encode())
        h.update(repr(self.trace).encode())
        return h.hexdigest()[:16]

    def contended(self):
        return sum(lk.contended for lk in self.locks)


# ---------------------------------------------------------------------------
# choosers
# ---------------------------------------------------------------------------
class DFSChooser(object):
    """stateless depth-first enumeration of schedules with at most `bound`
    preemptions (switching away from a thread that could continue); switches
    forced by blocking/finishing are free and all alternatives enumerated"""

    def __init__(self, bound):
        self.bound = bound
        self.stack = []      # [n_options, index]
        self.pos = 0
        self.used = 0
        self.nondet = False

    def begin(self):
        self.pos = 0
        self.used = 0

    def choose(self, cur, runnable, preemptive):
        if preemptive:
            if self.used >= self.bound:
                return cur
            opts = [cur] + [u for u in runnable if u is not cur]
        else:
            opts = runnable
        if len(opts) == 1:
            return opts[0]
        if self.pos < len(self.stack):
            n, idx = self.stack[self.pos]
            if n != len(opts):
                self.nondet = True
                idx = min(idx, len(opts) - 1)
        else:
            idx = 0
            self.stack.append([len(opts), 0])
        self.pos += 1
        nxt = opts[idx]
        if preemptive and nxt is not cur:
            self.used += 1
        return nxt

    def advance(self):
        """move to the next schedule; False when the space is exhausted"""
        if self.pos < len(self.stack):
            self.nondet = True
            del self.stack[self.pos:]
        while self.stack and self.stack[-1][1] + 1 >= self.stack[-1][0]:
            self.stack.pop()
        if not self.stack:
            return False
        self.stack[-1][1] += 1
        return True


class RandomChooser(object):
    def __init__(self, rng, p):
        self.rng = rng
        self.p = p

    def begin(self):
        pass

    def choose(self, cur, runnable, preemptive):
        if preemptive:
            if self.rng.random() >= self.p:
                return cur
            others = [u for u in runnable if u is not cur]
            return self.rng.choice(others)
        return self.rng.choice(runnable)


class TraceChooser(object):
    """replay a recorded switch trace [(tick, tid), ...]"""

    def __init__(self, sched_ref, trace):
        self.sched_ref = sched_ref     # callable -> Scheduler
        self.trace = list(trace)
        self.i = 0
        self.diverged = False

    def begin(self):
        self.i = 0

    def choose(self, cur, runnable, preemptive):
        s = self.sched_ref()
        # s.trace already has self.i entries when we are asked
        self.i = len(s.trace)
        if self.i < len(self.trace):
            tick, tid = self.trace[self.i]
            if tick == s.tick:
                for u in runnable:
                    if u.tid == tid:
                        return u
                self.diverged = True
            elif not preemptive:
                self.diverged = True
        elif not preemptive:
            self.diverged = True
        if preemptive:
            return cur
        return runnable[0]


# ---------------------------------------------------------------------------
# linearizability (Wing & Gong search with memoisation)
# ---------------------------------------------------------------------------
class SearchCap(Exception):
    pass


def linearizable(ops, init, step, cap=200000):
    """ops: list of objects with .call < .ret (unique stamps).
    step(state, op) -> iterable of successor states in which op's *observed*
    result is allowed (empty = not allowed in this state).  States hashable.
    -> (True, order) / (False, None); raises SearchCap after `cap` nodes."""
    n = len(ops)
    if n == 0:
        return True, []
    full = (1 << n) - 1
    memo = set()
    nodes = [0]
    order = []
    calls = [o.call for o in ops]
    rets = [o.ret for o in ops]

    def rec(mask, state):
        if mask == full:
            return True
        key = (mask, state)
        if key in memo:
            return False
        minret = min(rets[i] for i in range(n) if not mask >> i & 1)
        for i in range(n):
            if mask >> i & 1 or calls[i] > minret:
                continue
            for ns in step(state, ops[i]):
                nodes[0] += 1
                if nodes[0] > cap:
                    raise SearchCap()
                order.append(i)
                if rec(mask | 1 << i, ns):
                    return True
                order.pop()
        memo.add(key)
        return False

    lim = sys.getrecursionlimit()
    if lim < n + 200:
        sys.setrecursionlimit(n + 200)
    ok = rec(0, init)
    return ok, (list(order) if ok else None)
