"""Per-shard context: case iteration, determinism, counters, verdict events."""
import hashlib
import json
import os
import random
import time as _time

from . import boot

_mono = _time.monotonic


class Ctx(object):
    def __init__(self, prop, tier, seed, shard, nshards, only_case=None,
                 deadline_s=None):
        self.prop = prop
        self.tier = tier
        self.seed = seed
        self.shard = shard
        self.nshards = nshards
        self.only_case = only_case
        self.t0 = _mono()
        self.deadline = None if deadline_s is None else self.t0 + deadline_s
        self.counters = {}
        self.cells = {}          # family -> set of cell strings
        self.samples = []
        self.violations = []     # list of dict(key=..., witness=...)
        self.inconclusive = []
        self.evaluations = 0
        self.truncated = False
        self.case_id = None
        self.rng = random.Random("%s/%s/%s" % (seed, prop, shard))
        self._idx = 0
        self.max_samples = 6
        self.notes = []

    @property
    def quick(self):
        return self.tier == "quick"

    def pick(self, quick, thorough):
        return quick if self.tier == "quick" else thorough

    # --- case iteration -------------------------------------------------
    def cases(self, iterable):
        """iterate (case_id, params) handling sharding, replay filter,
        per-case DRBG/PRNG reseeding and the soft deadline"""
        for case_id, params in iterable:
            i = self._idx
            self._idx += 1
            if self.only_case is not None:
                if case_id != self.only_case:
                    continue
            elif i % self.nshards != self.shard:
                continue
            if self.deadline is not None and _mono() > self.deadline:
                self.truncated = True
                break
            self.begin_case(case_id)
            yield case_id, params

    def begin_case(self, case_id):
        self.case_id = case_id
        label = "%s/%s/%s" % (self.seed, self.prop, case_id)
        boot.drbg.reseed(label)
        self.rng = random.Random(label)

    def case_rng(self, case_id):
        return random.Random("%s/%s/%s" % (self.seed, self.prop, case_id))

    def expired(self):
        if self.deadline is not None and _mono() > self.deadline:
            self.truncated = True
            return True
        return False

    # --- recording ------------------------------------------------------
    def count(self, name, n=1):
        self.counters[name] = self.counters.get(name, 0) + n

    def maxi(self, name, v):
        k = "max:" + name
        if v > self.counters.get(k, float("-inf")):
            self.counters[k] = v

    def cell(self, family, value):
        """record a distinct non-trivial cell observed by a monitor"""
        self.cells.setdefault(family, set()).add(
            value if isinstance(value, str) else json.dumps(value,
                                                            default=str))

    def ev(self, n=1):
        self.evaluations += n

    def sample(self, obj, force=False):
        if force or len(self.samples) < self.max_samples:
            self.samples.append(_jsonable(obj))

    def note(self, s):
        if s not in self.notes:
            self.notes.append(s)

    def violation(self, key, witness=None, msg=""):
        """key: dict describing the *mechanism* (clause, op, exc, frame...)
        witness: enough to replay (case id is added automatically)"""
        v = {"key": _jsonable(key), "msg": msg,
             "case": self.case_id, "shard": self.shard,
             "witness": _jsonable(witness)}
        self.violations.append(v)
        self.count("violations_raw")

    def inconc(self, reason):
        if reason not in self.inconclusive:
            self.inconclusive.append(reason)

    # --- output ---------------------------------------------------------
    def dump(self):
        return {
            "prop": self.prop, "tier": self.tier, "seed": self.seed,
            "shard": self.shard, "nshards": self.nshards,
            "evaluations": self.evaluations,
            "counters": self.counters,
            "cells": {k: sorted(v) for k, v in self.cells.items()},
            "samples": self.samples,
            "violations": self.violations[:200],
            "n_violations": len(self.violations),
            "inconclusive": self.inconclusive,
            "truncated": self.truncated,
            "notes": self.notes,
            "wall_s": _mono() - self.t0,
        }


def _jsonable(o, depth=0):
    if depth > 8:
        return repr(o)[:200]
    if o is None or isinstance(o, (bool, int, float, str)):
        return o
    if isinstance(o, (bytes, bytearray)):
        h = bytes(o).hex()
        return "hex:" + (h if len(h) <= 4096 else
                         h[:4096] + "...(%d bytes)" % len(o))
    if isinstance(o, dict):
        return {str(k): _jsonable(v, depth + 1) for k, v in o.items()}
    if isinstance(o, (list, tuple, set, frozenset)):
        return [_jsonable(v, depth + 1) for v in o]
    return repr(o)[:300]


def digest(obj):
    return hashlib.sha256(json.dumps(obj, sort_keys=True,
                                     default=str).encode()).hexdigest()[:16]
