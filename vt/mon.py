"""Monitors shared by several properties."""
import hashlib

from . import boot  # noqa
from tlslite import errors as E
import socket


def keystream(label, n):
    """position-stamped payload: byte at offset o depends on (label, o)"""
    out = bytearray()
    i = 0
    lab = label.encode() if isinstance(label, str) else label
    while len(out) < n:
        out += hashlib.sha256(lab + i.to_bytes(8, "big")).digest()
        i += 1
    return bytes(out[:n])


class Fifo(object):
    """FIFO stream model for one direction."""

    def __init__(self, label, size=1 << 18):
        self.label = label
        self.stream = keystream(label, size)
        self.woff = 0
        self.roff = 0

    def next_write(self, n):
        if self.woff + n > len(self.stream):
            self.stream += keystream(self.label + "+%d" % len(self.stream),
                                     max(n, 1 << 18))
        d = self.stream[self.woff:self.woff + n]
        self.woff += n
        return d

    @property
    def pending(self):
        return self.woff - self.roff

    def check_read(self, data):
        """-> None if data is the next bytes written, else description"""
        n = len(data)
        exp = self.stream[self.roff:self.roff + n]
        if data == exp and self.roff + n <= self.woff:
            self.roff += n
            return None
        # diagnose
        if self.roff + n > self.woff and data == exp:
            return {"kind": "read_beyond_written", "roff": self.roff,
                    "n": n, "woff": self.woff}
        pos = self.stream.find(bytes(data[:16]), 0, self.woff) \
            if n >= 16 else -1
        first = next((i for i in range(min(n, len(exp)))
                      if data[i] != exp[i]), min(n, len(exp)))
        kind = "corrupt"
        if pos >= 0 and pos < self.roff:
            kind = "duplicate_or_reorder_back"
        elif pos > self.roff:
            kind = "loss_or_reorder_forward"
        return {"kind": kind, "roff": self.roff, "n": n,
                "first_bad": self.roff + first, "found_at": pos,
                "got": bytes(data[:32]).hex(), "want": exp[:32].hex()}


def tap_recv(conn, log):
    """log every (content type, plaintext length) the record layer of conn
    yields; pure observer installed as an instance attribute"""
    rl = conn._recordLayer
    orig = rl.recvRecord

    def recvRecord():
        for r in orig():
            if isinstance(r, tuple):
                hdr, parser = r
                try:
                    ln = parser.getRemainingLength()
                except Exception:   # noqa
                    ln = None
                log.append((hdr.type, ln))
            yield r
    rl.recvRecord = recvRecord
    return log


DOCUMENTED = (E.BaseTLSException, socket.error)


def classify_exc(e):
    """exception class for C08-style classification"""
    if isinstance(e, E.TLSLocalAlert):
        return "local_alert"
    if isinstance(e, E.TLSRemoteAlert):
        return "remote_alert"
    if isinstance(e, E.TLSAbruptCloseError):
        return "abrupt_close"
    if isinstance(e, E.TLSClosedConnectionError):
        return "closed_conn"
    if isinstance(e, E.BaseTLSException):
        return "tls:" + type(e).__name__
    if isinstance(e, socket.error):
        return "socket_error"
    return "undocumented:" + type(e).__name__
