"""Child process entry: python -m vt.shard <prop> <tier> <seed> <i> <n> <out> [case]"""
import faulthandler
import importlib
import json
import os
import sys
import traceback


def main(argv):
    prop, tier, seed, i, n, out = argv[:6]
    only = argv[6] if len(argv) > 6 and argv[6] != "-" else None
    seed = int(seed)
    i = int(i)
    n = int(n)
    from vt import boot
    mod = importlib.import_module("vt.props." + prop.lower())
    if getattr(mod, "USE_DRBG", True):
        boot.install_drbg()
    boot.check_repo_import()
    from vt.ctx import Ctx
    dl = getattr(mod, "DEADLINE", {"quick": 100, "thorough": 1500})
    dl = dl.get(tier)
    if os.environ.get("VT_DEADLINE"):
        dl = float(os.environ["VT_DEADLINE"])
    ctx = Ctx(prop, tier, seed, i, n, only_case=only, deadline_s=dl)
    # wall-clock watchdog: dump tracebacks and die -> parent says inconclusive
    wd = getattr(mod, "WATCHDOG", {"quick": 600, "thorough": 5400}).get(tier)
    faulthandler.dump_traceback_later(wd, exit=True)
    try:
        mod.run(ctx)
    except BaseException:   # harness fault, never a verdict
        ctx.inconc("harness exception in shard %d: %s" % (
            i, traceback.format_exc()[-1500:]))
    faulthandler.cancel_dump_traceback_later()
    with open(out + ".tmp", "w") as f:
        json.dump(ctx.dump(), f)
    os.replace(out + ".tmp", out)


if __name__ == "__main__":
    main(sys.argv[1:])
