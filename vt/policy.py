"""Seeded generator of HandshakeSettings restrictions and an independent
policy oracle (is a negotiated parameter inside what a settings object
allows?).  The oracle interprets IANA names / registry code points; it does
not consult tlslite's classification lists."""
from . import boot  # noqa
from .refs import iana
from . import wire

from tlslite.handshakesettings import HandshakeSettings

ALL_CIPHERS = ["chacha20-poly1305", "aes256gcm", "aes128gcm", "aes256ccm",
               "aes128ccm", "aes256", "aes128", "3des",
               "chacha20-poly1305_draft00", "aes128ccm_8", "aes256ccm_8",
               "rc4", "null"]
ALL_MACS = ["sha", "sha256", "sha384", "aead", "md5"]
ALL_KX = ["ecdhe_ecdsa", "rsa", "dhe_rsa", "ecdhe_rsa", "srp_sha",
          "srp_sha_rsa", "ecdh_anon", "dh_anon", "dhe_dsa"]
CURVES = ["x25519", "x448", "secp384r1", "secp256r1", "secp521r1",
          "brainpoolP512r1", "brainpoolP384r1", "brainpoolP256r1",
          "brainpoolP256r1tls13", "brainpoolP384r1tls13",
          "brainpoolP512r1tls13"]
FFDHE = ["ffdhe2048", "ffdhe3072", "ffdhe4096", "ffdhe6144", "ffdhe8192"]
TLS13_GROUPS = ["secp256r1", "secp384r1", "secp521r1", "x25519", "x448",
                "ffdhe2048", "ffdhe3072", "ffdhe4096", "ffdhe6144",
                "ffdhe8192", "brainpoolP256r1tls13", "brainpoolP384r1tls13",
                "brainpoolP512r1tls13"]
HASHES = ["sha512", "sha384", "sha256", "sha224", "sha1"]
MORE = ["Ed25519", "Ed448", "ecdsa_brainpoolP512r1tls13_sha512",
        "ecdsa_brainpoolP384r1tls13_sha384",
        "ecdsa_brainpoolP256r1tls13_sha256"]
VERSIONS = [(3, 0), (3, 1), (3, 2), (3, 3), (3, 4)]


def subset(rng, items, allow_empty=False, reorder=True, p_keep=0.5):
    """keep, reorder or cut to a random (non-empty) subset"""
    r = rng.random()
    items = list(items)
    if r < p_keep:
        return items
    if r < p_keep + 0.15 and reorder:
        rng.shuffle(items)
        return items
    k = rng.randint(0 if allow_empty else 1, max(1, len(items)))
    if rng.random() < 0.35:
        k = 1 if not allow_empty or rng.random() < 0.8 else 0
    out = rng.sample(items, min(k, len(items)))
    return out


def gen(rng, p_keep=0.5, cheap=True):
    """-> dict of setting overrides (may be invalid as a whole)"""
    d = {}
    if rng.random() > p_keep:
        lo = rng.choice(VERSIONS)
        hi = rng.choice([v for v in VERSIONS if v >= lo])
        d["minVersion"], d["maxVersion"] = lo, hi
    if rng.random() > 0.8:
        d["versions"] = subset(rng, [(3, 4), (3, 3), (3, 2), (3, 1)],
                               p_keep=0.2)
    if rng.random() > p_keep:
        d["cipherNames"] = subset(rng, ALL_CIPHERS if rng.random() < 0.5
                                  else ALL_CIPHERS[:8], p_keep=0.1)
        if cheap and "3des" in d["cipherNames"] and len(d["cipherNames"]) > 1 \
                and rng.random() < 0.7:
            d["cipherNames"].remove("3des")
    if rng.random() > p_keep:
        d["macNames"] = subset(rng, ALL_MACS if rng.random() < 0.5
                               else ALL_MACS[:4], p_keep=0.1)
    if rng.random() > p_keep:
        d["keyExchangeNames"] = subset(rng, ALL_KX, p_keep=0.1)
    if rng.random() > p_keep:
        d["eccCurves"] = subset(rng, CURVES, p_keep=0.1)
    if rng.random() > p_keep:
        d["dhGroups"] = subset(rng, FFDHE[:3] if cheap else FFDHE,
                               allow_empty=True, p_keep=0.1)
    if rng.random() > p_keep:
        pool = [g for g in d.get("eccCurves", CURVES) +
                d.get("dhGroups", FFDHE[:2]) if g in TLS13_GROUPS]
        if cheap:
            pool = [g for g in pool if g not in FFDHE[2:]]
        d["keyShares"] = subset(rng, pool, allow_empty=True, p_keep=0.0)[:3]
    elif "eccCurves" in d or "dhGroups" in d:
        # defaults ("secp256r1", "x25519") must stay inside enabled groups
        en = d.get("eccCurves", CURVES) + d.get("dhGroups", FFDHE)
        d["keyShares"] = [g for g in ("secp256r1", "x25519") if g in en]
    if rng.random() > p_keep:
        d["rsaSigHashes"] = subset(rng, HASHES, allow_empty=True, p_keep=0.1)
    if rng.random() > p_keep:
        d["rsaSchemes"] = subset(rng, ["pss", "pkcs1"], p_keep=0.1)
    if rng.random() > p_keep:
        d["ecdsaSigHashes"] = subset(rng, HASHES, allow_empty=True,
                                     p_keep=0.1)
    if rng.random() > p_keep:
        d["dsaSigHashes"] = subset(rng, HASHES, allow_empty=True, p_keep=0.1)
    if rng.random() > p_keep:
        d["more_sig_schemes"] = subset(rng, MORE, allow_empty=True,
                                       p_keep=0.1)
    if rng.random() > 0.75:
        d["minKeySize"] = rng.choice([512, 1023, 1024, 1025, 2048, 2049])
    if rng.random() > 0.75:
        d["maxKeySize"] = rng.choice([1023, 1024, 2047, 2048, 4096, 8193])
    if rng.random() > 0.7:
        d["useEncryptThenMAC"] = rng.random() < 0.5
    if rng.random() > 0.7:
        d["useExtendedMasterSecret"] = rng.random() < 0.5
    if rng.random() > 0.85:
        d["requireExtendedMasterSecret"] = True
    if rng.random() > 0.7:
        d["record_size_limit"] = rng.choice([None, 64, 512, 2 ** 14,
                                             2 ** 14 + 1])
    if rng.random() > 0.8:
        d["use_heartbeat_extension"] = rng.random() < 0.5
    if rng.random() > 0.8:
        d["certificate_compression_send"] = rng.choice([[], ["zlib"]])
    if rng.random() > 0.8:
        d["certificate_compression_receive"] = rng.choice([[], ["zlib"]])
    if rng.random() > 0.85:
        d["ticket_count"] = rng.choice([0, 1, 2, 3])
    if rng.random() > 0.9:
        d["usePaddingExtension"] = False
    if rng.random() > 0.93:
        d["sendFallbackSCSV"] = True
    if rng.random() > 0.85:
        # back ends in any order, with repetitions (python always among them)
        impl = [rng.choice(["openssl", "pycrypto", "python"])
                for _ in range(rng.randint(1, 4))]
        impl.insert(rng.randrange(len(impl) + 1), "python")
        d["cipherImplementations"] = impl
    if rng.random() > 0.85:
        # a repeated element in one list-valued setting
        ks = [k for k, v in d.items() if isinstance(v, list) and v and
              k != "versions"]
        if ks:
            k = rng.choice(sorted(ks))
            d[k] = list(d[k])
            d[k].insert(rng.randrange(len(d[k]) + 1), rng.choice(d[k]))
    return d


def build(d):
    hs = HandshakeSettings()
    for k, v in d.items():
        setattr(hs, k, list(v) if isinstance(v, list) else v)
    return hs


def gen_valid(rng, tries=40, **kw):
    """-> (overrides dict, unvalidated settings) whose validate() passes"""
    for _ in range(tries):
        d = gen(rng, **kw)
        hs = build(d)
        try:
            hs.validate()
        except ValueError:
            continue
        return d, hs
    return {}, HandshakeSettings()


# ---------------------------------------------------------------- oracle

def scheme_allowed(vs, fam, hname):
    """vs: validated settings; is signature scheme (family, hash) inside?"""
    if fam == "rsa_pkcs1":
        return "pkcs1" in vs.rsaSchemes and hname in vs.rsaSigHashes
    if fam in ("rsa_pss_rsae", "rsa_pss_pss"):
        return "pss" in vs.rsaSchemes and hname in vs.rsaSigHashes
    if fam == "ecdsa":
        return hname in vs.ecdsaSigHashes
    if fam == "dsa":
        return hname in vs.dsaSigHashes
    if fam in ("eddsa", "ecdsa_bp13"):
        return hname in vs.more_sig_schemes
    return False


def scheme_fits_key(fam, hname, keytype):
    return {"rsa_pkcs1": keytype in ("rsa",),
            "rsa_pss_rsae": keytype in ("rsa",),
            "rsa_pss_pss": keytype in ("rsa-pss",),
            "ecdsa": keytype == "ecdsa", "ecdsa_bp13": keytype == "ecdsa",
            "dsa": keytype == "dsa",
            "eddsa": keytype == "eddsa"}.get(fam, False)


def within(vs, neg, role):
    """list of reasons why negotiated parameters `neg` are outside the
    validated settings `vs` of the endpoint with `role`"""
    out = []
    ver = neg["version"]
    if not (vs.minVersion <= ver <= vs.maxVersion):
        out.append("version %s outside [%s,%s]" % (ver, vs.minVersion,
                                                   vs.maxVersion))
    if ver == (3, 4) and (3, 4) not in vs.versions:
        out.append("TLS 1.3 not in versions")
    su = neg["suite"]
    if su.cipher not in vs.cipherNames:
        out.append("cipher %s not in cipherNames" % su.cipher)
    if su.mac not in vs.macNames:
        out.append("mac %s not in macNames" % su.mac)
    if not su.tls13 and su.kx_setting not in vs.keyExchangeNames:
        out.append("kx %s not in keyExchangeNames" % su.kx_setting)
    if not su.defined_for(ver):
        out.append("suite %s not defined for %s" % (su.name, ver))
    g = neg.get("group")
    if g is not None:
        if g.startswith("ffdhe"):
            if g not in vs.dhGroups:
                out.append("group %s not in dhGroups" % g)
        elif g not in vs.eccCurves:
            out.append("group %s not in eccCurves" % g)
    bits = neg.get("dh_bits")
    if bits is not None and role == "client" and g is None:
        if not (vs.minKeySize <= bits <= vs.maxKeySize):
            out.append("DH prime of %d bits outside key size bounds" % bits)
    sc = neg.get("scheme")
    if sc is not None and ver >= (3, 3):
        if not scheme_allowed(vs, sc[0], sc[1]):
            out.append("signature scheme %s/%s not allowed" % sc)
    pk = neg.get("peer_key")
    if pk is not None:
        ktype, kbits, curve = pk
        if ktype in ("rsa", "rsa-pss", "dsa"):
            if not (vs.minKeySize <= kbits <= vs.maxKeySize):
                out.append("peer %s key of %d bits outside bounds" % (ktype,
                                                                      kbits))
    if vs.requireExtendedMasterSecret and ver < (3, 4) and ver > (3, 0) \
            and not neg.get("ems"):
        out.append("EMS required but not negotiated")
    return out
