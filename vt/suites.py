"""Force a given (suite, version) on a pair by restricting both settings."""
from . import boot  # noqa
from .refs import iana
from .pair import Flavor, settings

from tlslite.constants import CipherSuite

TABLE = iana.table(CipherSuite.ietfNames)
NEGOTIABLE = sorted(s.id for s in TABLE.values() if s.negotiable)


def suite_settings(su, ver, **kw):
    d = dict(minVersion=ver, maxVersion=ver, cipherNames=[su.cipher])
    if su.tls13:
        d["macNames"] = ["aead"]
    else:
        d["macNames"] = [su.mac]
        d["keyExchangeNames"] = [su.kx_setting]
    d.update(kw)
    return settings(**d)


def flavor_for(sid, ver, cset_kw=None, sset_kw=None, skey=None, **fkw):
    su = TABLE[sid]
    cs = suite_settings(su, ver, **(cset_kw or {}))
    ss = suite_settings(su, ver, **(sset_kw or {}))
    if su.tls13:
        kind, key = "cert", skey or "rsa"
    elif su.kx_setting in ("dh_anon", "ecdh_anon"):
        kind, key = "anon", None
    elif su.kx_setting == "srp_sha":
        kind, key = "srp", None
    elif su.kx_setting == "srp_sha_rsa":
        kind, key = "srp_cert", "rsa"
    else:
        kind = "cert"
        key = skey or {"rsa": "rsa", "dsa": "dsa",
                       "ecdsa": "ecdsa256"}[su.auth]
    return Flavor(kind, skey=key, cset=cs, sset=ss, **fkw)
