"""Independent (harness-side) parsing of the TLS wire: handshake message
reassembly from records, hello / extension / ServerKeyExchange walkers and
re-serialisers.  Nothing here imports tlslite."""
import struct

HS = {0: "HelloRequest", 1: "ClientHello", 2: "ServerHello",
      4: "NewSessionTicket", 5: "EndOfEarlyData", 8: "EncryptedExtensions",
      11: "Certificate", 12: "ServerKeyExchange", 13: "CertificateRequest",
      14: "ServerHelloDone", 15: "CertificateVerify",
      16: "ClientKeyExchange", 20: "Finished", 22: "CertificateStatus",
      24: "KeyUpdate", 25: "CompressedCertificate", 67: "NextProtocol",
      254: "MessageHash"}
HRR_RANDOM = bytes.fromhex("CF21AD74E59A6111BE1D8C021E65B891"
                           "C2A211167ABB8C5E079E09E2C8A8339C")


def u16(b, i):
    return (b[i] << 8) | b[i + 1]


def u24(b, i):
    return (b[i] << 16) | (b[i + 1] << 8) | b[i + 2]


def p16(v):
    return bytes([(v >> 8) & 255, v & 255])


def p24(v):
    return bytes([(v >> 16) & 255, (v >> 8) & 255, v & 255])


def hs_msg(t, body):
    return bytes([t]) + p24(len(body)) + bytes(body)


def record(ctype, ver, body):
    return bytes([ctype, ver[0], ver[1]]) + p16(len(body)) + bytes(body)


def fragment(ctype, ver, data, size=2 ** 14):
    out = b""
    data = bytes(data)
    if not data:
        return record(ctype, ver, b"")
    for i in range(0, len(data), size):
        out += record(ctype, ver, data[i:i + size])
    return out


class Flight(object):
    """plaintext handshake messages of one direction, up to the first
    ChangeCipherSpec (<= TLS 1.2) or up to ServerHello (TLS 1.3)"""

    def __init__(self):
        self.msgs = []      # (type, body bytes, index of first record)
        self.ccs_at = None


def plain_handshake(records, direction):
    """records: list of net.Rec.  Returns list of (hs_type, body) for the
    handshake messages sent in `direction` before its first CCS record.
    In TLS 1.3 everything after ServerHello is type 23 and thus excluded."""
    buf = b""
    out = []
    for r in records:
        if r.dir != direction or r.ssl2:
            continue
        if r.type == 20:
            break
        if r.type != 22:
            continue
        buf += r.body
        while len(buf) >= 4:
            ln = u24(buf, 1)
            if len(buf) < 4 + ln:
                break
            out.append((buf[0], buf[4:4 + ln]))
            buf = buf[4 + ln:]
    return out


def parse_exts(b):
    """extensions block (without the 2-byte total length) -> list[(t, data)]"""
    out = []
    i = 0
    while i + 4 <= len(b):
        t = u16(b, i)
        ln = u16(b, i + 2)
        out.append((t, b[i + 4:i + 4 + ln]))
        i += 4 + ln
    return out


def ser_exts(exts):
    body = b"".join(p16(t) + p16(len(d)) + bytes(d) for t, d in exts)
    return p16(len(body)) + body


class Hello(object):
    pass


def parse_client_hello(body):
    h = Hello()
    h.version = (body[0], body[1])
    h.random = body[2:34]
    i = 34
    sl = body[i]
    h.session_id = body[i + 1:i + 1 + sl]
    i += 1 + sl
    cl = u16(body, i)
    h.suites = [u16(body, i + 2 + k) for k in range(0, cl, 2)]
    i += 2 + cl
    ml = body[i]
    h.comp = list(body[i + 1:i + 1 + ml])
    i += 1 + ml
    h.exts = None
    if i < len(body):
        el = u16(body, i)
        h.exts = parse_exts(body[i + 2:i + 2 + el])
    return h


def ser_client_hello(h):
    b = bytes(h.version) + bytes(h.random) + bytes([len(h.session_id)]) + \
        bytes(h.session_id)
    b += p16(2 * len(h.suites)) + b"".join(p16(s) for s in h.suites)
    b += bytes([len(h.comp)]) + bytes(h.comp)
    if h.exts is not None:
        b += ser_exts(h.exts)
    return b


def parse_server_hello(body):
    h = Hello()
    h.version = (body[0], body[1])
    h.random = body[2:34]
    i = 34
    sl = body[i]
    h.session_id = body[i + 1:i + 1 + sl]
    i += 1 + sl
    h.suite = u16(body, i)
    h.comp = body[i + 2]
    i += 3
    h.exts = None
    if i < len(body):
        el = u16(body, i)
        h.exts = parse_exts(body[i + 2:i + 2 + el])
    h.is_hrr = bytes(h.random) == HRR_RANDOM
    return h


def ser_server_hello(h):
    b = bytes(h.version) + bytes(h.random) + bytes([len(h.session_id)]) + \
        bytes(h.session_id) + p16(h.suite) + bytes([h.comp])
    if h.exts is not None:
        b += ser_exts(h.exts)
    return b


def ext(h, t):
    if not h.exts:
        return None
    for et, d in h.exts:
        if et == t:
            return d
    return None


def negotiated_version(sh):
    sv = ext(sh, 43)
    if sv is not None and len(sv) == 2:
        return (sv[0], sv[1])
    return sh.version


class SKE(object):
    pass


def parse_ske(body, kx, version):
    """kx in 'dh' | 'ecdh' | 'srp'; returns params + signature scheme"""
    s = SKE()
    s.kind = kx
    i = 0
    if kx == "dh":
        pl = u16(body, i); s.p = int.from_bytes(body[i + 2:i + 2 + pl], "big"); i += 2 + pl
        gl = u16(body, i); s.g = int.from_bytes(body[i + 2:i + 2 + gl], "big"); i += 2 + gl
        yl = u16(body, i); s.Ys = int.from_bytes(body[i + 2:i + 2 + yl], "big"); i += 2 + yl
    elif kx == "ecdh":
        s.curve_type = body[0]
        s.named_curve = u16(body, 1)
        pl = body[3]
        s.point = body[4:4 + pl]
        i = 4 + pl
    elif kx == "srp":
        nl = u16(body, i); s.N = int.from_bytes(body[i + 2:i + 2 + nl], "big"); i += 2 + nl
        gl = u16(body, i); s.g = int.from_bytes(body[i + 2:i + 2 + gl], "big"); i += 2 + gl
        sl = body[i]; s.salt = body[i + 1:i + 1 + sl]; i += 1 + sl
        bl = u16(body, i); s.B = int.from_bytes(body[i + 2:i + 2 + bl], "big"); i += 2 + bl
    s.params = body[:i]
    s.sig_scheme = None
    s.signature = None
    if i < len(body):
        if version >= (3, 3):
            s.sig_scheme = (body[i], body[i + 1])
            i += 2
        sl = u16(body, i)
        s.signature = body[i + 2:i + 2 + sl]
        i += 2 + sl
    s.consumed = i
    return s


def cert_list(body, tls13=False):
    """Certificate message -> list of DER byte strings"""
    i = 0
    if tls13:
        cl = body[0]
        i = 1 + cl
    tot = u24(body, i)
    i += 3
    end = i + tot
    out = []
    while i + 3 <= end:
        ln = u24(body, i)
        out.append(body[i + 3:i + 3 + ln])
        i += 3 + ln
        if tls13:
            el = u16(body, i)
            i += 2 + el
    return out


GROUPS = {23: "secp256r1", 24: "secp384r1", 25: "secp521r1", 22: "secp256k1",
          26: "brainpoolP256r1", 27: "brainpoolP384r1", 28: "brainpoolP512r1",
          29: "x25519", 30: "x448", 31: "brainpoolP256r1tls13",
          32: "brainpoolP384r1tls13", 33: "brainpoolP512r1tls13",
          256: "ffdhe2048", 257: "ffdhe3072", 258: "ffdhe4096",
          259: "ffdhe6144", 260: "ffdhe8192", 19: "secp192r1",
          21: "secp224r1"}

# (hash, sig) / 2-byte scheme -> (family, hash name or scheme name)
SIG_HASH = {1: "md5", 2: "sha1", 3: "sha224", 4: "sha256", 5: "sha384",
            6: "sha512"}
SIG_ALG = {1: "rsa", 2: "dsa", 3: "ecdsa"}
SCHEMES = {
    (8, 4): ("rsa_pss_rsae", "sha256"), (8, 5): ("rsa_pss_rsae", "sha384"),
    (8, 6): ("rsa_pss_rsae", "sha512"), (8, 9): ("rsa_pss_pss", "sha256"),
    (8, 10): ("rsa_pss_pss", "sha384"), (8, 11): ("rsa_pss_pss", "sha512"),
    (8, 7): ("eddsa", "Ed25519"), (8, 8): ("eddsa", "Ed448"),
    (8, 26): ("ecdsa_bp13", "ecdsa_brainpoolP256r1tls13_sha256"),
    (8, 27): ("ecdsa_bp13", "ecdsa_brainpoolP384r1tls13_sha384"),
    (8, 28): ("ecdsa_bp13", "ecdsa_brainpoolP512r1tls13_sha512"),
}


def scheme_info(s):
    """(b0,b1) -> (family, hashname)"""
    s = tuple(s)
    if s in SCHEMES:
        return SCHEMES[s]
    if s[1] in SIG_ALG and s[0] in SIG_HASH:
        fam = {"rsa": "rsa_pkcs1", "dsa": "dsa", "ecdsa": "ecdsa"}[
            SIG_ALG[s[1]]]
        return (fam, SIG_HASH[s[0]])
    return ("unknown", "%d,%d" % s)
