"""C15 - every message and extension codec round-trips and enforces its
framing exactly.

(a) parse(write(x)) == x field-wise and write(parse(write(x))) == write(x)
(b) write() of a value with a field that does not fit raises
(c) perturbed encodings are rejected with a decode-class error or, when
    accepted, re-serialise to exactly the bytes that were consumed."""
from vt import boot  # noqa
import glob
import os
import zlib

from tlslite.utils.codec import Parser, DecodeError, BadCertificateError
from tlslite.errors import TLSIllegalParameterException, TLSDecodeError
from tlslite import messages as M
from tlslite import extensions as E
from tlslite.x509 import X509, Credential, DelegatedCredential
from tlslite.x509certchain import X509CertChain
from tlslite.constants import TLS_1_3_HRR, CertificateType
from tlslite.utils.pem import dePem

LEVEL = "exploration"
RULE = ("one case = (codec item, seed index); a codec item is a message "
        "class in one constructor context (version / cipher suite / SSLv2 "
        "form) or an extension class in one dispatch context (ClientHello, "
        "ServerHello, HRR, EncryptedExtensions, Certificate entry, "
        "CertificateRequest, NewSessionTicket).  The seeded generator draws "
        "a well-formed value (fields empty/one/many, sizes at 2^8-1/2^8, "
        "2^16-1/2^16 where the prefix allows); the case then checks the "
        "round trip, a few field-overflow mutations of the value (write must "
        "raise or the bytes must parse back to the same value), and the "
        "perturbations of the encoding: every proper prefix, 1-3 trailing "
        "bytes, trailing bytes inserted at the end of every candidate "
        "length-delimited span with the span's and the enclosing lengths "
        "bumped, every byte +-1/0x00/0xFF, adjacent swaps (sampled for "
        "encodings over 300 bytes).  distinct_nontrivial counts distinct "
        "(item, size class) values round-tripped, distinct (item, "
        "perturbation kind, outcome) cells and distinct (item, field, "
        "mutation) overflow cells.")
ASSUMPTIONS = [
    "a parser is handed exactly what tlslite's own callers hand it: "
    "handshake messages after the 1-byte type was consumed "
    "(tlsrecordlayer._getMsg), SSLv2 messages likewise, extensions through "
    "TLSExtension(<context flags>).parse, record-level objects from byte 0",
    "decode-class errors are SyntaxError (DecodeError, BadCertificateError), "
    "TLSIllegalParameterException and TLSDecodeError - what _getMsg turns "
    "into alerts; ValueError only for SessionTicketPayload (documented "
    "there)",
    "bytes after the length a parser's own framing declares belong to the "
    "caller: an accepted encoding must re-serialise to exactly the consumed "
    "bytes",
    "fixed-size fields without a length prefix (randoms, Finished "
    "verify_data, SSLv2 challenge) are outside clause (b)",
    "2^24-byte fields are not generated (memory/time); 3-byte prefixes are "
    "exercised at 2^16",
    "certificates are the real X.509 files of /repo/tests; the ASN.1 layer "
    "is only reached through the Certificate messages",
    "no independent wire-format reference: a deviation from the RFC layout "
    "made symmetrically in write() and parse() is invisible here (interop "
    "with OpenSSL is C07's subject)",
    "legitimately non-canonical accepted forms are compared through an "
    "explicit normal form (listed in the evidence notes): SSLv2 ClientHello "
    "challenge left-padding, SSLv2 3-byte record header with zero padding, "
    "NextProtocol padding, leading zero bytes of DH/SRP public values in "
    "ClientKeyExchange, the compressor's choice in CompressedCertificate "
    "(there the harness checks independently that the compressed field is "
    "exactly one zlib stream); extensions absent vs empty block round-trip "
    "exactly (None vs []) and need no normal form",
    "a message-level anomaly that is reproduced by one embedded extension "
    "parsed stand-alone in the same dispatch context is keyed by that "
    "extension class (witness field embedded_in names the message)",
]
NONTRIVIAL = ["rt", "pcell", "ovf"]
DEADLINE = {"quick": 150, "thorough": 1200}

DECODE_ERRORS = (SyntaxError, TLSIllegalParameterException, TLSDecodeError)

CTXFLAGS = {
    "CH": {}, "CR": {}, "NST": {},
    "SH": {"server": True}, "HRR": {"hrr": True},
    "EE": {"encExt": True}, "CERT": {"cert": True},
}


# --------------------------------------------------------------------------
# material
# --------------------------------------------------------------------------
_CERTS = None
_SPKI = None


def certs():
    global _CERTS
    if _CERTS is None:
        out = []
        for fn in sorted(glob.glob(os.path.join(boot.REPO, "tests",
                                                "*Cert.pem"))):
            try:
                with open(fn) as f:
                    x = X509().parse(f.read())
                out.append(x)
            except Exception:   # noqa
                pass
        _CERTS = out
    return _CERTS


def spkis():
    global _SPKI
    if _SPKI is None:
        out = []
        for fn in sorted(glob.glob(os.path.join(boot.REPO, "tests",
                                                "serverDelCred*Pub.pem"))):
            with open(fn) as f:
                out.append(bytearray(dePem(f.read(), "PUBLIC KEY")))
        _SPKI = out
    return _SPKI


class Gen(object):
    """seeded value generator; remembers whether a 'big' size was used"""

    def __init__(self, rng, small=False):
        self.rng = rng
        self.small = small
        self.big = None
        self.sizes = set()

    def n(self, lo, mx):
        """a length in lo..mx biased to the boundaries"""
        rng = self.rng
        r = rng.random()
        if mx <= lo:
            return lo
        if r < .14:
            v = lo
        elif r < .24:
            v = lo + 1
        elif r < .78:
            v = rng.randint(lo, min(mx, 40))
        elif r < .85:
            v = 255
        elif r < .91:
            v = 256
        elif r < .96 and not self.small and self.big is None and mx >= 1000:
            v = rng.choice([65535, 65536, mx, mx - 1])
            if v > mx:
                v = mx
            if v > 70000:
                v = rng.choice([65535, 65536])
            self.big = v
        else:
            v = rng.randint(lo, min(mx, 300))
        v = max(lo, min(mx, v))
        for b, nm in ((0, "0"), (1, "1"), (255, "255"), (256, "256"),
                      (65535, "65535"), (65536, "65536")):
            if v == b:
                self.sizes.add(nm)
        if v == mx:
            self.sizes.add("max")
        return v

    def blob(self, w, lo=0, hi=None):
        mx = (1 << (8 * w)) - 1
        if hi is not None:
            mx = min(mx, hi)
        return bytearray(self.rng.randbytes(self.n(lo, mx)))

    def fixed(self, n):
        return bytearray(self.rng.randbytes(n))

    def count(self, mx, lo=0):
        rng = self.rng
        r = rng.random()
        if r < .15:
            c = lo
        elif r < .3:
            c = lo + 1
        elif r < .85:
            c = rng.randint(lo, min(mx, 8))
        elif r < .96 or self.small:
            c = rng.randint(lo, min(mx, 130))
        elif self.big is None:
            c = mx
            self.big = mx
        else:
            c = rng.randint(lo, min(mx, 130))
        c = max(lo, min(mx, c))
        self.sizes.add("n0" if c == 0 else "n1" if c == 1 else
                       "nmax" if c == mx else "nmany")
        return c

    def u(self, w):
        rng = self.rng
        mx = (1 << (8 * w)) - 1
        return rng.choice([0, 1, mx, mx - 1, rng.randint(0, mx),
                           rng.randint(0, mx)])

    def version(self):
        return self.rng.choice([(3, 0), (3, 1), (3, 2), (3, 3), (3, 4),
                                (self.u(1), self.u(1))])


# --------------------------------------------------------------------------
# extension generators: name -> (type id, class, contexts, generator)
# --------------------------------------------------------------------------
def _ints(g, w, lw, lo=0):
    mx = ((1 << (8 * lw)) - 1) // w
    return [g.u(w) for _ in range(g.count(mx, lo))]


def x_sni(g):
    r = g.rng.random()
    if r < .1:
        return E.SNIExtension().create()
    names = []
    left = 65535 - 2
    for _ in range(g.count(20)):
        nm = g.blob(2, hi=max(0, left - 3))
        left -= 3 + len(nm)
        names.append(E.SNIExtension.ServerName(
            g.rng.choice([0, 0, 0, 1, 255]), nm))
    return E.SNIExtension().create(serverNames=names)


def x_varlist(cls, w, lw, tup=0):
    def gen(g):
        if g.rng.random() < .08:
            return cls().create(None)
        if tup:
            mx = ((1 << (8 * lw)) - 1) // (w * tup)
            mx = min(mx, (65535 - lw) // (w * tup))
            vals = [tuple(g.u(w) for _ in range(tup))
                    for _ in range(g.count(mx))]
        else:
            mx = ((1 << (8 * lw)) - 1) // w
            mx = min(mx, (65535 - lw) // w)
            vals = [g.u(w) for _ in range(g.count(mx))]
        return cls().create(vals)
    return gen


def x_int(cls, w, none_ok=True):
    def gen(g):
        if none_ok and g.rng.random() < .1:
            return cls().create(None)
        return cls().create(g.u(w))
    return gen


def x_varbytes(cls, lw):
    def gen(g):
        if g.rng.random() < .1:
            return cls().create(None)
        return cls().create(g.blob(lw, hi=65535 - lw))
    return gen


def x_srvver(g):
    return E.SrvSupportedVersionsExtension().create(g.version())


def x_srp(g):
    return E.SRPExtension().create(g.blob(1))


def x_npn(g):
    protos = []
    left = 65535
    for _ in range(g.count(300)):
        p = g.blob(1, hi=min(255, max(0, left - 1)))
        left -= 1 + len(p)
        if left < 0:
            break
        protos.append(p)
    return E.NPNExtension().create(protos)


def x_tack(g):
    tacks = []
    for _ in range(g.count(g.rng.choice([3, 3, 300]))):
        tacks.append(E.TACKExtension.TACK().create(
            g.fixed(64), g.u(1), g.u(1), g.u(4), g.fixed(32), g.fixed(64)))
    return E.TACKExtension().create(tacks, g.u(1))


def mk_dc(g):
    spki = bytearray(g.rng.choice(spkis()))
    vt, alg = g.u(4), (g.u(1), g.u(1))
    cred = Credential(valid_time=vt, dc_cert_verify_algorithm=alg,
                      subject_public_key_info=spki,
                      bytes=Credential.marshal(vt, alg, spki))
    return DelegatedCredential(cred=cred, algorithm=(g.u(1), g.u(1)),
                               signature=g.blob(2, hi=600))


def x_dc_cert(g):
    return E.DelegatedCredentialCertExtension().create(mk_dc(g))


def x_padding(g):
    return E.PaddingExtension().create(g.n(0, 65535))


def x_alpn(g):
    names = []
    left = 65533
    for _ in range(g.count(300)):
        p = g.blob(1, hi=min(255, max(0, left - 1)))
        left -= 1 + len(p)
        if left < 0:
            break
        names.append(p)
    return E.ALPNExtension().create(names)


def x_status_request(g):
    if g.rng.random() < .15:
        return E.StatusRequestExtension().create(None)
    ids = []
    left = 65535 - 5
    for _ in range(g.count(20)):
        i = g.blob(2, hi=max(0, left - 2 - 300))
        left -= 2 + len(i)
        ids.append(i)
    return E.StatusRequestExtension().create(
        g.u(1), ids, g.blob(2, hi=max(0, min(300, left))))


def x_cert_status(g):
    return E.CertificateStatusExtension().create(1, g.blob(3, hi=65531))


def mk_share(g, hi=65531):
    return E.KeyShareEntry().create(g.u(2), g.blob(2, hi=hi))


def x_ks_client(g):
    shares = []
    left = 65533
    for _ in range(g.count(40)):
        s = mk_share(g, hi=max(0, left - 4))
        left -= 4 + len(s.key_exchange)
        shares.append(s)
    return E.ClientKeyShareExtension().create(shares)


def x_ks_server(g):
    if g.rng.random() < .08:
        return E.ServerKeyShareExtension().create(None)
    return E.ServerKeyShareExtension().create(mk_share(g))


def x_ks_hrr(g):
    return E.HRRKeyShareExtension().create(g.u(2))


def x_psk(g):
    if g.rng.random() < .08:
        return E.PreSharedKeyExtension().create(None, None)
    ids, binders = [], []
    left = 65000
    for _ in range(g.count(20)):
        i = E.PskIdentity().create(g.blob(2, hi=max(0, left - 6 - 40)),
                                   g.u(4))
        left -= 6 + len(i.identity)
        ids.append(i)
    for _ in range(g.count(20)):
        b = g.blob(1, hi=min(255, max(0, left - 1)))
        left -= 1 + len(b)
        binders.append(b)
    return E.PreSharedKeyExtension().create(ids, binders)


def x_session_ticket(g):
    return E.SessionTicketExtension().create(g.blob(2))


EXT_UNIVERSAL_CTX = ["CH", "CR", "NST", "EE", "SH", "HRR", "CERT"]


def _not(*ctxs):
    return [c for c in EXT_UNIVERSAL_CTX if c not in ctxs]


# name, class, contexts in which the dispatch must select this class, gen
EXTS = [
    ("sni", E.SNIExtension, EXT_UNIVERSAL_CTX, x_sni),
    ("status_request", E.StatusRequestExtension, _not("CERT"),
     x_status_request),
    ("cert_status", E.CertificateStatusExtension, ["CERT"], x_cert_status),
    ("client_cert_type", E.ClientCertTypeExtension, _not("SH"),
     x_varlist(E.ClientCertTypeExtension, 1, 1)),
    ("server_cert_type", E.ServerCertTypeExtension, ["SH"],
     x_int(E.ServerCertTypeExtension, 1, none_ok=False)),
    ("supported_groups", E.SupportedGroupsExtension, EXT_UNIVERSAL_CTX,
     x_varlist(E.SupportedGroupsExtension, 2, 2)),
    ("ec_point_formats", E.ECPointFormatsExtension, EXT_UNIVERSAL_CTX,
     x_varlist(E.ECPointFormatsExtension, 1, 1)),
    ("srp", E.SRPExtension, EXT_UNIVERSAL_CTX, x_srp),
    ("signature_algorithms", E.SignatureAlgorithmsExtension,
     EXT_UNIVERSAL_CTX, x_varlist(E.SignatureAlgorithmsExtension, 1, 2, 2)),
    ("signature_algorithms_cert", E.SignatureAlgorithmsCertExtension,
     EXT_UNIVERSAL_CTX,
     x_varlist(E.SignatureAlgorithmsCertExtension, 1, 2, 2)),
    ("delegated_credential_ch", E.DelegatedCredentialExtension,
     _not("CERT"), x_varlist(E.DelegatedCredentialExtension, 1, 2, 2)),
    ("delegated_credential_cert", E.DelegatedCredentialCertExtension,
     ["CERT"], x_dc_cert),
    ("alpn", E.ALPNExtension, EXT_UNIVERSAL_CTX, x_alpn),
    ("npn", E.NPNExtension, EXT_UNIVERSAL_CTX, x_npn),
    ("tack", E.TACKExtension, ["SH"], x_tack),
    ("padding", E.PaddingExtension, EXT_UNIVERSAL_CTX, x_padding),
    ("renegotiation_info", E.RenegotiationInfoExtension, EXT_UNIVERSAL_CTX,
     x_varbytes(E.RenegotiationInfoExtension, 1)),
    ("heartbeat", E.HeartbeatExtension, EXT_UNIVERSAL_CTX,
     x_int(E.HeartbeatExtension, 1, none_ok=False)),
    ("supported_versions", E.SupportedVersionsExtension,
     _not("SH", "HRR"), x_varlist(E.SupportedVersionsExtension, 1, 1, 2)),
    ("supported_versions_srv", E.SrvSupportedVersionsExtension,
     ["SH", "HRR"], x_srvver),
    ("key_share_client", E.ClientKeyShareExtension, _not("SH", "HRR"),
     x_ks_client),
    ("key_share_server", E.ServerKeyShareExtension, ["SH"], x_ks_server),
    ("key_share_hrr", E.HRRKeyShareExtension, ["HRR"], x_ks_hrr),
    ("pre_shared_key", E.PreSharedKeyExtension, _not("SH"), x_psk),
    ("pre_shared_key_srv", E.SrvPreSharedKeyExtension, ["SH"],
     x_int(E.SrvPreSharedKeyExtension, 2)),
    ("psk_key_exchange_modes", E.PskKeyExchangeModesExtension,
     EXT_UNIVERSAL_CTX, x_varlist(E.PskKeyExchangeModesExtension, 1, 1)),
    ("cookie", E.CookieExtension, EXT_UNIVERSAL_CTX,
     x_varbytes(E.CookieExtension, 2)),
    ("record_size_limit", E.RecordSizeLimitExtension, EXT_UNIVERSAL_CTX,
     x_int(E.RecordSizeLimitExtension, 2)),
    ("session_ticket", E.SessionTicketExtension, EXT_UNIVERSAL_CTX,
     x_session_ticket),
    ("compress_certificate", E.CompressedCertificateExtension,
     EXT_UNIVERSAL_CTX, x_varlist(E.CompressedCertificateExtension, 2, 1)),
]
KNOWN_EXT_TYPES = None


def known_ext_types():
    global KNOWN_EXT_TYPES
    if KNOWN_EXT_TYPES is None:
        s = set()
        for d in (E.TLSExtension._universalExtensions,
                  E.TLSExtension._serverExtensions,
                  E.TLSExtension._certificateExtensions,
                  E.TLSExtension._hrrExtensions):
            s.update(d)
        KNOWN_EXT_TYPES = s
    return KNOWN_EXT_TYPES


def x_unknown(ctxname):
    def gen(g):
        while True:
            t = g.rng.choice([g.u(2), 65281 + 1, 23, 22, 49, 50, 0x0a0a,
                              g.rng.randint(60, 65000)])
            if t not in known_ext_types():
                break
        return E.TLSExtension(extType=t, **CTXFLAGS[ctxname]).create(
            g.blob(2))
    return gen


def ext_list(g, ctxname, maxn=6):
    """a list of extensions valid in the context (distinct generators),
    bounded so that the block fits 2^16-1"""
    gs = Gen(g.rng, small=True)
    pool = [e for e in EXTS if ctxname in e[2]]
    k = g.rng.choice([0, 1, 1, 2, 3, maxn])
    out = []
    for e in g.rng.sample(pool, min(k, len(pool))):
        out.append(e[3](gs))
    if g.rng.random() < .3:
        out.insert(g.rng.randint(0, len(out)), x_unknown(ctxname)(gs))
    g.sizes.add("ext%d" % min(len(out), 3))
    return out


# --------------------------------------------------------------------------
# items
# --------------------------------------------------------------------------
class Item(object):
    """kind: 'hs' (type byte + len3), 'ssl2' (type byte, no length),
    'raw' (no header), 'ext' (TLSExtension dispatch)"""

    def __init__(self, name, kind, gen, new, nf=None, fields=None,
                 valueerror_ok=False, whole=False, fixed_fields=(),
                 keyname=None, no_overflow=False, extctx=None):
        self.name = name
        self.keyname = keyname or name.split("/")[0]
        self.no_overflow = no_overflow
        self.cls = None
        self.extctx = extctx        # dispatch context of embedded extensions
        self.kind = kind
        self.gen = gen
        self.new = new
        self.nf = nf                # normal form (legit non-canonical forms)
        self.fields = fields        # custom field dump
        self.valueerror_ok = valueerror_ok
        self.whole = whole          # parser takes the whole buffer
        self.fixed_fields = set(fixed_fields)

    def parse(self, b):
        b = bytearray(b)
        if self.kind in ("hs", "ssl2"):
            p = Parser(b[1:])
            o = self.new().parse(p)
            return o, 1 + p.index
        p = Parser(b)
        o = self.new().parse(p)
        if self.whole:
            return o, len(b)
        return o, p.index


ITEMS = []


def item(*a, **kw):
    ITEMS.append(Item(*a, **kw))


def chain(g, lo=0):
    cs = certs()
    return X509CertChain([g.rng.choice(cs) for _ in range(
        g.rng.choice([lo, 1, 1, 2, 3]) or lo)])


# -- record-level ----------------------------------------------------------
item("RecordHeader3", "raw",
     lambda g: M.RecordHeader3().create(g.version(), g.u(1), g.u(2)),
     M.RecordHeader3)


def g_rh2(g):
    pad = g.rng.choice([0, 0, 1, 7, 255])
    esc = g.rng.random() < .2
    mx = 0x3fff if (pad or esc) else 0x7fff
    return M.RecordHeader2().create(g.rng.choice([0, 1, mx, mx - 1,
                                                  g.rng.randint(0, mx)]),
                                    pad, esc)


item("RecordHeader2", "raw", g_rh2, M.RecordHeader2,
     nf=lambda o: (o.length, o.padding, bool(o.securityEscape)))
item("Alert", "raw", lambda g: M.Alert().create(g.u(1), g.u(1)), M.Alert)
item("ChangeCipherSpec", "raw", lambda g: M.ChangeCipherSpec().create(),
     M.ChangeCipherSpec)
item("ApplicationData", "raw",
     lambda g: M.ApplicationData().create(g.blob(3, hi=70000)),
     M.ApplicationData, whole=True)


def g_heartbeat(g):
    h = M.Heartbeat().create(g.u(1), g.blob(2), 0)
    h.padding = g.blob(2, hi=300)
    return h


item("Heartbeat", "raw", g_heartbeat, M.Heartbeat)


# -- hello messages --------------------------------------------------------
def g_client_hello(g):
    ch = M.ClientHello()
    ch.client_version = g.version()
    ch.random = g.fixed(32)
    ch.session_id = g.blob(1, hi=32)
    ch.cipher_suites = _ints(g, 2, 2)
    ch.compression_methods = _ints(g, 1, 1)
    ch.extensions = None if g.rng.random() < .25 else ext_list(g, "CH")
    return ch


item("ClientHello", "hs", g_client_hello, M.ClientHello, extctx="CH")


def g_client_hello_ssl2(g):
    ch = M.ClientHello(ssl2=True)
    ch.client_version = g.version()
    ch.cipher_suites = [g.u(3) for _ in range(g.count(300))]
    ch.session_id = g.fixed(g.rng.choice([0, 0, 16, 32]))
    ch.random = g.fixed(g.rng.choice([16, 24, 32, 32]))
    ch.compression_methods = [0]
    return ch


def nf_ch2(o):
    r = bytes(o.random)
    r = b"\0" * (32 - len(r)) + r
    return (tuple(o.client_version), list(o.cipher_suites),
            bytes(o.session_id), r)


item("ClientHello/ssl2", "ssl2", g_client_hello_ssl2,
     lambda: M.ClientHello(ssl2=True), nf=nf_ch2, keyname="ClientHello/ssl2")


def g_server_hello(hrr):
    def gen(g):
        sh = M.ServerHello()
        sh.server_version = g.version()
        sh.random = bytearray(TLS_1_3_HRR) if hrr else g.fixed(32)
        sh.session_id = g.blob(1)
        sh.cipher_suite = g.u(2)
        sh.compression_method = g.u(1)
        ctxn = "HRR" if hrr else "SH"
        sh.extensions = None if g.rng.random() < .25 else ext_list(g, ctxn)
        return sh
    return gen


item("ServerHello", "hs", g_server_hello(False), M.ServerHello,
     extctx="SH")
item("ServerHello/hrr", "hs", g_server_hello(True), M.ServerHello,
     keyname="ServerHello/hrr", extctx="HRR")


def g_server_hello2(g):
    return M.ServerHello2().create(
        g.u(1), g.u(1), g.version(), g.blob(2, hi=20000),
        [g.u(3) for _ in range(g.count(300))], g.blob(2, hi=40))


item("ServerHello2", "ssl2", g_server_hello2, M.ServerHello2)
item("HelloRequest", "hs", lambda g: M.HelloRequest().create(),
     M.HelloRequest)
item("ServerHelloDone", "hs", lambda g: M.ServerHelloDone().create(),
     M.ServerHelloDone)


# -- certificates ----------------------------------------------------------
def f_cert12(o):
    c = o.cert_chain
    return {"chain": [bytes(x.bytes) for x in c.x509List] if c else []}


def f_cert13(o):
    return {"context": bytes(o.certificate_request_context),
            "entries": [(bytes(e.certificate.bytes),
                         [dump(x) for x in (e.extensions or [])])
                        for e in o.certificate_list]}


def g_cert12(ver):
    def gen(g):
        c = chain(g)
        return M.Certificate(CertificateType.x509, ver).create(
            c if c.x509List else None)
    return gen


for _v in ((3, 0), (3, 3)):
    item("Certificate/%d.%d" % _v, "hs", g_cert12(_v),
         (lambda v: lambda: M.Certificate(CertificateType.x509, v))(_v),
         fields=f_cert12, keyname="Certificate/le1.2")


def cert_exts(g, n):
    return [ext_list(g, "CERT", maxn=3) for _ in range(n)]


def g_cert13(g):
    c = chain(g)
    m = M.Certificate(CertificateType.x509, (3, 4))
    if not c.x509List:
        m.create(None, g.blob(1))
    else:
        m.create(c, g.blob(1), cert_exts(g, len(c.x509List)))
    return m


item("Certificate/3.4", "hs", g_cert13,
     lambda: M.Certificate(CertificateType.x509, (3, 4)), fields=f_cert13,
     keyname="Certificate/1.3", extctx="CERT")


def g_comp_cert(g):
    c = chain(g, lo=1)
    return M.CompressedCertificate(CertificateType.x509, (3, 4)).create(
        1, c, g.blob(1, hi=40), cert_exts(g, len(c.x509List)))


def f_comp(o):
    d = f_cert13(o)
    d["algo"] = o.compression_algo
    return d


def nf_comp(o):
    return (o.compression_algo, o._uncompressed_msg_len,
            zlib.decompress(bytes(o._compressed_msg)))


item("CompressedCertificate", "hs", g_comp_cert,
     lambda: M.CompressedCertificate(CertificateType.x509, (3, 4)),
     fields=f_comp, nf=nf_comp, no_overflow=True)   # extensions compressed


def g_cert_req12(ver):
    def gen(g):
        cas = []
        left = 65535
        for _ in range(g.count(30)):
            ca = g.blob(2, hi=max(0, left - 2 - 600))
            left -= 2 + len(ca)
            cas.append(ca)
        sig = None
        if ver == (3, 3) or g.count(2):
            # (the server passes its signature algorithms whatever the
            # version: below TLS 1.2 the field is not part of the message)
            sig = [(g.u(1), g.u(1)) for _ in range(g.count(200))]
        return M.CertificateRequest(ver).create(_ints(g, 1, 1), cas, sig)
    return gen


def f_cr12(o):
    return {"types": list(o.certificate_types),
            "cas": [bytes(c) for c in o.certificate_authorities],
            "sigalgs": [tuple(x) for x in (o.supported_signature_algs or [])]
            if o.version == (3, 3) else None}


for _v in ((3, 1), (3, 3)):
    item("CertificateRequest/%d.%d" % _v, "hs", g_cert_req12(_v),
         (lambda v: lambda: M.CertificateRequest(v))(_v), fields=f_cr12,
         keyname="CertificateRequest/" + ("1.2" if _v == (3, 3) else "le1.1"))


def g_cert_req13(g):
    return M.CertificateRequest((3, 4)).create(
        context=g.blob(1), extensions=ext_list(g, "CR"))


def f_cr13(o):
    return {"context": bytes(o.certificate_request_context),
            "extensions": [dump(x) for x in (o.extensions or [])]}


item("CertificateRequest/3.4", "hs", g_cert_req13,
     lambda: M.CertificateRequest((3, 4)), fields=f_cr13,
     keyname="CertificateRequest/1.3", extctx="CR")


# -- key exchange ----------------------------------------------------------
def bigint(g, lo=1):
    n = g.n(lo, 600)
    v = int.from_bytes(g.rng.randbytes(n), "big")
    if n and g.rng.random() < .7:
        v |= 1 << (8 * n - 1)
    return max(v, 1)


SKE_FIELDS = {
    "srp": ("srp_N", "srp_g", "srp_s", "srp_B"),
    "dh": ("dh_p", "dh_g", "dh_Ys"),
    "ecdh": ("curve_type", "named_curve", "ecdh_Ys"),
}


def g_ske(kx, suite, ver, signed):
    def gen(g):
        m = M.ServerKeyExchange(suite, ver)
        if kx == "srp":
            m.createSRP(bigint(g), bigint(g), g.blob(1), bigint(g))
        elif kx == "dh":
            m.createDH(bigint(g), bigint(g), bigint(g))
        else:
            m.createECDH(3, g.u(2), g.blob(1))
        if signed:
            m.signature = g.blob(2)
            if ver == (3, 3):
                m.hashAlg = g.rng.randint(1, 255)
                m.signAlg = g.rng.randint(1, 255)
        return m
    return gen


def f_ske(kx, signed):
    def f(o):
        d = {k: dump(getattr(o, k)) for k in SKE_FIELDS[kx]}
        if signed:
            d["signature"] = bytes(o.signature)
            if o.version == (3, 3):
                d["alg"] = (o.hashAlg, o.signAlg)
        return d
    return f


for _kx, _suite, _signed in (("srp", 0xC01D, False), ("srp", 0xC01E, True),
                             ("dh", 0x0034, False), ("dh", 0x0033, True),
                             ("dh", 0x0032, True),
                             ("ecdh", 0xC018, False), ("ecdh", 0xC013, True),
                             ("ecdh", 0xC009, True)):
    for _v in ((3, 1), (3, 3)):
        item("ServerKeyExchange/%s-%04x/%d.%d" % (_kx, _suite, _v[0], _v[1]),
             "hs", g_ske(_kx, _suite, _v, _signed),
             (lambda s, v: lambda: M.ServerKeyExchange(s, v))(_suite, _v),
             fields=f_ske(_kx, _signed),
             keyname="ServerKeyExchange/" + _kx)


def g_cke(kx, suite, ver):
    def gen(g):
        m = M.ClientKeyExchange(suite, ver)
        if kx == "rsa":
            m.createRSA(g.blob(2))
        elif kx == "srp":
            m.createSRP(bigint(g))
        elif kx == "dh":
            m.createDH(bigint(g))
        else:
            m.createECDH(g.blob(1))
        return m
    return gen


def f_cke_for(kx):
    def f_cke(o):
        if kx == "srp":
            return {"srp_A": o.srp_A}
        if kx == "dh":
            return {"dh_Yc": o.dh_Yc}
        if kx == "ecdh":
            return {"ecdh_Yc": bytes(o.ecdh_Yc)}
        return {"epms": bytes(o.encryptedPreMasterSecret)}
    return f_cke


for _kx, _suite, _v in (("rsa", 0x002F, (3, 0)), ("rsa", 0x002F, (3, 1)),
                        ("rsa", 0x002F, (3, 3)), ("srp", 0xC01D, (3, 1)),
                        ("dh", 0x0033, (3, 3)), ("ecdh", 0xC013, (3, 3))):
    item("ClientKeyExchange/%s/%d.%d" % (_kx, _v[0], _v[1]), "hs",
         g_cke(_kx, _suite, _v),
         (lambda s, v: lambda: M.ClientKeyExchange(s, v))(_suite, _v),
         fields=f_cke_for(_kx),
         nf=f_cke_for(_kx) if _kx in ("srp", "dh") else None,
         keyname="ClientKeyExchange/" + _kx +
         ("-ssl3" if (_kx, _v) == ("rsa", (3, 0)) else ""))


def g_cert_verify(ver):
    def gen(g):
        return M.CertificateVerify(ver).create(
            g.blob(2), (g.u(1), g.u(1)) if ver >= (3, 3) else None)
    return gen


for _v in ((3, 0), (3, 1), (3, 3), (3, 4)):
    item("CertificateVerify/%d.%d" % _v, "hs", g_cert_verify(_v),
         (lambda v: lambda: M.CertificateVerify(v))(_v))

item("NextProtocol", "hs", lambda g: M.NextProtocol().create(g.blob(1)),
     M.NextProtocol, nf=lambda o: bytes(o.next_proto))

for _v, _hl in (((3, 0), None), ((3, 1), None), ((3, 3), None),
                ((3, 4), 32), ((3, 4), 48)):
    _n = _hl or (36 if _v == (3, 0) else 12)
    item("Finished/%d.%d/%d" % (_v[0], _v[1], _n), "hs",
         (lambda v, hl, n: lambda g: M.Finished(v, hl).create(g.fixed(n)))(
             _v, _hl, _n),
         (lambda v, hl: lambda: M.Finished(v, hl))(_v, _hl),
         fixed_fields=("verify_data",))

item("EncryptedExtensions", "hs",
     lambda g: M.EncryptedExtensions().create(ext_list(g, "EE")),
     M.EncryptedExtensions, extctx="EE")
item("NewSessionTicket", "hs",
     lambda g: M.NewSessionTicket().create(g.u(4), g.u(4), g.blob(1),
                                           g.blob(2, hi=65000),
                                           ext_list(g, "NST")),
     M.NewSessionTicket, extctx="NST")
item("NewSessionTicket1_0", "hs",
     lambda g: M.NewSessionTicket1_0().create(g.u(4), g.blob(2)),
     M.NewSessionTicket1_0)


def g_stp(g):
    kw = {}
    if g.rng.random() < .6:
        kw["client_cert_chain"] = chain(g, lo=1)
    if g.rng.random() < .5:
        kw["encrypt_then_mac"] = g.rng.random() < .5
        kw["extended_master_secret"] = g.rng.random() < .5
        kw["server_name"] = g.blob(2, hi=300)
        if not (kw["encrypt_then_mac"] or kw["extended_master_secret"] or
                kw["server_name"]):
            kw["encrypt_then_mac"] = True
    return M.SessionTicketPayload().create(
        g.blob(2, hi=100), g.version(), g.u(2), g.u(8), g.blob(1), **kw)


def f_stp(o):
    d = {"version": o.version, "ms": bytes(o.master_secret),
         "pv": tuple(o.protocol_version), "cs": o.cipher_suite,
         "time": o.creation_time, "nonce": bytes(o.nonce)}
    if o.version >= 1:
        d["chain"] = [(bytes(e.certificate.bytes),
                       [dump(x) for x in (e.extensions or [])])
                      for e in (o._cert_chain or [])]
    if o.version >= 2:
        d["etm"] = bool(o.encrypt_then_mac)
        d["ems"] = bool(o.extended_master_secret)
        d["sni"] = bytes(o.server_name)
    return d


item("SessionTicketPayload", "raw", g_stp, M.SessionTicketPayload,
     fields=f_stp, valueerror_ok=True, extctx="CERT")
item("CertificateStatus", "hs",
     lambda g: M.CertificateStatus().create(g.u(1), g.blob(3, hi=70000)),
     M.CertificateStatus)
item("KeyUpdate", "hs", lambda g: M.KeyUpdate().create(g.u(1)), M.KeyUpdate)
item("ClientMasterKey", "ssl2",
     lambda g: M.ClientMasterKey().create(g.u(3), g.blob(2, hi=300),
                                          g.blob(2, hi=20000),
                                          g.blob(2, hi=300)),
     M.ClientMasterKey)
item("ClientFinished", "ssl2",
     lambda g: M.ClientFinished().create(g.blob(2, hi=300)),
     M.ClientFinished)
item("ServerFinished", "ssl2",
     lambda g: M.ServerFinished().create(g.blob(2, hi=300)),
     M.ServerFinished)

# -- extensions in every dispatch context ----------------------------------
for _name, _cls, _ctxs, _gen in EXTS:
    for _c in _ctxs:
        item("ext:%s@%s" % (_name, _c), "ext", _gen,
             (lambda c: lambda: E.TLSExtension(**CTXFLAGS[c]))(_c))
        ITEMS[-1].cls = _cls
for _c in EXT_UNIVERSAL_CTX:
    item("ext:unknown@%s" % _c, "ext", x_unknown(_c),
         (lambda c: lambda: E.TLSExtension(**CTXFLAGS[c]))(_c))
    ITEMS[-1].cls = E.TLSExtension

ITEM_BY_NAME = {i.name: i for i in ITEMS}


# --------------------------------------------------------------------------
# field-wise dump
# --------------------------------------------------------------------------
DUMP_SKIP = {"private", "time", "pub_key", "subject_public_key",
             "pub_key_alg"}
DUMP_KEEP_PRIVATE = {"_internal_value", "_extData"}


def dump(o, depth=0):
    if depth > 12:
        return "<deep>"
    if isinstance(o, (bytes, bytearray)):
        return bytes(o)
    if o is None or isinstance(o, (bool, int, float, str)):
        return o
    if isinstance(o, (list, tuple)):
        return [dump(x, depth + 1) for x in o]
    if isinstance(o, X509):
        return ("X509", bytes(o.bytes))
    if isinstance(o, X509CertChain):
        return [dump(x, depth + 1) for x in o.x509List]
    if hasattr(o, "__dict__"):
        d = {"__class__": type(o).__name__}
        for k, v in vars(o).items():
            if k in DUMP_SKIP:
                continue
            if k == "bytes" and isinstance(o, Credential):
                continue     # derived (marshal of the other fields)
            if k.startswith("_") and k not in DUMP_KEEP_PRIVATE:
                continue
            if k == "_extData" and type(o) is not E.TLSExtension:
                continue     # subclasses serialise their own fields
            if callable(v) and not hasattr(v, "__dict__"):
                continue
            d[k] = dump(v, depth + 1)
        return d
    return repr(o)


def fields_of(it, o):
    if it.fields is not None:
        return it.fields(o)
    return dump(o)


def first_diff(a, b, path=""):
    if isinstance(a, tuple):
        a = list(a)
    if isinstance(b, tuple):
        b = list(b)
    if type(a) is not type(b) and not (
            isinstance(a, (int, bool)) and isinstance(b, (int, bool))):
        return path or "."
    if isinstance(a, dict):
        for k in sorted(set(a) | set(b)):
            if k not in a or k not in b:
                return "%s.%s" % (path, k)
            d = first_diff(a[k], b[k], "%s.%s" % (path, k))
            if d:
                return d
        return None
    if isinstance(a, list):
        if len(a) != len(b):
            return path + "[len]"
        for i, (x, y) in enumerate(zip(a, b)):
            d = first_diff(x, y, path + "[]")
            if d:
                return d
        return None
    return None if a == b else (path or ".")


def clsname(it):
    return it.name.split("/")[0].split("@")[0]


def keycls(it, obj=None):
    """mechanism name used in violation keys: the message form, or for
    extensions the class that actually parsed the bytes"""
    if it.kind == "ext":
        if obj is not None:
            return type(obj).__name__
        return it.cls.__name__
    return it.keyname


PKIND = {"byte_plus1": "byte", "byte_minus1": "byte", "byte_00": "byte",
         "byte_ff": "byte", "trailing_inside_outer": "trailing_inside"}
_SEEN = {}


def viol(ctx, key, wit, msg):
    """at most 3 witnesses per distinct key and shard (the shard result
    keeps the first 200 violations only)"""
    k = repr(sorted(key.items()))
    n = _SEEN.get(k, 0)
    _SEEN[k] = n + 1
    if n < 3:
        ctx.violation(key, wit, msg)
    else:
        ctx.count("violations_suppressed_duplicates")


def ctxname(it):
    if "@" in it.name:
        return it.name.split("@")[1]
    if "/" in it.name:
        return it.name.split("/", 1)[1]
    return "-"


def where(e):
    """innermost tlslite frame of the traceback: 'file.py:function'"""
    tb = e.__traceback__
    out = "?"
    while tb is not None:
        fn = tb.tb_frame.f_code.co_filename
        if "/tlslite/" in fn:
            out = "%s:%s" % (os.path.basename(fn), tb.tb_frame.f_code.co_name)
        tb = tb.tb_next
    return out


def exc_class(it, e):
    """'decode' for the errors a caller is prepared for, else the name"""
    if isinstance(e, DECODE_ERRORS):
        return "decode"
    if it.valueerror_ok and isinstance(e, ValueError) and \
            not isinstance(e, UnicodeError):
        return "decode"
    return type(e).__name__


# --------------------------------------------------------------------------
# oracle pieces
# --------------------------------------------------------------------------
def walk_block(blk):
    """independent TLV walk of an extension block -> entries or None"""
    out = []
    i = 0
    while i < len(blk):
        if i + 4 > len(blk):
            return None
        ln = int.from_bytes(blk[i + 2:i + 4], "big")
        if i + 4 + ln > len(blk):
            return None
        out.append(bytes(blk[i:i + 4 + ln]))
        i += 4 + ln
    return out


def blame(it, bp):
    """a message-level anomaly may be caused by one embedded extension:
    find every 2-byte-length-prefixed span of bp that walks as an extension
    block and test each entry stand-alone in the message's dispatch context;
    returns (what, extension class name, exc name) for the first entry that
    is itself anomalous at extension level"""
    bp = bytes(bp)
    flags = CTXFLAGS[it.extctx]
    if it.extctx == "SH" and TLS_1_3_HRR in bp[:40]:
        flags = CTXFLAGS["HRR"]
    seen = set()
    for s in range(len(bp) - 1):
        ln = int.from_bytes(bp[s:s + 2], "big")
        if ln < 4 or s + 2 + ln > len(bp):
            continue
        ents = walk_block(bp[s + 2:s + 2 + ln])
        if not ents:
            continue
        for e in ents:
            if e in seen:
                continue
            seen.add(e)
            try:
                p = Parser(bytearray(e))
                o = E.TLSExtension(**flags).parse(p)
            except DECODE_ERRORS:
                continue
            except Exception as ex:   # noqa
                return ("raises", "ext?", type(ex).__name__)
            try:
                w = bytes(o.write())
            except Exception as ex:   # noqa
                return ("write_raises", type(o).__name__,
                        type(ex).__name__)
            if w != e:
                return ("noncanonical", type(o).__name__, None)
    return None


def judge_accept(ctx, it, bp, kind, obj, consumed):
    """bp was accepted: must re-serialise to exactly what was consumed"""
    key = {"cls": keycls(it, obj), "perturb": PKIND.get(kind, kind)}
    via = None
    try:
        w = bytes(obj.write())
    except Exception as e:   # noqa
        blamed = blame(it, bp[:consumed]) if it.extctx else None
        if blamed and blamed[0] == "write_raises":
            key["cls"], via = blamed[1], it.keyname
        k = dict(key, clause="accept_then_write_raises",
                 exc=type(e).__name__)
        viol(ctx, k, {"item": it.name, "input": bp, "embedded_in": via},
                      "%s accepted a perturbed encoding (%s) and write() of "
                      "the result raises %r" % (it.name, kind, e))
        return "violation"
    if it.nf is not None:
        # legitimately non-canonical accepted forms: compare normal forms,
        # require the canonical re-serialisation to be a fixed point
        try:
            o2, c2 = it.parse(w)
            w2 = bytes(o2.write())
            same = it.nf(o2) == it.nf(obj) and w2 == w and c2 == len(w)
        except Exception as e:   # noqa
            same = False
        ctx.note("normal form used for %s (legitimately non-canonical "
                 "accepted encodings)" % clsname(it))
        if not same:
            viol(ctx, dict(key, clause="accept_normal_form_unstable"),
                          {"item": it.name, "input": bp, "rewritten": w},
                          "%s: canonical re-serialisation of an accepted "
                          "encoding is not a fixed point" % it.name)
            return "violation"
        if clsname(it) == "CompressedCertificate":
            return judge_compressed(ctx, it, bp, kind, consumed, key)
        return "accepted_normal_form"
    off = 1 if it.kind in ("hs", "ssl2") else 0   # type byte: the caller's
    if w[off:] != bytes(bp[off:consumed]):
        sub = "shorter" if len(w) < consumed else \
            "longer" if len(w) > consumed else "different"
        blamed = blame(it, bp[:consumed]) if it.extctx else None
        if blamed and blamed[0] == "noncanonical":
            key["cls"], via = blamed[1], it.keyname
        viol(ctx, dict(key, clause="accept_noncanonical", rewrite=sub),
                      {"item": it.name, "input": bp, "consumed": consumed,
                       "rewritten": w, "embedded_in": via},
                      "%s accepted a perturbed encoding (%s, %d of %d bytes "
                      "consumed) that re-serialises to %d %s bytes" % (
                          it.name, kind, consumed, len(bp), len(w), sub))
        return "violation"
    return "accepted_canonical"


def judge_compressed(ctx, it, bp, kind, consumed, key):
    """the compressed_certificate_message must be exactly one zlib stream"""
    body = bytes(bp[4:consumed])
    comp = body[8:]
    try:
        d = zlib.decompressobj()
        d.decompress(comp)
        extra = d.unused_data
    except Exception:   # noqa
        extra = b""
    if extra:
        viol(ctx, dict(key, clause="accept_noncanonical",
                           rewrite="trailing_in_compressed_stream"),
                      {"item": it.name, "input": bp},
                      "CompressedCertificate accepted %d bytes after the end "
                      "of the zlib stream inside "
                      "compressed_certificate_message" % len(extra))
        return "violation"
    return "accepted_normal_form"


def try_perturbed(ctx, it, bp, kind):
    ctx.ev()
    ctx.count("perturbations")
    try:
        obj, consumed = it.parse(bp)
    except Exception as e:   # noqa
        ec = exc_class(it, e)
        if ec == "decode":
            ctx.count("perturb_rejected")
            ctx.count("exc:" + type(e).__name__)
            out = "rejected"
            if kind == "prefix" and isinstance(e, BadCertificateError):
                # a cut-off message is a framing error at the TLS level
                # whatever it carries: _getMsg must answer decode_error, and
                # it answers BadCertificateError with bad_certificate
                viol(ctx, {"clause": "truncation_reported_as_bad_certificate",
                           "cls": keycls(it)},
                     {"item": it.name, "input": bp, "perturb": kind},
                     "%s: truncated encoding rejected with "
                     "BadCertificateError (%s), not a decode error" % (
                         it.name, str(e)[:100]))
            elif kind == "prefix":
                ctx.count("prefix_rejected_as_decode_error")
        else:
            ctx.count("exc:" + ec)
            wh = where(e)
            blamed = blame(it, bp) if it.extctx else None
            if blamed and blamed[0] == "raises" and blamed[2] == ec:
                kc, via = blamed[1], it.keyname
            else:
                kc, via = keycls(it), None
            viol(ctx, {"clause": "parser_wrong_exception", "cls": kc,
                       "exc": ec, "where": wh},
                 {"item": it.name, "input": bp, "perturb": kind,
                  "embedded_in": via},
                 "%s parser raised %s (in %s): %s on a perturbed encoding "
                 "(%s)" % (it.name, ec, wh, str(e)[:120], kind))
            out = "violation"
    else:
        out = judge_accept(ctx, it, bp, kind, obj, consumed)
        ctx.count("perturb_" + out)
    ctx.cell("pcell", "%s/%s/%s" % (it.name, kind, out))
    return out


def known_outer(it):
    if it.kind == "hs":
        return [(1, 3)]
    if it.kind == "ext":
        return [(2, 2)]
    return []


def candidates(b, rng=None, maxpos=4000):
    n = len(b)
    out = []
    ends = {}
    poss = range(n)
    if n > maxpos and rng is not None:
        poss = sorted(set(list(range(64)) + rng.sample(range(n), maxpos)))
    for pos in poss:
        for w in (1, 2, 3):
            if pos + w > n:
                continue
            v = int.from_bytes(b[pos:pos + w], "big")
            end = pos + w + v
            if end <= n:
                out.append((pos, w, end))
                ends[end] = ends.get(end, 0) + 1
    return out, ends


def bump(bp, pos, w, k):
    v = int.from_bytes(bp[pos:pos + w], "big") + k
    if v >= 1 << (8 * w):
        return False
    bp[pos:pos + w] = v.to_bytes(w, "big")
    return True


def perturb_all(ctx, it, b, rng, budget):
    n = len(b)
    b = bytes(b)
    # 1. proper prefixes
    ks = list(range(n))
    if n > budget:
        ks = sorted(set(list(range(8)) + list(range(n - 8, n)) +
                        rng.sample(range(n), budget)))
        ks = [k for k in ks if 0 <= k < n]
    for k in ks:
        try_perturbed(ctx, it, b[:k], "prefix")
    # 2. trailing bytes after the encoding
    for k in (1, 2, 3):
        t = rng.choice([bytes(k), rng.randbytes(k)])
        try_perturbed(ctx, it, b + t, "trailing_outside")
    # 3. trailing bytes inside candidate spans (lengths bumped consistently)
    cands, ends = candidates(b, rng)
    outer = [c for c in known_outer(it) if c[0] + c[1] <= n]
    # known framing first: junk at the very end of the outermost structure
    for k in (1, 2, 3):
        if not outer:
            break
        bp = bytearray(b + rng.randbytes(k))
        if all(bump(bp, p, w, k) for p, w in outer):
            try_perturbed(ctx, it, bp, "trailing_inside_outer")
    by_end = {}
    for c in cands:
        by_end.setdefault(c[2], []).append(c)
    structural = [c for c in cands if c[2] == n or ends[c[2]] >= 2]
    others = [c for c in cands if not (c[2] == n or ends[c[2]] >= 2)]
    lim = max(12, budget // 3)
    if len(structural) > lim:
        structural = rng.sample(structural, lim)
    if len(others) > lim // 2:
        others = rng.sample(others, lim // 2)
    for pos, w, end in structural + others:
        if (pos, w) in outer:
            continue
        k = rng.choice([1, 1, 2, 3])
        junk = rng.choice([bytes(k), rng.randbytes(k)])
        for variant in ("a", "b"):
            bp = bytearray(b[:end] + junk + b[end:])
            ok = bump(bp, pos, w, k)
            for p2, w2 in outer:
                if p2 + w2 <= pos:
                    ok = ok and bump(bp, p2, w2, k)
            if variant == "b":
                # also every candidate that encloses this span and ends at
                # the end of the encoding or at the same place
                pool = by_end.get(end, []) + (by_end.get(n, [])
                                              if end != n else [])
                extra = [c for c in pool if c[0] + c[1] <= pos and
                         (c[0], c[1]) not in outer and c[1] >= 2]
                if not extra:
                    continue
                seen = set()
                for p2, w2, _ in extra:
                    if any(p2 < q + v and q < p2 + w2 for q, v in seen):
                        continue
                    seen.add((p2, w2))
                    ok = ok and bump(bp, p2, w2, k)
            if ok:
                try_perturbed(ctx, it, bp, "trailing_inside")
    # 4. every byte +-1 / 0x00 / 0xFF
    idx = list(range(n))
    if n > budget:
        idx = sorted(set(list(range(min(n, 12))) +
                         rng.sample(range(n), budget)))
    for i in idx:
        if i == 0 and it.kind in ("hs", "ssl2"):
            continue     # the type byte is consumed by the caller
        for kind, v in (("byte_plus1", (b[i] + 1) & 255),
                        ("byte_minus1", (b[i] - 1) & 255),
                        ("byte_00", 0), ("byte_ff", 255)):
            if v == b[i]:
                continue
            bp = bytearray(b)
            bp[i] = v
            try_perturbed(ctx, it, bp, kind)
    # 5. swap of two adjacent bytes
    for _ in range(min(n - 1, 12) if n > 1 else 0):
        i = rng.randrange(n - 1)
        if b[i] == b[i + 1]:
            continue
        bp = bytearray(b)
        bp[i], bp[i + 1] = bp[i + 1], bp[i]
        try_perturbed(ctx, it, bp, "swap_adjacent")


# -- overflow mutations -----------------------------------------------------
OVF_SKIP = {"contentType", "handshakeType", "serverType", "encExtType",
            "cert", "hrr", "ssl2", "cipherSuite", "certificateType",
            "hash_length", "private", "time", "extType",
            # DER structure validated by the parser: growing it is a
            # semantic change, not a framing one
            "subject_public_key_info"}
OVF_CTX_VERSION = {"Certificate", "CompressedCertificate",
                   "CertificateRequest", "ServerKeyExchange",
                   "ClientKeyExchange", "CertificateVerify", "Finished"}


def slots(o, path="", depth=0, out=None):
    """(container, key, value, path) for every mutable leaf"""
    if out is None:
        out = []
    if depth > 6 or isinstance(o, (X509, X509CertChain)):
        return out
    if hasattr(o, "__dict__"):
        for k, v in list(vars(o).items()):
            if k in OVF_SKIP or (k.startswith("_") and
                                 k not in DUMP_KEEP_PRIVATE):
                continue
            if k == "_extData" and type(o) is not E.TLSExtension:
                continue
            if k in ("pub_key", "subject_public_key", "pub_key_alg",
                     "bytes") and isinstance(o, Credential):
                continue
            p = "%s.%s" % (path, k)
            if isinstance(v, (bytes, bytearray)) or (
                    isinstance(v, int) and not isinstance(v, bool)):
                out.append((o, k, v, p))
            elif isinstance(v, tuple) and v and all(
                    isinstance(x, int) for x in v):
                out.append((o, k, v, p))
            elif isinstance(v, list):
                out.append((o, k, v, p))
                for x in v[:3]:
                    if hasattr(x, "__dict__"):
                        slots(x, p + "[]", depth + 1, out)
            elif hasattr(v, "__dict__") and not callable(v):
                slots(v, p, depth + 1, out)
    return out


def setslot(o, k, v):
    setattr(o, k, v)


def mutate(rng, o, k, v):
    """-> (mutation name, applied?)"""
    if isinstance(v, (bytes, bytearray)):
        tgt = rng.choice([256, 65536, 65536])
        if len(v) >= tgt:
            return None
        setslot(o, k, bytearray(v) + bytearray(tgt - len(v)))
        return "bytes_to_%d" % tgt
    if isinstance(v, int):
        # byte-aligned widths, plus the 14- and 15-bit fields of the SSLv2
        # record header and a value with low bits set (a wrap would alias)
        nv = rng.choice([(1 << 8), (1 << 16), (1 << 24), (1 << 32),
                         (1 << 64), -1, (1 << 14), (1 << 15),
                         (1 << 14) | 0x1234, (1 << 15) | 0x0234])
        setslot(o, k, nv)
        return "int_%s" % ("neg" if nv < 0 else "2^%d%s" % (
            nv.bit_length() - 1, "" if nv & (nv - 1) == 0 else "+"))
    if isinstance(v, tuple):
        i = rng.randrange(len(v))
        nv = rng.choice([256, 65536, -1])
        t = list(v)
        t[i] = nv
        setslot(o, k, tuple(t))
        return "tuple_elem_%s" % ("neg" if nv < 0 else nv)
    if isinstance(v, list):
        if not v:
            return None
        if rng.random() < .5 and isinstance(v[0], int) and \
                not isinstance(v[0], bool):
            nv = list(v)
            nv[rng.randrange(len(nv))] = rng.choice(
                [1 << 8, 1 << 16, 1 << 24, -1])
            setslot(o, k, nv)
            return "list_elem_big"
        tgt = rng.choice([256, 32768, 65536])
        if len(v) >= tgt:
            return None
        setslot(o, k, (list(v) * (tgt // len(v) + 1))[:tgt])
        return "list_to_%d" % tgt
    return None


def ovf_fields(it, o):
    if it.nf is not None and it.fields is None:
        return it.nf(o)
    return fields_of(it, o)


def overflow_trials(ctx, it, seed_rng, rng, ntrials):
    if it.no_overflow:
        return
    for t in range(ntrials):
        g = Gen(seed_rng_copy(seed_rng), small=True)
        try:
            x = it.gen(g)
        except Exception:   # noqa
            return
        sl = slots(x)
        if not sl:
            return
        o, k, v, path = rng.choice(sl)
        leaf = path.rsplit(".", 1)[-1]
        if leaf in it.fixed_fields or leaf in ("random",):
            continue
        if leaf == "version" and clsname(it) in OVF_CTX_VERSION and \
                path.count(".") == 1:
            continue
        before = ovf_fields(it, x)
        try:
            b0 = bytes(x.write())
        except Exception:   # noqa
            continue
        mut = mutate(rng, o, k, v)
        if mut is None:
            continue
        try:
            after = ovf_fields(it, x)
        except Exception:   # noqa
            continue
        if first_diff(before, after) is None:
            continue   # the mutated attribute is not part of the value
        ctx.ev()
        ctx.count("overflow_trials")
        key = {"cls": keycls(it), "field": path.replace("[]", ""),
               "mutation": mut}
        cellv = "%s/%s/%s" % (it.name, path, mut)
        try:
            w = bytes(x.write())
        except Exception as e:   # noqa
            ctx.count("overflow_raised")
            ctx.count("ovf_exc:" + type(e).__name__)
            ctx.cell("ovf", cellv + "/raised")
            continue
        if w == b0:
            # the attribute is not serialised in this configuration of the
            # value (e.g. fields of an extension whose payload is absent)
            ctx.count("overflow_field_not_serialised")
            continue
        try:
            o2, consumed = it.parse(w)
            back = ovf_fields(it, o2)
        except Exception as e:   # noqa
            if mut.startswith("int_") or mut.startswith("tuple_") or \
                    mut == "list_elem_big":
                # a value the encoding can represent but the parser refuses
                # semantically is not a truncation
                if exc_class(it, e) == "decode":
                    ctx.count("overflow_written_semantically_rejected")
                    ctx.cell("ovf", cellv + "/semantic")
                    continue
            viol(ctx, dict(key, clause="write_oversize_unparseable",
                               exc=type(e).__name__),
                          {"item": it.name, "written_len": len(w),
                           "written_head": w[:64]},
                          "%s.write() returned %d bytes for %s=%s which its "
                          "own parser rejects (%r)" % (it.name, len(w), path,
                                                       mut, e))
            ctx.cell("ovf", cellv + "/violation")
            continue
        d = first_diff(after, back)
        if d is None and consumed == len(w):
            ctx.count("overflow_fits")
            ctx.cell("ovf", cellv + "/fits")
        else:
            viol(ctx, dict(key, clause="write_silent_truncation"),
                          {"item": it.name, "written_len": len(w),
                           "written_head": w[:64], "diff": d,
                           "consumed": consumed},
                          "%s.write() returned bytes for %s=%s that parse "
                          "back to a different value (first difference %s)"
                          % (it.name, path, mut, d))
            ctx.cell("ovf", cellv + "/violation")


def seed_rng_copy(r):
    import random
    c = random.Random()
    c.setstate(r.getstate())
    # advance the original so that successive calls differ
    r.random()
    return c


# --------------------------------------------------------------------------
def run_case(ctx, it, seed):
    rng = ctx.rng
    g = Gen(rng, small=(it.kind == "ext" and rng.random() < .5))
    x = it.gen(g)
    cname = clsname(it)
    # ---- (a) round trip ---------------------------------------------------
    ctx.ev()
    try:
        b = bytes(x.write())
    except ValueError as e:
        if g.big is not None:
            ctx.count("gen_big_unwritable")
            return
        ctx.inconc("harness: generator for %s produced an unwritable small "
                   "value: %r" % (it.name, e))
        return
    sizecls = "+".join(sorted(g.sizes)) or "plain"
    key = {"cls": keycls(it)}
    if it.kind in ("hs", "ssl2") and b[0] != x.handshakeType:
        viol(ctx, dict(key, clause="roundtrip_type_byte"),
                      {"item": it.name, "bytes": b[:8]}, "wrong type byte")
    try:
        o, consumed = it.parse(b)
    except Exception as e:   # noqa
        viol(ctx, dict(key, clause="roundtrip_parse_raises",
                           exc=type(e).__name__),
                      {"item": it.name, "bytes": b},
                      "%s: parse(write(x)) raised %r" % (it.name, e))
        return
    if it.kind == "ext" and type(o) is not it.cls:
        viol(ctx, dict(key, clause="roundtrip_dispatch",
                           got=type(o).__name__),
                      {"item": it.name, "bytes": b},
                      "%s dispatched to %s" % (it.name, type(o).__name__))
        return
    fx, fo = fields_of(it, x), fields_of(it, o)
    if it.nf is not None and cname != "CompressedCertificate":
        d = None if it.nf(x) == it.nf(o) else "normal form"
    else:
        d = first_diff(fx, fo)
    if d is not None or consumed != len(b):
        viol(ctx, dict(key, clause="roundtrip_fields_differ",
                           field=str(d).replace("[]", "")),
                      {"item": it.name, "bytes": b, "consumed": consumed,
                       "before": repr(fx)[:600], "after": repr(fo)[:600]},
                      "%s: parse(write(x)) differs from x at %s (consumed %d "
                      "of %d)" % (it.name, d, consumed, len(b)))
        return
    try:
        b2 = bytes(o.write())
    except Exception as e:   # noqa
        viol(ctx, dict(key, clause="roundtrip_rewrite_raises",
                           exc=type(e).__name__),
                      {"item": it.name, "bytes": b},
                      "%s: write(parse(write(x))) raised %r" % (it.name, e))
        return
    if b2 != b:
        if it.nf is not None:
            o3, c3 = it.parse(b2)
            if it.nf(o3) != it.nf(o) or bytes(o3.write()) != b2:
                viol(ctx, dict(key, clause="roundtrip_rewrite_differs"),
                              {"item": it.name, "bytes": b, "rewritten": b2},
                              "%s: normal form unstable" % it.name)
                return
            ctx.note("normal form used for %s (legitimately non-canonical "
                     "accepted encodings)" % cname)
        else:
            viol(ctx, dict(key, clause="roundtrip_rewrite_differs"),
                          {"item": it.name, "bytes": b, "rewritten": b2},
                          "%s: write(parse(write(x))) != write(x)" % it.name)
            return
    ctx.count("roundtrips")
    ctx.count("rt:" + it.name)
    ctx.cell("rt", "%s/%s" % (it.name, sizecls))
    ctx.cell("item", it.name)
    ctx.maxi("encoded_len", len(b))
    if seed == 0:
        ctx.sample({"item": it.name, "len": len(b), "head": b[:48]})
    # ---- (c) perturbations ------------------------------------------------
    # number of positions tried per perturbation family: all of them for
    # ordinary encodings, a deterministic sample for long ones (parsing a
    # 2^16-byte vector costs tens of milliseconds)
    budget = max(10, ctx.pick(300000, 900000) // max(len(b), 1))
    perturb_all(ctx, it, b, rng, budget)
    # ---- (b) overflow ------------------------------------------------------
    overflow_trials(ctx, it, rng, rng, ctx.pick(2, 4))


def make_cases(ctx):
    seeds = ctx.pick(9, 200)
    for s in range(seeds):
        for it in ITEMS:
            n = s
            yield "%s#%d" % (it.name, n), (it.name, n)


def small_domain_headers(ctx):
    """record headers have a handful of small fields: the whole boundary
    grid is enumerated (write either raises or parses back to the value)"""
    from tlslite.utils.codec import Parser
    grid = [0, 1, 0xff, 0x100, 0x3fff, 0x4000, 0x4001, 0x5234, 0x7fff,
            0x8000, 0x8001, 0x9234, 0xffff, 0x10000, 0x10001, -1]
    for esc in (False, True):
        for pad in (0, 1, 7, 255, 256, -1):
            for ln in grid:
                ctx.ev()
                ctx.count("header_grid")
                key = {"cls": "RecordHeader2", "field": "length/padding",
                       "clause": "write_silent_truncation"}
                try:
                    w = bytes(M.RecordHeader2().create(ln, pad, esc).write())
                except Exception:   # noqa
                    ctx.count("header_grid_raised")
                    continue
                try:
                    h = M.RecordHeader2().parse(Parser(bytearray(w)))
                    back = (h.length, h.padding, bool(h.securityEscape))
                except Exception as e:   # noqa
                    back = repr(e)
                if back != (ln, pad, esc):
                    viol(ctx, key, {"written": w, "value": [ln, pad, esc],
                                    "parsed": back},
                         "RecordHeader2(length=%r, padding=%r, escape=%r)"
                         ".write() -> %r parses back as %r" % (
                             ln, pad, esc, w, back))
    for typ in (0, 22, 255, 256, -1):
        for ver in ((3, 3), (255, 255), (256, 0), (3, 256)):
            for ln in grid:
                ctx.ev()
                ctx.count("header_grid")
                try:
                    w = bytes(M.RecordHeader3().create(ver, typ, ln).write())
                except Exception:   # noqa
                    ctx.count("header_grid_raised")
                    continue
                try:
                    h = M.RecordHeader3().parse(Parser(bytearray(w)))
                    back = (tuple(h.version), h.type, h.length)
                except Exception as e:   # noqa
                    back = repr(e)
                if back != (ver, typ, ln):
                    viol(ctx, {"cls": "RecordHeader3", "field": "any",
                               "clause": "write_silent_truncation"},
                         {"written": w, "value": [ver, typ, ln],
                          "parsed": back},
                         "RecordHeader3%r.write() -> %r parses back as %r"
                         % ((ver, typ, ln), w, back))


def run(ctx):
    if not certs():
        ctx.inconc("no X.509 certificate could be loaded from /repo/tests")
        return
    if ctx.shard == 0:
        small_domain_headers(ctx)
    for cid, (name, seed) in ctx.cases(make_cases(ctx)):
        run_case(ctx, ITEM_BY_NAME[name], seed)


def uncovered():
    """classes of tlslite.messages / dispatch-table entries of
    tlslite.extensions that no codec item exercises (vacuity guard against
    classes added later)"""
    import inspect
    out = []
    have = set()
    for it in ITEMS:
        if it.kind != "ext":
            have.add(type(it.new()))
    bases = {M.RecordHeader, M.Message, M.HandshakeMsg, M.HelloMessage,
             M.SSL2Finished,
             M.CertificateEntry}     # exercised inside Certificate/3.4
    for name, cls in inspect.getmembers(M, inspect.isclass):
        if cls.__module__ != M.__name__ or cls in bases:
            continue
        if hasattr(cls, "parse") and hasattr(cls, "write") and \
                cls not in have:
            out.append("tlslite.messages.%s has no codec item" % name)
    tables = {"CH": E.TLSExtension._universalExtensions,
              "SH": E.TLSExtension._serverExtensions,
              "CERT": E.TLSExtension._certificateExtensions,
              "HRR": E.TLSExtension._hrrExtensions}
    for cname, tab in tables.items():
        for t, cls in tab.items():
            if not any(e[1] is cls and cname in e[2] for e in EXTS):
                out.append("extension class %s (type %d) is dispatched in "
                           "%s but has no codec item there" % (
                               cls.__name__, t, cname))
    return out


def finalize(m, tier):
    out = uncovered()
    c = m["counters"]
    have = m["cells"].get("item", set())
    for it in ITEMS:
        if it.name not in have:
            out.append("no successful round trip for " + it.name)
    pc = m["cells"].get("pcell", set())
    kinds = ("prefix", "trailing_outside", "trailing_inside",
             "byte_plus1", "byte_minus1", "byte_00", "byte_ff")
    for it in ITEMS:
        if it.name not in have:
            continue
        for k in kinds:
            if k == "trailing_inside" and it.name in (
                    "HelloRequest", "ServerHelloDone", "ChangeCipherSpec"):
                continue
            if k in ("byte_00", "byte_minus1") and it.name in (
                    "HelloRequest", "ServerHelloDone"):
                continue      # the encoding is 00 00 00 after the type byte
            if not any(x.startswith("%s/%s/" % (it.name, k)) or
                       (k == "trailing_inside" and x.startswith(
                           "%s/trailing_inside_outer/" % it.name))
                       for x in pc):
                out.append("negative class %s never tried for %s" % (
                    k, it.name))
    if c.get("perturb_rejected", 0) == 0:
        out.append("no perturbation was ever rejected")
    if c.get("overflow_trials", 0) == 0 or c.get("overflow_raised", 0) == 0:
        out.append("overflow clause never exercised / never raised")
    if c.get("overflow_fits", 0) == 0:
        out.append("overflow positive control (value that fits) never seen")
    if m["truncated"]:
        out.append("soft deadline hit before the case list was finished")
    return out
