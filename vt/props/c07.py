"""C07 - interoperability with OpenSSL (via ssl.MemoryBIO)."""
import os
import ssl
import subprocess
import tempfile

from vt import boot  # noqa
from vt import net, drive, osslpeer, suites, pair, creds, mon, wire
from vt.pair import settings, outcome

from tlslite.tlsconnection import TLSConnection
from tlslite.sessioncache import SessionCache
from tlslite import errors as E

LEVEL = "exploration"
RULE = ("one case = one tlslite-ng endpoint against OpenSSL 3.0 (stdlib ssl, "
        "in-memory BIOs) in one role assignment with both sides forced to a "
        "(version, cipher suite, server key type, group, client-auth, ALPN, "
        "EMS/EtM, resumption mechanism) cell computed to be mutually "
        "supported, followed by application data of boundary sizes in both "
        "directions and an orderly close; oracle: handshake completes, both "
        "sides report the same version / suite id / ALPN / resumption status "
        "/ peer certificate, bytes arrive intact; plus negative cells with "
        "Also: overlapping version *ranges* (with the key exchange "
        "pinned where the version comes out below the offer), "
        "resumption by a client offering everything up to 1.3, every "
        "client key type, post-handshake authentication twice, "
        "HelloRetryRequest over hello sizes, psk_ke, finite-field DHE "
        "with a steered leading-zero secret.   "
        "an empty intersection which must fail. distinct_nontrivial = "
        "distinct (role, version, suite, key type, group, feature) tuples "
        "that completed and exchanged data.")
ASSUMPTIONS = [
    "OpenSSL 3.0 as exposed by Python 3.12's ssl: no SSLv3, RC4, 3DES, SRP "
    "credentials, TLS 1.3 CCM suites, record_size_limit, heartbeat, NPN, "
    "KeyUpdate driving or external PSKs",
    "TLS 1.3 suites cannot be restricted on the OpenSSL side: the tlslite "
    "side's cipherNames force them",
]
NONTRIVIAL = ["tuple"]
DEADLINE = {"quick": 100, "thorough": 900}

KEYS = {"rsa": ("serverX509Cert.pem", "serverX509Key.pem"),
        "rsapss": ("serverRSAPSSCert.pem", "serverRSAPSSKey.pem"),
        "ecdsa256": ("serverECCert.pem", "serverECKey.pem"),
        "ecdsa384": ("serverP384ECCert.pem", "serverP384ECKey.pem"),
        "ecdsa521": ("serverP521ECCert.pem", "serverP521ECKey.pem"),
        "ed25519": ("serverEd25519Cert.pem", "serverEd25519Key.pem"),
        "ed448": ("serverEd448Cert.pem", "serverEd448Key.pem"),
        "dsa": ("serverDSACert.pem", "serverDSAKey.pem")}
# self-signed, so that OpenSSL (which insists on verifying) can be given the
# certificate itself as trust anchor
CKEYS = {"rsa": ("serverX509Cert.pem", "serverX509Key.pem"),
         "ecdsa": ("clientECCert.pem", "clientECKey.pem"),
         "ed25519": ("serverEd25519Cert.pem", "serverEd25519Key.pem"),
         "ed448": ("serverEd448Cert.pem", "serverEd448Key.pem"),
         "ecdsa384": ("serverP384ECCert.pem", "serverP384ECKey.pem"),
         "rsapss": ("serverRSAPSSCert.pem", "serverRSAPSSKey.pem")}
OSSL_CURVE = {"secp256r1": "prime256v1", "secp384r1": "secp384r1",
              "secp521r1": "secp521r1", "x25519": "X25519", "x448": "X448",
              "brainpoolP256r1": "brainpoolP256r1",
              "brainpoolP384r1": "brainpoolP384r1",
              "brainpoolP512r1": "brainpoolP512r1"}
VERS = [(3, 1), (3, 2), (3, 3), (3, 4)]
_dh = {}


def dh_params_file():
    if "f" not in _dh:
        d = tempfile.mkdtemp(prefix="vt-c07-", dir=os.path.join(boot.VERIF,
                                                               ".work")
                             if os.path.isdir(os.path.join(boot.VERIF,
                                                           ".work")) else None)
        f = os.path.join(d, "dh.pem")
        subprocess.run(["openssl", "genpkey", "-genparam", "-algorithm", "DH",
                        "-pkeyopt", "group:ffdhe2048", "-out", f],
                       check=True, capture_output=True, timeout=60)
        _dh["f"] = f
        _dh["d"] = d
    return _dh["f"]


def cleanup():
    if "d" in _dh:
        import shutil
        shutil.rmtree(_dh["d"], ignore_errors=True)
        _dh.clear()


def mutual_cells():
    out = []
    for sid in suites.NEGOTIABLE:
        su = suites.TABLE[sid]
        if sid not in osslpeer.BY_ID or (su.kx_setting or "").startswith(
                "srp"):
            continue
        if su.auth == "dsa":
            # OpenSSL 3.0's default signature-algorithm list has no DSA and
            # Python's ssl cannot change it: not configurable, not judged
            continue
        for ver in VERS:
            if su.defined_for(ver):
                out.append((sid, ver))
    return out


def key_for(su, rng):
    if su.tls13:
        return rng.choice(["rsa", "rsapss", "ecdsa256", "ecdsa384",
                           "ecdsa521", "ed25519", "ed448"])
    if su.auth == "rsa":
        if su.kx_setting == "rsa":
            return "rsa"
        return rng.choice(["rsa", "rsa", "rsapss"])
    if su.auth == "ecdsa":
        return rng.choice(["ecdsa256", "ecdsa384", "ecdsa521", "ed25519",
                           "ed448"])
    if su.auth == "dsa":
        return "dsa"
    return None


def make_cases(ctx):
    rng = ctx.case_rng("plan")
    cells = mutual_cells()
    reps = ctx.pick(1, 8)
    n = 0
    for rep in range(reps):
        for role in ("tl_client", "tl_server"):
            for sid, ver in cells:
                su = suites.TABLE[sid]
                k = key_for(su, rng)
                if k in ("ed25519", "ed448", "rsapss") and ver < (3, 3):
                    k = "rsa" if su.auth == "rsa" or su.tls13 else "ecdsa256"
                group = None
                if su.tls13 or su.ske == "ecdh":
                    group = rng.choice(["x25519", "x448", "secp256r1",
                                        "secp384r1", "secp521r1"] +
                                       (["brainpoolP256r1"]
                                        if ver == (3, 3) else []))
                if k and k.startswith("ecdsa") and not su.tls13:
                    # <= 1.2: the certificate's curve must be an offered
                    # group, and OpenSSL takes one curve only
                    group = {"ecdsa256": "secp256r1", "ecdsa384": "secp384r1",
                             "ecdsa521": "secp521r1"}[k]
                feat = rng.choice(["plain", "plain", "alpn", "cauth",
                                   "noems", "noetm", "resume", "recsize",
                                   "hrr" if su.tls13 else "plain"])
                if rep == 0 and n % 3:
                    feat = "plain"
                if su.kx_setting in ("dh_anon", "ecdh_anon") and \
                        feat in ("alpn", "cauth"):
                    feat = "plain"    # not expressible for anonymous suites
                n += 1
                yield "%s-%04x-%d%d-%s-%s-%s-%d" % (
                    role, sid, ver[0], ver[1], k, group, feat, rep), dict(
                    role=role, sid=sid, ver=ver, key=k, group=group,
                    feat=feat)
    # every feature at least once per role for TLS 1.3 and TLS 1.2 (the
    # sweep above assigns features at random)
    for role in ("tl_client", "tl_server"):
        for ver in ((3, 4), (3, 3)):
            mine = [c for c in cells if c[1] == ver and
                    suites.TABLE[c[0]].auth in ("rsa", None) and
                    suites.TABLE[c[0]].kx_setting not in ("dh_anon",
                                                          "ecdh_anon") and
                    (suites.TABLE[c[0]].tls13 or
                     suites.TABLE[c[0]].ske == "ecdh")]
            if not mine:
                continue
            feats = ["cauth", "resume", "alpn", "recsize", "noems", "noetm"]
            if ver == (3, 4):
                feats = ["cauth", "resume", "alpn", "recsize", "hrr",
                         "resume_hrr"]
            for feat in feats:
                for rep in range(ctx.pick(1, 4)):
                    sid, _ = rng.choice(mine)
                    group = rng.choice(["secp256r1", "secp384r1",
                                        "secp521r1"])
                    yield "feat-%s-%04x-%d%d-%s-%s-%d" % (
                        role, sid, ver[0], ver[1], group, feat, rep), dict(
                        role=role, sid=sid, ver=ver, key="rsa", group=group,
                        feat=feat)
            # resumption per record-protection kind (EtM and EMS are carried
            # over differently for CBC, AEAD and stream suites)
            if ver < (3, 4):
                for v2 in ((3, 3), (3, 1)):
                    for cname in ("AES_128_CBC_SHA", "AES_256_CBC_SHA",
                                  "AES_128_GCM_SHA256",
                                  "CHACHA20_POLY1305_SHA256"):
                        cand = [c for c in cells if c[1] == v2 and
                                suites.TABLE[c[0]].name.endswith(cname) and
                                suites.TABLE[c[0]].kx in ("ECDHE_RSA", "RSA")]
                        for sid, _ in cand[:2]:
                            yield "resume-%s-%04x-%d%d" % (
                                role, sid, v2[0], v2[1]), dict(
                                role=role, sid=sid, ver=v2, key="rsa",
                                group="secp256r1", feat="resume")
                            if role == "tl_client":
                                # the tlslite client is not pinned to the
                                # version: it offers everything up to 1.3
                                # and lands on the peer's version, with
                                # tickets and with session IDs
                                for tk in (True, False):
                                    yield "resumewide-%04x-%d%d-%d" % (
                                        sid, v2[0], v2[1], tk), dict(
                                        role=role, sid=sid, ver=v2,
                                        key="rsa", group="secp256r1",
                                        feat="resume_wide", tickets=tk)
            # client authentication with every client key type
            for ck in ("ecdsa", "ed25519", "ed448", "ecdsa384", "rsapss"):
                sid, _ = rng.choice(mine)
                yield "cauth-%s-%04x-%d%d-%s" % (role, sid, ver[0], ver[1],
                                                 ck), dict(
                    role=role, sid=sid, ver=ver, key="rsa",
                    group="secp384r1" if ck == "ecdsa384" else "secp256r1",
                    feat="cauth", ckey=ck)
    for ck in ("rsa", "ecdsa"):
        yield "pha2-%s" % ck, dict(extra="pha2", ckey=ck, rounds=2)
    for group in ("secp384r1", "secp521r1"):
        for sni in (0, 30, 60, 90, 120, 150, 180, 210):
            for alpns in (0, 3):
                yield "hrrsize-%s-%d-%d" % (group, sni, alpns), dict(
                    extra="hrr_size", group=group, sni=sni, alpns=alpns)
    for sid in (0x1301, 0x1302, 0x1303):
        yield "pskke-%04x" % sid, dict(extra="psk_ke", sid=sid)
    # finite-field DHE below TLS 1.3 where the shared secret begins with a
    # zero byte (one handshake in 256): RFC 5246 8.1.2 strips it
    for ver in ((3, 3), (3, 1)):
        for nz in (1,):
            yield "dhe-lz-%d-%d" % (ver[1], nz), dict(extra="dhe_lz",
                                                      ver=ver, nz=nz)
    # overlapping version ranges, default suites
    for role in ("tl_client", "tl_server"):
        for tmin in VERS:
            for tmax in VERS:
                for omin in VERS:
                    for omax in VERS:
                        if tmin > tmax or omin > omax or \
                                max(tmin, omin) > min(tmax, omax):
                            continue
                        if (tmin, tmax) == (omin, omax) and tmin == tmax:
                            continue     # the pinned cells above
                        yield "range-%s-%d%d-%d%d" % (
                            role, tmin[1], tmax[1], omin[1], omax[1]), dict(
                            role=role, range=[tmin, tmax, omin, omax])
                        # the same with the key exchange pinned when the
                        # version comes out below what the client offered
                        # (the RSA premaster carries the *offered* version)
                        want = min(tmax, omax)
                        offered = tmax if role == "tl_client" else omax
                        if want <= (3, 3) and want < offered:
                            for kx in ("rsa", "dhe_rsa"):
                                yield "range-%s-%d%d-%d%d-%s" % (
                                    role, tmin[1], tmax[1], omin[1], omax[1],
                                    kx), dict(
                                    role=role, kx=kx,
                                    range=[tmin, tmax, omin, omax])
    # negatives
    for role in ("tl_client", "tl_server"):
        for j in range(ctx.pick(8, 60)):
            yield "neg-%s-%d" % (role, j), dict(role=role, neg=True, j=j)


def drive_both(tl_task, o, link, max_rounds=400):
    idle = 0
    for _ in range(max_rounds):
        a0 = link.activity
        if tl_task.live:
            if tl_task.sock is not None:
                tl_task.sock.real_block = False
            tl_task.step()
        o.handshake_step()
        if not tl_task.live and (o.hs_done or o.error):
            # let final flights drain
            o._pump()
            break
        if link.activity == a0:
            idle += 1
            if idle > 6:
                break
        else:
            idle = 0


def ossl_read_all(o, want, tl_conn=None, rounds=100000):
    got = bytearray()
    for _ in range(rounds):
        try:
            r = o.read()
        except (ssl.SSLError, OSError) as e:
            return bytes(got), e
        if r:
            got += r
        if len(got) >= want:
            break
        if not r:
            break
    return bytes(got), None


def run_case(ctx, cid, P):
    if P.get("neg"):
        return run_negative(ctx, cid, P)
    if P.get("range"):
        return run_range(ctx, cid, P)
    if P.get("extra"):
        return run_extra(ctx, cid, P)
    rng = ctx.rng
    sid, ver, role, feat = P["sid"], tuple(P["ver"]), P["role"], P["feat"]
    su = suites.TABLE[sid]
    k, group = P["key"], P["group"]
    hrr = feat in ("hrr", "resume_hrr")
    resume = feat in ("resume", "resume_hrr", "resume_wide")
    tkw = {}
    if group:
        tkw["eccCurves"] = [group]
        tkw["keyShares"] = [group] if not hrr else []
    if su.ske == "dh" or (su.tls13 and False):
        tkw["dhGroups"] = ["ffdhe2048"]
    if feat == "noems":
        tkw["useExtendedMasterSecret"] = False
    if feat == "noetm":
        tkw["useEncryptThenMAC"] = False
    tl_alpn = o_alpn = None
    if feat == "alpn":
        tl_alpn = [b"h2", b"http/1.1"]
        o_alpn = ["http/1.1", "h2"]
    ckey = (P.get("ckey") or "rsa") if feat == "cauth" else None
    ts_ = suites.suite_settings(su, ver, **tkw)
    if feat == "resume_wide":
        ts_.minVersion, ts_.maxVersion = (3, 0), (3, 4)
    link = net.Link()
    key = {"role": role, "ver": pair.VNAME[ver], "feat": feat,
           "kx": su.kx, "keytype": k}
    W = {"case": cid, "suite": su.name, "group": group}
    sessions = {}
    cache = SessionCache()
    rounds = 2 if resume else 1
    tickets = rng.random() < 0.5
    if feat == "resume_hrr":
        tickets = True
    if "tickets" in P:
        tickets = P["tickets"]
    if resume and role == "tl_server" and tickets:
        ts_.ticketKeys = [bytes(range(32))]
    octx = None
    for rnd in range(rounds):
        link = net.Link()
        if role == "tl_client":
            sock = net.MemSock(link, "client")
            conn = TLSConnection(sock)
            if octx is None:
                cert, keyf = KEYS[k] if k else (None, None)
                octx = osslpeer.context(
                    True, ver, ver, cipher_id=sid, cert=cert, key=keyf,
                    alpn=o_alpn, curve=OSSL_CURVE.get(group) if group and
                    not hrr else None,
                    verify_client_ca=CKEYS[ckey][0] if ckey else None,
                    tickets=tickets)
                if su.ske == "dh":
                    octx.load_dh_params(dh_params_file())
            o = osslpeer.OsslEnd(link, "server", octx)
            chain = pk = None
            if ckey:
                chain, pk = (creds.client("ecdsa") if ckey == "ecdsa" else
                             creds.server(ckey))
            if su.kx_setting in ("dh_anon", "ecdh_anon"):
                gen = conn.handshakeClientAnonymous(
                    settings=ts_, session=sessions.get("tl"), async_=True)
            else:
                gen = conn.handshakeClientCert(
                    certChain=chain, privateKey=pk, settings=ts_,
                    session=sessions.get("tl"), alpn=tl_alpn, async_=True)
        else:
            sock = net.MemSock(link, "server")
            conn = TLSConnection(sock)
            if octx is None:
                octx = osslpeer.context(
                    False, ver, ver, cipher_id=sid, alpn=o_alpn,
                    cert=CKEYS[ckey][0] if ckey else None,
                    key=CKEYS[ckey][1] if ckey else None,
                    curve=OSSL_CURVE.get(group) if group and not hrr
                    else None)
            o = osslpeer.OsslEnd(link, "client", octx,
                                 session=sessions.get("o"))
            kw = dict(settings=ts_, alpn=tl_alpn, reqCert=bool(ckey),
                      sessionCache=cache)
            if su.kx_setting in ("dh_anon", "ecdh_anon"):
                kw["anon"] = True
            else:
                chain, pk = creds.server(k)
                kw.update(certChain=chain, privateKey=pk)
            gen = conn.handshakeServerAsync(**kw)
        t = drive.Task("tl", gen, sock)
        try:
            drive_both(t, o, link)
        except Exception as e:   # noqa
            ctx.inconc("harness exception driving %s: %r" % (cid, e))
            return
        ctx.ev()
        ctx.count("handshakes")
        W["round"] = rnd
        W["tl"] = (t.status, repr(t.exc))
        W["ossl"] = (o.hs_done, repr(o.error))
        if t.status != "done" or not o.hs_done:
            ctx.violation(dict(key, clause="mutual_cell_failed",
                               tl=str(outcome(t)),
                               ossl=type(o.error).__name__ if o.error
                               else "no"), W,
                          "handshake inside the intersection failed: %r / %r"
                          % (t.exc, o.error))
            return
        # same parameters on both sides
        if tuple(conn.version) != o.version() or tuple(conn.version) != ver:
            ctx.violation(dict(key, clause="version_disagree"), W,
                          "%r vs %r" % (conn.version, o.version()))
        if conn.session.cipherSuite != o.cipher_id() or \
                conn.session.cipherSuite != sid:
            ctx.violation(dict(key, clause="suite_disagree"), W,
                          "%r vs %r" % (conn.session.cipherSuite,
                                        o.cipher_id()))
        oa = o.obj.selected_alpn_protocol()
        ta = bytes(conn.session.appProto).decode() if conn.session.appProto \
            else None
        if oa != ta:
            ctx.violation(dict(key, clause="alpn_disagree"), W,
                          "%r vs %r" % (ta, oa))
        if feat == "alpn" and ta is None:
            ctx.violation(dict(key, clause="alpn_not_negotiated"), W, "")
        if role == "tl_client" and k and not conn.resumed:
            # (a resumed TLS 1.3 connection exchanges no Certificate and the
            # client's new Session carries none: recorded, no property
            # requires the server chain to be copied over)
            der = o.obj.getpeercert(True)   # server has no peer cert
            pc = conn.session.serverCertChain
            want = open(os.path.join(osslpeer.TESTS, KEYS[k][0])).read()
            if pc is None or pc.getNumCerts() != 1:
                ctx.violation(dict(key, clause="server_chain_missing"), W, "")
        if role == "tl_server" and k and rnd == 0:
            der = o.obj.getpeercert(True)
            mine = bytes(creds.server(k)[0].x509List[0].bytes)
            if der != mine:
                ctx.violation(dict(key, clause="server_cert_disagree"), W,
                              "")
        if ckey and role == "tl_server" and rnd == 0:
            cc = conn.session.clientCertChain
            if cc is None or cc.getNumCerts() < 1:
                ctx.violation(dict(key, clause="client_chain_missing"), W,
                              "")
        if ckey and role == "tl_client" and rnd == 0:
            if not o.obj.getpeercert(True):
                ctx.violation(dict(key, clause="client_chain_missing"), W,
                              "openssl server saw no client certificate")
        # resumption status
        if resume:
            if rnd == 1:
                ores = o.obj.session_reused
                tres = bool(conn.resumed)
                if ores != tres:
                    ctx.violation(dict(key, clause="resumed_disagree",
                                       tl=tres, ossl=ores), W,
                                  "tlslite resumed=%s openssl reused=%s" % (
                                      tres, ores))
                if ores and tres:
                    ctx.count("resumed")
                    ctx.cell("tuple", "%s|%s|resumed|%s" % (
                        role, pair.VNAME[ver], "ticket" if tickets else "id"))
                else:
                    ctx.count("not_resumed")
        # application data both ways
        sizes = [1, rng.choice([15, 16, 17, 255]),
                 rng.choice([2 ** 14 - 1, 2 ** 14, 2 ** 14 + 1])]
        if not ctx.quick:
            sizes.append(rng.choice([5 * 2 ** 14, 3 * 2 ** 14 + 5]))
        if su.cipher in ("null",):
            sizes = sizes[:2]
        if feat == "recsize":
            conn.recordSize = rng.choice([1, 64, 500, 2 ** 14])
            if conn.recordSize == 1:
                sizes = [1, 40]
        okdata = True
        for n in sizes:
            data = mon.keystream(cid + "/t2o/%d" % n, n)
            try:
                conn.write(data)
            except Exception as e:   # noqa
                ctx.violation(dict(key, clause="write_failed",
                                   exc=type(e).__name__), W, repr(e))
                okdata = False
                break
            got, err = ossl_read_all(o, n)
            ctx.ev()
            if got != data:
                ctx.violation(dict(key, clause="data_t2o_corrupt"),
                              dict(W, n=n, got=len(got), err=repr(err)),
                              "openssl read %d of %d bytes" % (len(got), n))
                okdata = False
                break
            data = mon.keystream(cid + "/o2t/%d" % n, n)
            try:
                o.write(data)
                rb = bytearray()
                guard = 0
                while len(rb) < n and guard < 100:
                    guard += 1
                    tr = drive.Task("r", drive.aread(conn, None, 1), sock)
                    drive.run([tr], link)
                    if tr.status != "done" or not tr.result:
                        break
                    rb += tr.result
            except Exception as e:   # noqa
                ctx.violation(dict(key, clause="read_failed",
                                   exc=type(e).__name__), W, repr(e))
                okdata = False
                break
            ctx.ev()
            if bytes(rb) != data:
                ctx.violation(dict(key, clause="data_o2t_corrupt"),
                              dict(W, n=n, got=len(rb)),
                              "tlslite read %d of %d bytes" % (len(rb), n))
                okdata = False
                break
            ctx.count("bytes", 2 * n)
        if not okdata:
            return
        # pump post-handshake messages (tickets) before saving sessions
        if role == "tl_client":
            tr = drive.Task("r", drive.aread(conn, None, 0), sock)
            if link.in_flight("s2c"):
                drive.run([tr], link)
            sessions["tl"] = conn.session
        else:
            try:
                o.read()
            except (ssl.SSLError, OSError) as e:
                ctx.violation(dict(key, clause="ossl_rejects_post_handshake",
                                   err=getattr(e, "reason", None) or
                                   type(e).__name__),
                              dict(W, records=[r.brief() for r in
                                               link.records[-8:]]),
                              "OpenSSL rejected what tlslite sent after the "
                              "handshake: %r" % (e,))
                return
            sessions["o"] = o.obj.session
        # orderly close, either side first (a 1-byte recordSize would split
        # the 2-byte alert, which OpenSSL refuses: the knob is reset)
        conn.recordSize = 2 ** 14
        if rng.random() < 0.5:
            tc_ = drive.Task("c", drive.aclose(conn), sock)
            drive.run([tc_], link)
            o.read()
            o.close()
        else:
            o.close()
            tr = drive.Task("r", drive.aread(conn, None, 1), sock)
            drive.run([tr], link)
            if tr.status == "exc":
                ctx.violation(dict(key, clause="close_notify_not_clean",
                                   exc=type(tr.exc).__name__), W,
                              repr(tr.exc))
            tc_ = drive.Task("c", drive.aclose(conn), sock)
            drive.run([tc_], link)
        if conn.session is not None and not conn.session.resumable and \
                ver < (3, 4):
            ctx.violation(dict(key, clause="not_resumable_after_close"), W,
                          "")
    ctx.count("completed")
    ctx.cell("tuple", "%s|%s|%s|%s|%s|%s" % (role, pair.VNAME[ver], su.name,
                                            k, group, feat))
    ctx.cell("role_ver", "%s|%s" % (role, pair.VNAME[ver]))
    if len(ctx.samples) < 5:
        ctx.sample({"case": cid, "role": role, "suite": su.name,
                    "ver": pair.VNAME[ver], "key": k, "group": group,
                    "feature": feat, "sizes": sizes})


def run_extra(ctx, cid, P):
    """TLS 1.3 features outside the suite sweep: post-handshake client
    authentication (twice on one connection), HelloRetryRequest for OpenSSL
    hellos of many sizes (the padding extension comes and goes), psk_ke
    resumption"""
    kind = P["extra"]
    ver = (3, 4)
    key = {"role": "tl_server" if kind != "psk_ke" else "tl_client",
           "feat": kind, "ver": "TLS1.3"}
    W = {"case": cid, "params": {k: v for k, v in P.items()}}
    link = net.Link()

    def fail(clause, msg, **kw):
        ctx.violation(dict(key, clause=clause, **kw), W, msg)

    def hs(conn_gen, sock, o):
        t = drive.Task("tl", conn_gen, sock)
        drive_both(t, o, link)
        ctx.ev()
        ctx.count("handshakes")
        W["tl"] = (t.status, repr(t.exc))
        W["ossl"] = (o.hs_done, repr(o.error))
        if t.status != "done" or not o.hs_done:
            fail("mutual_cell_failed", "handshake failed: %r / %r" % (
                t.exc, o.error), tl=str(outcome(t)),
                ossl=type(o.error).__name__ if o.error else "no")
            return False
        return True
    if kind == "dhe_lz":
        # the tlslite client's private value is chosen (instead of drawn)
        # so that the shared secret with the server's share read off the
        # wire starts with nz zero bytes
        import tlslite.keyexchange as KX
        ver = tuple(P["ver"])
        key["ver"] = pair.VNAME[ver]
        key["role"] = "tl_client"
        ts_ = pair.settings(minVersion=ver, maxVersion=ver,
                            keyExchangeNames=["dhe_rsa"])
        octx = osslpeer.context(True, ver, ver, cert=KEYS["rsa"][0],
                                key=KEYS["rsa"][1])
        octx.load_dh_params(dh_params_file())
        o = osslpeer.OsslEnd(link, "server", octx)
        sock = net.MemSock(link, "client")
        conn = TLSConnection(sock)
        real = KX.FFDHKeyExchange.get_random_private_key
        st = {"x": None}

        def steered(self):
            ske = [b for t, b in wire.plain_handshake(link.records, "s2c")
                   if t == 12]
            if not ske:
                return real(self)
            b = ske[0]
            pl = wire.u16(b, 0)
            gl = wire.u16(b, 2 + pl)
            yl = wire.u16(b, 4 + pl + gl)
            p_ = int.from_bytes(b[2:2 + pl], "big")
            ys = int.from_bytes(b[6 + pl + gl:6 + pl + gl + yl], "big")
            n = (p_.bit_length() + 7) // 8
            x = 0x1234567
            for _ in range(6000):
                x += 1
                z = pow(ys, x, p_)
                if z >> (8 * (n - P["nz"])) == 0:
                    st["x"] = x
                    return x
            return real(self)
        KX.FFDHKeyExchange.get_random_private_key = steered
        try:
            ok = hs(conn.handshakeClientCert(settings=ts_, async_=True),
                    sock, o)
        finally:
            KX.FFDHKeyExchange.get_random_private_key = real
        if st["x"] is None:
            ctx.inconc("dhe_lz: no private value with a leading-zero "
                       "secret found in %s" % cid)
            return
        ctx.count("dhe_leading_zero_secrets")
        if ok:
            data = mon.keystream(cid, 200)
            try:
                o.write(data)
                tr = drive.Task("r", drive.aread(conn, 200, 200), sock)
                drive_both(tr, o, link)
                if tr.status != "done" or bytes(tr.result) != data:
                    fail("data_o2t_corrupt", "%r %r" % (tr.status, tr.exc))
            except Exception as e:   # noqa
                fail("data_o2t_corrupt", repr(e))
            ctx.cell("tuple", "tl_client|dhe_lz|%s|%d" % (pair.VNAME[ver],
                                                         P["nz"]))
        return
    if kind == "pha2":
        ts_ = pair.settings(minVersion=ver, maxVersion=ver)
        octx = osslpeer.context(False, ver, ver, cert=CKEYS[P["ckey"]][0],
                                key=CKEYS[P["ckey"]][1])
        octx.post_handshake_auth = True
        sock = net.MemSock(link, "server")
        conn = TLSConnection(sock)
        o = osslpeer.OsslEnd(link, "client", octx)
        chain, pk = creds.server("rsa")
        if not hs(conn.handshakeServerAsync(certChain=chain, privateKey=pk,
                                            settings=ts_), sock, o):
            return
        mine = bytes(open(os.path.join(osslpeer.TESTS,
                                       CKEYS[P["ckey"]][0])).read().encode())
        for rnd in range(P["rounds"]):
            conn.session.clientCertChain = None

            def prog():
                for r in conn.request_post_handshake_auth():
                    yield r
                r = yield from drive.aread(conn, None, 0)
                return r
            t = drive.Task("pha", prog(), sock)
            try:
                idle = 0
                for _ in range(400):
                    a0 = link.activity
                    if t.live:
                        sock.real_block = False
                        t.step()
                    try:
                        o.read(16)  # lets OpenSSL answer the request
                    except ssl.SSLError as e:
                        # the peer got a fatal alert from us
                        W["ossl_pha"] = repr(e)
                        fail("mutual_cell_failed", "post-handshake "
                             "authentication round %d: OpenSSL reports %r, "
                             "tlslite %r" % (rnd + 1, e, t.exc),
                             tl=str(outcome(t)), round=rnd + 1)
                        return
                    if not t.live:
                        o._pump()
                        break
                    if link.activity == a0:
                        idle += 1
                        if idle > 8:
                            break
                    else:
                        idle = 0
            except Exception as e:   # noqa
                ctx.inconc("harness exception in %s: %r" % (cid, e))
                return
            ctx.ev()
            ctx.count("pha_rounds")
            cc = conn.session.clientCertChain
            if t.status == "exc":
                fail("mutual_cell_failed", "post-handshake authentication "
                     "round %d failed: %r" % (rnd + 1, t.exc),
                     tl=str(outcome(t)), round=rnd + 1)
                return
            if cc is None or cc.getNumCerts() < 1:
                fail("client_chain_missing", "round %d: no client chain "
                     "recorded (%s)" % (rnd + 1, t.status), round=rnd + 1)
                return
        ctx.cell("tuple", "tl_server|TLS1.3|pha x%d|%s" % (P["rounds"],
                                                          P["ckey"]))
        return
    if kind == "hrr_size":
        ts_ = pair.settings(minVersion=ver, maxVersion=ver,
                            eccCurves=[P["group"]], keyShares=[])
        octx = osslpeer.context(False, ver, ver,
                                alpn=["proto%d" % i for i in
                                      range(P["alpns"])] or None)
        sock = net.MemSock(link, "server")
        conn = TLSConnection(sock)
        o = osslpeer.OsslEnd(link, "client", octx,
                             server_hostname=".".join(
                                 ["h" * min(50, P["sni"] - i)
                                  for i in range(0, P["sni"], 50)] +
                                 ["example"]) if P["sni"] else None)
        chain, pk = creds.server("rsa")
        if not hs(conn.handshakeServerAsync(certChain=chain, privateKey=pk,
                                            settings=ts_), sock, o):
            return
        hellos = [r for r in link.recs("c2s") if r.type == 22][:2]
        ctx.cell("tuple", "tl_server|TLS1.3|hrr|hello%d" % (
            len(hellos[0].body) // 32 * 32 if hellos else 0))
        ctx.count("hrr_hello_sizes")
        return
    if kind == "psk_ke":
        su = suites.TABLE[P["sid"]]
        ts_ = suites.suite_settings(su, ver, psk_modes=["psk_ke"])
        octx = osslpeer.context(True, ver, ver, cipher_id=P["sid"],
                                cert=KEYS["rsa"][0], key=KEYS["rsa"][1])
        octx.options |= 0x400          # SSL_OP_ALLOW_NO_DHE_KEX
        sess = None
        for rnd in range(2):
            link = net.Link()
            sock = net.MemSock(link, "client")
            conn = TLSConnection(sock)
            o = osslpeer.OsslEnd(link, "server", octx)

            def hs2(gen):
                t = drive.Task("tl", gen, sock)
                drive_both(t, o, link)
                return t
            t = hs2(conn.handshakeClientCert(settings=ts_, session=sess,
                                             async_=True))
            ctx.ev()
            ctx.count("handshakes")
            W["round"] = rnd
            if t.status != "done" or not o.hs_done:
                fail("mutual_cell_failed", "round %d: %r / %r" % (
                    rnd, t.exc, o.error), tl=str(outcome(t)),
                    ossl=type(o.error).__name__ if o.error else "no")
                return
            # data both ways, lets the tickets arrive
            data = mon.keystream(cid + str(rnd), 200)
            try:
                o.write(data)
                tr = drive.Task("r", drive.aread(conn, 200, 200), sock)
                drive_both(tr, o, link)
                if tr.status != "done" or bytes(tr.result) != data:
                    fail("data_o2t_corrupt", "%r %r" % (tr.status, tr.exc))
                    return
            except Exception as e:   # noqa
                fail("data_o2t_corrupt", repr(e))
                return
            if rnd == 1:
                if bool(conn.resumed) != bool(o.obj.session_reused):
                    fail("resumed_disagree", "tlslite %s openssl %s" % (
                        conn.resumed, o.obj.session_reused))
                ctx.count("resumed" if conn.resumed else "not_resumed")
            sess = conn.session
        ctx.cell("tuple", "tl_client|TLS1.3|psk_ke|%s" % su.name)
        return


def run_range(ctx, cid, P):
    """both sides configured with version *ranges* (default suites): the
    handshake must complete at the highest common version"""
    role = P["role"]
    tmin, tmax, omin, omax = (tuple(x) for x in P["range"])
    want = min(tmax, omax)
    ts_ = pair.settings(minVersion=tmin, maxVersion=tmax)
    if P.get("kx"):
        ts_.keyExchangeNames = [P["kx"]]
    link = net.Link()
    key = {"role": role, "feat": "version_range" + (
        "+" + P["kx"] if P.get("kx") else ""),
           "tl": "%s-%s" % (pair.VNAME[tmin], pair.VNAME[tmax]),
           "ossl": "%s-%s" % (pair.VNAME[omin], pair.VNAME[omax])}
    W = {"case": cid}
    if role == "tl_client":
        sock = net.MemSock(link, "client")
        conn = TLSConnection(sock)
        octx = osslpeer.context(True, omin, omax, cert=KEYS["rsa"][0],
                                key=KEYS["rsa"][1])
        if P.get("kx") == "dhe_rsa":
            octx.load_dh_params(dh_params_file())
        o = osslpeer.OsslEnd(link, "server", octx)
        gen = conn.handshakeClientCert(settings=ts_, async_=True)
    else:
        sock = net.MemSock(link, "server")
        conn = TLSConnection(sock)
        octx = osslpeer.context(False, omin, omax)
        o = osslpeer.OsslEnd(link, "client", octx)
        chain, pk = creds.server("rsa")
        gen = conn.handshakeServerAsync(certChain=chain, privateKey=pk,
                                        settings=ts_)
    t = drive.Task("tl", gen, sock)
    try:
        drive_both(t, o, link)
    except Exception as e:   # noqa
        ctx.inconc("harness exception driving %s: %r" % (cid, e))
        return
    ctx.ev()
    ctx.count("range_handshakes")
    W["tl"] = (t.status, repr(t.exc))
    W["ossl"] = (o.hs_done, repr(o.error))
    if t.status != "done" or not o.hs_done:
        ctx.violation(dict(key, clause="mutual_cell_failed",
                           tl=str(outcome(t)),
                           ossl=type(o.error).__name__ if o.error else "no"),
                      W, "overlapping version ranges, handshake failed: "
                      "%r / %r" % (t.exc, o.error))
        return
    if tuple(conn.version) != want or o.version() != want:
        ctx.violation(dict(key, clause="version_disagree"), W,
                      "expected %s, tlslite %r openssl %r" % (
                          want, conn.version, o.version()))
    data = mon.keystream(cid, 300)
    try:
        o.write(data)
        tr = drive.Task("r", drive.aread(conn, 300, 300), sock)
        drive_both(tr, o, link)
        if tr.status != "done" or bytes(tr.result) != data:
            ctx.violation(dict(key, clause="data_o2t_corrupt"), W,
                          "%r %r" % (tr.status, tr.exc))
    except Exception as e:   # noqa
        ctx.violation(dict(key, clause="data_o2t_corrupt"), W, repr(e))
    ctx.cell("tuple", "%s|range|%s|%s|%s" % (role, key["tl"], key["ossl"],
                                            pair.VNAME[want]))


def run_negative(ctx, cid, P):
    """configurations with an empty intersection must fail"""
    rng = ctx.rng
    role = P["role"]
    kind = rng.choice(["version", "suite", "group"])
    link = net.Link()
    if kind == "version":
        tv, ov = rng.choice([((3, 1), (3, 3)), ((3, 3), (3, 4)),
                             ((3, 4), (3, 2)), ((3, 2), (3, 1))])
        tset = settings(minVersion=tv, maxVersion=tv)
        octx_kw = dict(minv=ov, maxv=ov)
        sid = None
    elif kind == "suite":
        tv = ov = (3, 3)
        tset = settings(minVersion=tv, maxVersion=tv,
                        cipherNames=["aes128gcm"],
                        keyExchangeNames=["ecdhe_rsa"])
        sid = 0x009d    # RSA kx AES256-GCM on the OpenSSL side
        octx_kw = dict(minv=ov, maxv=ov, cipher_id=sid)
    else:
        tv = ov = rng.choice([(3, 3), (3, 4)])
        tset = settings(minVersion=tv, maxVersion=tv, eccCurves=["x448"],
                        keyShares=["x448"], dhGroups=[],
                        keyExchangeNames=["ecdhe_rsa"])
        octx_kw = dict(minv=ov, maxv=ov, curve="prime256v1")
    if role == "tl_client":
        sock = net.MemSock(link, "client")
        conn = TLSConnection(sock)
        octx = osslpeer.context(True, cert=KEYS["rsa"][0], key=KEYS["rsa"][1],
                                **octx_kw)
        o = osslpeer.OsslEnd(link, "server", octx)
        gen = conn.handshakeClientCert(settings=tset, async_=True)
    else:
        sock = net.MemSock(link, "server")
        conn = TLSConnection(sock)
        octx = osslpeer.context(False, **octx_kw)
        o = osslpeer.OsslEnd(link, "client", octx)
        chain, pk = creds.server("rsa")
        gen = conn.handshakeServerAsync(certChain=chain, privateKey=pk,
                                        settings=tset)
    t = drive.Task("tl", gen, sock)
    drive_both(t, o, link)
    ctx.ev()
    ctx.count("negatives")
    key = {"role": role, "neg": kind}
    W = {"case": cid, "tl": (t.status, repr(t.exc)),
         "ossl": (o.hs_done, repr(o.error))}
    if t.status == "done" and o.hs_done:
        ctx.violation(dict(key, clause="succeeded_outside_intersection"), W,
                      "handshake completed although %s sets are disjoint" %
                      kind)
    else:
        ctx.count("negatives_failed_as_expected")
        if t.status == "exc" and mon.classify_exc(t.exc).startswith("undoc"):
            ctx.violation(dict(key, clause="undocumented_exception",
                               exc=type(t.exc).__name__), W, repr(t.exc))
    ctx.cell("neg", "%s|%s|%s" % (role, kind, t.status))


def run(ctx):
    os.makedirs(os.path.join(boot.VERIF, ".work"), exist_ok=True)
    try:
        for cid, P in ctx.cases(make_cases(ctx)):
            run_case(ctx, cid, P)
    finally:
        cleanup()


def finalize(m, tier):
    out = []
    rv = m["cells"].get("role_ver", set())
    for role in ("tl_client", "tl_server"):
        for v in ("TLS1.0", "TLS1.1", "TLS1.2", "TLS1.3"):
            if "%s|%s" % (role, v) not in rv:
                out.append("no completed interop run for %s at %s" % (role, v))
    c = m["counters"]
    if c.get("negatives_failed_as_expected", 0) == 0:
        out.append("negative cells never exercised")
    if c.get("resumed", 0) == 0:
        out.append("no resumption observed against OpenSSL")
    return out
