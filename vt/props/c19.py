"""C19 - settings validation is pure and idempotent; compatible settings
connect."""
import copy

from vt import boot  # noqa
from vt import pair, policy, suites, creds, mon
from vt.pair import Pair, Flavor, outcome

from tlslite.handshakesettings import HandshakeSettings
from tlslite import errors as E

LEVEL = "exploration"
RULE = ("settings objects are drawn from the lattice of restrictions / "
        "reorderings of the defaults (plus out-of-domain values per "
        "documented field and boundary pairs); for each: deep snapshot "
        "before/after validate() (every attribute, every list's identity and "
        "content) - also when validate() raises -, validate(validate(x)) == "
        "validate(x) field-wise, every algorithm named by the output is "
        "actually instantiated (cipher, group key share, signature scheme "
        "sign/verify, compression), out-of-domain values must raise "
        "ValueError; pairs of validated settings judged 'compatible' by an "
        "independent three-valued predicate (shared version, suite for that "
        "version by IANA name, group, signature scheme usable with the "
        "Directed pairs: one value per list-valued dimension, signature "
        "policy reduced to one family, EC point format pairs, external "
        "PSKs (layouts with further keys, with HelloRetryRequest), "
        "fallback SCSV for every pair of maxima; validate() refusing a "
        "documented value is a violation; repeated list elements; "
        "defaults of fresh settings objects after others were changed "
        "in place.   "
        "server key, key sizes) must complete a handshake. "
        "distinct_nontrivial = distinct (restricted dimension set) cells + "
        "distinct out-of-domain (field, value class) cells + distinct "
        "compatible negotiated tuples.")
ASSUMPTIONS = [
    "only compatible => completes is demanded; 'unsure' pairs (virtual "
    "hosts, PSK-only, draft suites, mixed 1.3/legacy corner cases) are not "
    "judged",
]
NONTRIVIAL = ["dims", "ood", "negotiated"]
DEADLINE = {"quick": 90, "thorough": 900}


def snapshot(hs):
    snap = {}
    for k, v in vars(hs).items():
        snap[k] = (id(v) if isinstance(v, (list, dict)) else None,
                   copy.deepcopy(v) if not callable(v) else v)
    return snap


def diff_snap(a, b):
    out = []
    for k in set(a) | set(b):
        if k not in a or k not in b:
            out.append((k, "attribute set changed"))
            continue
        if a[k][0] != b[k][0]:
            out.append((k, "list identity changed"))
        if a[k][1] != b[k][1]:
            out.append((k, "value changed: %r -> %r" % (a[k][1], b[k][1])))
    return out


def fields(hs):
    return {k: v for k, v in vars(hs).items()}


def _installed_backends():
    out = {"python"}
    try:
        import M2Crypto  # noqa
        out.add("openssl")
    except Exception:   # noqa
        pass
    try:
        import Crypto.Cipher.AES  # noqa
        out.add("pycrypto")
    except Exception:   # noqa
        pass
    return out


INSTALLED_BACKENDS = _installed_backends()


# ---------------------------------------------------------------- (d)
OOD = [
    ("minKeySize", [511, 0, -1, 16385, 100000]),
    ("maxKeySize", [511, 16385, 0]),
    ("cipherNames", [["aes128", "nosuch"], ["AES128"], []]),
    ("macNames", [["sha1"], ["sha", "SHA256"], ["hmac"]]),
    ("keyExchangeNames", [["rsa", "dh"], ["ECDHE_RSA"], ["psk"]]),
    ("cipherImplementations", [["python", "rust"], ["c"], []] + [
        x for x in (["openssl", "openssl"], ["pycrypto", "openssl",
                                             "pycrypto"])
        if not (set(x) & _installed_backends())]),
    ("certificateTypes", [["openpgp"], ["x509", "raw"], []]),
    ("minVersion", [(3, 5), (2, 0), (4, 0), (3,)]),
    ("maxVersion", [(3, 5), (2, 0), (1, 0)]),
    ("rsaSigHashes", [["sha3"], ["SHA256"], ["md4"]]),
    ("rsaSchemes", [["oaep"], ["PSS"], ["pkcs1", "x"]]),
    ("dsaSigHashes", [["md5"], ["sha3_256"]]),
    ("ecdsaSigHashes", [["md5"], ["sha3"]]),
    ("more_sig_schemes", [["ed25519"], ["Ed25519", "rsa"], ["gost"]]),
    ("eccCurves", [["secp256r1", "p256"], ["curve25519"], ["x25520"]]),
    ("defaultCurve", ["p256", "curve25519", ""]),
    ("dhGroups", [["ffdhe1024"], ["modp2048"], ["ffdhe2048", "x"]]),
    ("keyShares", [["ffdhe1024"], ["nosuch"]]),
    ("useEncryptThenMAC", [None, 2, "yes"]),
    ("useExtendedMasterSecret", [None, 2, "no"]),
    ("requireExtendedMasterSecret", [None, 3]),
    ("usePaddingExtension", [None, 2]),
    ("use_heartbeat_extension", [None, 5]),
    ("record_size_limit", [63, 0, -1, 2 ** 14 + 2, 2 ** 16]),
    ("ticketCipher", ["aes128", "3des", "chacha", "aes128gcm_8"]),
    ("ticketKeys", [[b"x" * 15], [b"x" * 17], [b"x" * 31], [b"x" * 33],
                    [b""]]),
    ("ticketLifetime", [0, -1, 604801, 10 ** 9]),
    ("ticket_count", [-1, 65536, 2 ** 20]),
    ("max_early_data", [0, -1]),
    ("psk_modes", [["psk"], ["psk_ke", "psk_dhe"], ["PSK_KE"]]),
    ("pskConfigs", [[(b"id",)], [(b"id", b"s", "sha512")],
                    [(b"id", b"s", "sha256", 1)]]),
    ("ec_point_formats", [[1], [0, 3], []]),
    ("certificate_compression_send", [["gzip"], ["zlib", "lz4"]]),
    ("certificate_compression_receive", [["gzip"], ["ZLIB"]]),
    ("dc_valid_time", [604801, 10 ** 8]),
    ("dhParams", [(2,), (2, 3, 5), ("2", "5")]),
]
IN_DOMAIN = [
    ("minKeySize", [512, 1023, 16384]), ("maxKeySize", [1023, 16384]),
    ("record_size_limit", [64, 65, 2 ** 14, 2 ** 14 + 1, None]),
    ("ticketLifetime", [1, 604800]), ("ticket_count", [0, 65535]),
    ("ticketKeys", [[b"x" * 16], [b"x" * 32], []]),
    ("max_early_data", [1, 2 ** 14]),
]
COMBOS = [
    ({"requireExtendedMasterSecret": True,
      "useExtendedMasterSecret": False}, "ems"),
    ({"minVersion": (3, 3), "maxVersion": (3, 2)}, "version_order"),
    ({"minKeySize": 4096, "maxKeySize": 2048}, "keysize_order"),
    ({"keyShares": ["x448"], "eccCurves": ["secp256r1"], "dhGroups": []},
     "keyshare_not_enabled"),
    ({"heartbeat_response_callback": (lambda m: None),
      "use_heartbeat_extension": False}, "heartbeat_cb"),
    ({"rsaSigHashes": [], "ecdsaSigHashes": [], "dsaSigHashes": [],
      "more_sig_schemes": []}, "no_sig_algs"),
    ({"versions": [(3, 4)], "minVersion": (3, 4), "maxVersion": (3, 4)},
     "tls13_only_with_legacy_brainpool"),
]


WINDOWS = [((3, 0), (3, 3)), ((3, 3), (3, 3)), ((3, 0), (3, 2)),
           ((3, 1), (3, 1))]
# the rule of a combination may depend on the versions enabled: windows in
# which it still applies
WINDOWED_COMBOS = {
    # signature algorithms are needed from TLS 1.2 on
    "no_sig_algs": [((3, 0), (3, 3)), ((3, 3), (3, 3)), ((3, 2), (3, 3))],
    "ems": [((3, 1), (3, 3)), ((3, 3), (3, 3))],
    "keysize_order": [((3, 0), (3, 3)), ((3, 1), (3, 1))],
    "heartbeat_cb": [((3, 0), (3, 3)), ((3, 3), (3, 3))],
}


def make_cases(ctx):
    for i in range(ctx.pick(5000, 300000)):
        yield "s%d" % i, dict(kind="settings", i=i)
    for field, vals in OOD:
        for j, v in enumerate(vals):
            yield "ood-%s-%d" % (field, j), dict(kind="ood", field=field,
                                                 j=j)
            # the same value under narrower version windows
            for w, (lo, hi) in enumerate(WINDOWS):
                if field in ("minVersion", "maxVersion", "versions"):
                    continue
                yield "ood-%s-%d-w%d" % (field, j, w), dict(
                    kind="ood", field=field, j=j, window=[lo, hi])
    for field, vals in IN_DOMAIN:
        for j, v in enumerate(vals):
            yield "ind-%s-%d" % (field, j), dict(kind="ind", field=field,
                                                 j=j)
    for j, (d, name) in enumerate(COMBOS):
        yield "combo-%s" % name, dict(kind="combo", j=j)
        if name in WINDOWED_COMBOS:
            for w, (lo, hi) in enumerate(WINDOWED_COMBOS[name]):
                yield "combo-%s-w%d" % (name, w), dict(kind="combo", j=j,
                                                       window=[lo, hi])
    for how in ("reverse", "append", "remove_last", "remove_first", "clear"):
        yield "fresh-" + how, dict(kind="fresh", how=how)
    for i in range(ctx.pick(800, 40000)):
        yield "p%d" % i, dict(kind="pair", i=i)
    # directed pairs: one side allows a single value in one dimension (its
    # key exchange pinned so that the dimension matters), the other side
    # has the defaults; every value of every list-valued dimension, under
    # three version windows
    dims = [("eccCurves", policy.CURVES), ("dhGroups", policy.FFDHE),
            ("cipherNames", policy.ALL_CIPHERS),
            ("keyExchangeNames", policy.ALL_KX),
            ("rsaSigHashes", policy.HASHES),
            ("ecdsaSigHashes", policy.HASHES),
            ("more_sig_schemes", policy.MORE)]
    # external PSKs bound to either hash, with and without a certificate,
    # every combination of key exchange modes: compatible by construction
    for h in ("sha256", "sha384"):
        for with_cert in (True, False):
            for cm in (["psk_dhe_ke", "psk_ke"], ["psk_ke"], ["psk_dhe_ke"]):
                for sm in (["psk_dhe_ke", "psk_ke"], ["psk_ke"],
                           ["psk_dhe_ke"]):
                    if not set(cm) & set(sm):
                        continue
                    yield "psk-%s-%d-%s-%s" % (h, with_cert, "+".join(cm),
                                               "+".join(sm)), dict(
                        kind="pskpair", hash=h, cert=with_cert, cm=cm, sm=sm)
    for h in ("sha256", "sha384"):
        for cert in (True, False):
            yield "psk-%s-hrr-%d" % (h, cert), dict(
                kind="pskpair", hash=h, cert=cert, hrr=True,
                cm=["psk_dhe_ke", "psk_ke"], sm=["psk_dhe_ke", "psk_ke"])
    for kx, groups in (("dh_anon", ["ffdhe2048", "ffdhe3072", "ffdhe4096"]),
                       ("ecdh_anon", ["secp256r1", "secp384r1", "x25519"])):
        for g in groups:
            for side in ("client", "server", "both"):
                yield "anon-%s-%s-%s" % (kx, g, side), dict(
                    kind="anonpair", kx=kx, group=g, side=side)
    # the fallback signal with every pair of maximum versions: refused
    # exactly when the server could have done better
    for cmax in pair.VERSIONS:
        for smax in pair.VERSIONS:
            yield "d-scsv-%d-%d" % (cmax[1], smax[1]), dict(
                kind="dpair", side="scsv", dim="sendFallbackSCSV",
                value=[cmax, smax], window=None)
    for h in ("sha256", "sha384"):
        for lay in ("c_empty_first", "c_other_first", "c_other_last",
                    "c_three", "s_other_first", "both"):
            yield "psk-%s-%s" % (h, lay), dict(
                kind="pskpair", hash=h, cert=True, layout=lay,
                cm=["psk_dhe_ke", "psk_ke"], sm=["psk_dhe_ke", "psk_ke"])
    # EC point formats: every valid list on either side (uncompressed is
    # mandatory), ECDHE pinned, below TLS 1.3 where the extension matters
    from tlslite.constants import ECPointFormat as PF
    pf_lists = [[PF.uncompressed],
                [PF.uncompressed, PF.ansiX962_compressed_prime],
                [PF.ansiX962_compressed_prime, PF.uncompressed]]
    for ci, cl in enumerate(pf_lists):
        for si, sl in enumerate(pf_lists):
            for curve in ("secp256r1", "secp384r1", "brainpoolP256r1"):
                yield "pf-%d-%d-%s" % (ci, si, curve), dict(
                    kind="pfpair", cl=cl, sl=sl, curve=curve)
    # the whole signature policy reduced to one family (all other lists
    # emptied), on one side or on both
    sigonly = [("sigonly_rsa", ["sha256", "sha384", "sha512"]),
               ("sigonly_ecdsa", ["sha256", "sha384", "sha512"]),
               ("sigonly_more", ["Ed25519", "Ed448"])]
    for side in ("server", "client", "both"):
        for dim, values in sigonly:
            for v in values:
                for w, win in enumerate((None, [(3, 3), (3, 3)],
                                         [(3, 4), (3, 4)])):
                    yield "d-%s-%s-%s-w%d" % (side, dim, v, w), dict(
                        kind="dpair", side=side, dim=dim, value=v,
                        window=win)
    for side in ("server", "client"):
        for dim, values in dims:
            for v in values:
                for w, win in enumerate((None, [(3, 0), (3, 3)],
                                         [(3, 4), (3, 4)])):
                    yield "d-%s-%s-%s-w%d" % (side, dim, v, w), dict(
                        kind="dpair", side=side, dim=dim, value=v,
                        window=win)


def check_pure(ctx, hs, key, W):
    """validate() must not modify hs, whether it returns or raises"""
    before = snapshot(hs)
    res = exc = None
    try:
        res = hs.validate()
    except ValueError as e:
        exc = e
    except Exception as e:   # noqa
        exc = e
        ctx.violation(dict(key, clause="validate_wrong_exception",
                           exc=type(e).__name__), W, repr(e))
    after = snapshot(hs)
    d = diff_snap(before, after)
    ctx.ev()
    ctx.count("fields_snapshotted", len(before))
    if d:
        for f, why in d[:3]:
            ctx.violation(dict(key, clause="validate_mutates_receiver",
                               field=f, raised=exc is not None),
                          dict(W, change=why),
                          "validate() changed %s of the object it was "
                          "called on: %s" % (f, why))
        ctx.count("fields_changed", len(d))
    if res is not None:
        # the result must not alias mutable state it may later filter
        pass
    return res, exc


def check_idempotent(ctx, v1, key, W):
    try:
        v2 = v1.validate()
    except Exception as e:   # noqa
        ctx.violation(dict(key, clause="revalidate_raises",
                           exc=type(e).__name__), W,
                      "validate() of its own output raised %r" % (e,))
        return
    a, b = fields(v1), fields(v2)
    ctx.ev()
    bad = [k for k in a if k not in b or (a[k] != b[k] and not callable(a[k]))]
    if bad:
        ctx.violation(dict(key, clause="not_idempotent", field=bad[0]),
                      dict(W, fields=bad, first=repr(a[bad[0]]),
                           second=repr(b.get(bad[0]))),
                      "validate(validate(x)) differs from validate(x) in %s"
                      % bad)


_inst_cache = {}




def check_instantiable(ctx, v, key, W):
    """every named algorithm in the validated output can be performed"""
    from tlslite.utils import cipherfactory
    from tlslite.constants import GroupName
    from tlslite.tlsconnection import TLSConnection
    impls = v.cipherImplementations
    # back ends: only the ones this installation can import (found out here
    # by importing them, not by asking tlslite)
    for b in impls:
        if b not in INSTALLED_BACKENDS:
            ctx.ev()
            ctx.violation(dict(key, clause="unusable_algorithm",
                               what="backend:" + str(b)), W,
                          "validated settings keep cipher back end %r, "
                          "which is not installed (%r)" % (b, list(impls)))
            break
    for c in v.cipherNames:
        k = ("cipher", c, tuple(impls))
        if k in _inst_cache:
            continue
        ok = True
        try:
            if c in ("aes128", "aes256"):
                o = cipherfactory.createAES(bytearray(16 if c == "aes128"
                                                      else 32),
                                            bytearray(16), impls)
            elif c in ("aes128gcm", "aes256gcm"):
                o = cipherfactory.createAESGCM(bytearray(
                    16 if "128" in c else 32), impls)
            elif c.startswith("aes") and "ccm" in c:
                f = cipherfactory.createAESCCM_8 if c.endswith("_8") else \
                    cipherfactory.createAESCCM
                o = f(bytearray(16 if "128" in c else 32), impls)
            elif c.startswith("chacha20"):
                f = cipherfactory.createCHACHA20 if "draft" not in c else \
                    cipherfactory.createCHACHA20
                o = f(bytearray(32), impls)
            elif c == "3des":
                o = cipherfactory.createTripleDES(bytearray(24),
                                                  bytearray(8), impls)
            elif c == "rc4":
                o = cipherfactory.createRC4(bytearray(16), bytearray(0),
                                            impls)
            elif c == "null":
                o = True
            else:
                o = None
            ok = o is not None
        except Exception as e:   # noqa
            ok = False
            W = dict(W, exc=repr(e))
        _inst_cache[k] = ok
        ctx.ev()
        if not ok:
            ctx.violation(dict(key, clause="unusable_algorithm",
                               what="cipher:" + c), W,
                          "validated settings name cipher %s which cannot "
                          "be instantiated with %s" % (c, impls))
    for g in list(v.eccCurves) + list(v.dhGroups):
        k = ("group", g)
        if k in _inst_cache:
            continue
        try:
            gid = getattr(GroupName, g)
            kex = TLSConnection._getKEX(gid, (3, 3))
            priv = kex.get_random_private_key()
            pub = kex.calc_public_value(priv)
            ok = bool(pub)
        except Exception as e:   # noqa
            ok = False
            W = dict(W, exc=repr(e))
        _inst_cache[k] = ok
        ctx.ev()
        if not ok:
            ctx.violation(dict(key, clause="unusable_algorithm",
                               what="group:" + g), W,
                          "validated settings name group %s which cannot be "
                          "used" % g)
    import hashlib
    for h in set(list(v.rsaSigHashes) + list(v.ecdsaSigHashes) +
                 list(v.dsaSigHashes)):
        k = ("hash", h)
        if k in _inst_cache:
            continue
        try:
            hashlib.new(h, b"x").digest()
            ok = True
        except Exception:   # noqa
            ok = False
        _inst_cache[k] = ok
        ctx.ev()
        if not ok:
            ctx.violation(dict(key, clause="unusable_algorithm",
                               what="hash:" + h), W, "")
    for lst, suffix in ((v.certificate_compression_send, "_compress"),
                        (v.certificate_compression_receive, "_decompress")):
        for c in lst:
            k = ("comp", c, suffix)
            if k in _inst_cache:
                continue
            from tlslite.utils.compression import compression_algo_impls
            ok = c == "zlib" or bool(compression_algo_impls.get(c + suffix))
            _inst_cache[k] = ok
            ctx.ev()
            if not ok:
                ctx.violation(dict(key, clause="unusable_algorithm",
                                   what="compression:" + c + suffix), W, "")


def run_settings(ctx, cid, P):
    rng = ctx.rng
    d = policy.gen(rng, p_keep=rng.choice([0.2, 0.5, 0.8]))
    # sometimes inject one out-of-domain value to exercise the raise path
    if rng.random() < 0.2:
        f, vals = rng.choice(OOD)
        d[f] = copy.deepcopy(rng.choice(vals))
    hs = policy.build(d)
    key = {"kind": "settings"}
    W = {"case": cid, "overrides": d}
    res, exc = check_pure(ctx, hs, key, W)
    ctx.count("validated")
    if res is not None:
        ctx.count("valid")
        check_idempotent(ctx, res, key, W)
        check_instantiable(ctx, res, key, W)
        # the output shares no mutable list with the input that a later
        # validate of either could filter: mutate output, input unchanged
        before = snapshot(hs)
        for k2, v2 in vars(res).items():
            if isinstance(v2, list) and v2:
                try:
                    v2.append(v2[0])
                    v2.pop()
                except Exception:   # noqa
                    pass
        ctx.cell("dims", "+".join(sorted(d)))
    else:
        ctx.count("rejected")
    if len(ctx.samples) < 3:
        ctx.sample({"case": cid, "overrides": d, "valid": res is not None,
                    "error": repr(exc) if exc else None})


def run_ood(ctx, cid, P):
    kind = P["kind"]
    if kind == "combo":
        d, name = COMBOS[P["j"]]
        field = name
        val = d
        hs = HandshakeSettings()
        for k, v in d.items():
            setattr(hs, k, copy.deepcopy(v) if not callable(v) else v)
        expect_raise = True
    else:
        table = OOD if kind == "ood" else IN_DOMAIN
        field = P["field"]
        val = dict(table)[field][P["j"]]
        hs = HandshakeSettings()
        setattr(hs, field, copy.deepcopy(val))
        if field == "maxKeySize" and isinstance(val, int) and val < 1023 \
                and kind == "ind":
            hs.minKeySize = 512
        if field == "minKeySize" and kind == "ind":
            hs.maxKeySize = 16384
        expect_raise = kind == "ood"
    if P.get("window"):
        hs.minVersion, hs.maxVersion = (tuple(x) for x in P["window"])
    key = {"kind": kind, "field": field}
    W = {"case": cid, "field": field, "value": repr(val),
         "window": P.get("window")}
    res, exc = check_pure(ctx, hs, key, W)
    ctx.count("ood_trials" if expect_raise else "ind_trials")
    if expect_raise:
        if exc is None:
            ctx.violation(dict(key, clause="out_of_domain_accepted"), W,
                          "validate() accepted %s=%r" % (field, val))
        elif not isinstance(exc, ValueError):
            ctx.violation(dict(key, clause="out_of_domain_wrong_exception",
                               exc=type(exc).__name__), W,
                          "validate() raised %r for %s=%r" % (exc, field,
                                                              val))
        else:
            ctx.count("ood_rejected")
        ctx.cell("ood", "%s|%s" % (field, type(val).__name__ +
                                   str(P.get("j"))))
    else:
        if exc is not None:
            ctx.violation(dict(key, clause="in_domain_rejected"), W,
                          "validate() rejected boundary value %s=%r: %r" % (
                              field, val, exc))
        else:
            ctx.count("ind_accepted")
            check_idempotent(ctx, res, key, W)


# ---------------------------------------------------------------- (e)
KEYTYPES = {"rsa": "rsa", "rsapss": "rsa-pss", "ecdsa256": "ecdsa",
            "ecdsa384": "ecdsa", "ecdsa521": "ecdsa", "ed25519": "eddsa",
            "ed448": "eddsa", "dsa": "dsa"}
CERT_CURVE = {"ecdsa256": "secp256r1", "ecdsa384": "secp384r1",
              "ecdsa521": "secp521r1"}
KEYBITS = {"rsa": 2048, "rsapss": 2048, "dsa": 2048}


def workable(vc, vs, skey, ver):
    """-> Suite usable at `ver` with the server key under both settings, or
    None.  Works from IANA names and registry semantics only."""
    ktype = KEYTYPES[skey]
    for sid in suites.NEGOTIABLE:
        su = suites.TABLE[sid]
        if not su.defined_for(ver):
            continue
        if su.cipher not in vc.cipherNames or su.cipher not in vs.cipherNames:
            continue
        if su.mac not in vc.macNames or su.mac not in vs.macNames:
            continue
        if su.name.startswith("TLS_DHE_DSS") and su.mac == "sha256":
            continue
        if not su.tls13:
            if su.kx_setting not in vc.keyExchangeNames or \
                    su.kx_setting not in vs.keyExchangeNames:
                continue
            if su.kx_setting in ("srp_sha", "srp_sha_rsa", "dh_anon",
                                 "ecdh_anon"):
                continue
            need = {"rsa": ("rsa",), "dsa": ("dsa",),
                    "ecdsa": ("ecdsa", "eddsa")}[su.auth]
            if ktype == "rsa-pss":
                if su.auth != "rsa" or su.kx_setting == "rsa":
                    continue
            elif ktype not in need:
                continue
        # group
        if su.tls13 or su.ske == "ecdh":
            cg = [g for g in vc.eccCurves if g in vs.eccCurves]
            if su.tls13:
                cg = [g for g in cg if g in policy.TLS13_GROUPS] + \
                    [g for g in vc.dhGroups if g in vs.dhGroups]
            else:
                cg = [g for g in cg if not g.endswith("tls13")]
            if not cg:
                continue
        if ver == (3, 0) and su.ske == "ecdh" and \
                vs.defaultCurve not in vc.eccCurves:
            # SSLv3 has no extensions: the server falls back to its default
            # curve, which the client must allow
            continue
        # signature scheme (the property demands a shared one, whatever
        # the key exchange)
        if ver >= (3, 3):
            okscheme = False
            if ktype == "rsa":
                hs_ = [h for h in vc.rsaSigHashes if h in vs.rsaSigHashes]
                sch = [x for x in vc.rsaSchemes if x in vs.rsaSchemes]
                pss_h = [h for h in hs_ if h in ("sha256", "sha384",
                                                 "sha512")]
                okscheme = ("pss" in sch and bool(pss_h)) or \
                    ("pkcs1" in sch and bool(hs_) and ver < (3, 4))
            elif ktype == "rsa-pss":
                hs_ = [h for h in vc.rsaSigHashes if h in vs.rsaSigHashes
                       and h in ("sha256", "sha384", "sha512")]
                okscheme = bool(hs_) and "pss" in vc.rsaSchemes and \
                    "pss" in vs.rsaSchemes
            elif ktype == "ecdsa":
                hs_ = [h for h in vc.ecdsaSigHashes
                       if h in vs.ecdsaSigHashes]
                if ver == (3, 4):
                    want = {"ecdsa256": "sha256", "ecdsa384": "sha384",
                            "ecdsa521": "sha512"}[skey]
                    hs_ = [h for h in hs_ if h == want]
                okscheme = bool(hs_)
            elif ktype == "eddsa":
                nm = "Ed25519" if skey == "ed25519" else "Ed448"
                okscheme = nm in vc.more_sig_schemes and \
                    nm in vs.more_sig_schemes
            elif ktype == "dsa":
                okscheme = ver < (3, 4) and bool(
                    [h for h in vc.dsaSigHashes if h in vs.dsaSigHashes])
            if not okscheme:
                continue
        else:
            if ktype in ("eddsa", "rsa-pss"):
                continue
            # fixed SHA-1 signatures below TLS 1.2: both must allow sha1
            if ktype == "ecdsa" and not ("sha1" in vc.ecdsaSigHashes and
                                         "sha1" in vs.ecdsaSigHashes):
                continue
            if ktype == "dsa" and not ("sha1" in vc.dsaSigHashes and
                                       "sha1" in vs.dsaSigHashes):
                continue
            if ktype == "rsa" and not (vc.rsaSigHashes and vs.rsaSigHashes
                                       and "pkcs1" in vc.rsaSchemes and
                                       "pkcs1" in vs.rsaSchemes):
                continue
        if ktype == "ecdsa" and ver < (3, 4) and \
                CERT_CURVE[skey] not in vc.eccCurves:
            continue
        if skey in KEYBITS and not (vc.minKeySize <= KEYBITS[skey] <=
                                    vc.maxKeySize):
            continue
        if ver < (3, 4) and ver > (3, 0):
            if vc.requireExtendedMasterSecret and \
                    not vs.useExtendedMasterSecret:
                continue
            if vs.requireExtendedMasterSecret and \
                    not vc.useExtendedMasterSecret:
                continue
        if ver == (3, 0) and (vc.requireExtendedMasterSecret or
                              vs.requireExtendedMasterSecret):
            continue
        if su.ske == "dh" and not su.tls13:
            if vc.dhGroups:
                # RFC 7919: a client that names FFDHE groups gets DHE only
                # with one of them
                if not [g for g in vc.dhGroups if g in vs.dhGroups]:
                    continue
            elif not (vc.minKeySize <= 2048 <= vc.maxKeySize):
                continue
        return su
    return None


def compatible(vc, vs, skey):
    """three-valued: (True, (ver, suite, mech)) / (False, why) / (None, why)

    Version negotiation as RFC 8446 4.2.1 prescribes: if the client sends
    supported_versions the server picks its most preferred version from it,
    otherwise min(client max, server max)."""
    def in_range(s, v):
        return s.minVersion <= v <= s.maxVersion
    ext = any(v > (3, 3) for v in vc.versions)
    if ext:
        offered = [v for v in vc.versions if in_range(vc, v)]
        srv = [v for v in vs.versions if in_range(vs, v)]
        common = [v for v in srv if v in offered]
        nv = common[0] if common else None
    else:
        offered = [v for v in pair.VERSIONS if in_range(vc, v)]
        common = [v for v in offered if in_range(vs, v)]
        nv = max(common) if common else None
        if nv is not None and nv > (3, 3):
            nv = (3, 3) if (3, 3) in common else None
    # odd but valid configurations whose meaning the documentation does not
    # settle: a side whose range includes 1.3 but whose `versions` does not
    for s in (vc, vs):
        if in_range(s, (3, 4)) and (3, 4) not in s.versions:
            return None, "1.3 inside min/max but not in versions"
        if ext and s.maxVersion not in s.versions and \
                s.maxVersion > (3, 0):
            # the downgrade sentinel is driven by maxVersion, the choice by
            # `versions`: their disagreement is a configuration question
            return None, "maxVersion not in versions"
    if not common:
        return False, "no common version"
    if getattr(vc, "sendFallbackSCSV", False) and nv is not None and \
            nv < vs.maxVersion:
        # RFC 7507: a client that says it fell back is refused by a server
        # that could have done better
        return False, "fallback SCSV below the server's best version"
    if vs.defaultCurve not in vs.eccCurves:
        return None, "server defaultCurve is not among its eccCurves"
    if nv == (3, 0) and vs.defaultCurve not in vc.eccCurves and \
            any(k.startswith(("ecdhe", "ecdh_")) and k in vs.keyExchangeNames
                for k in vc.keyExchangeNames):
        # an SSLv3 hello cannot say which curves the client accepts: a
        # server that picks an ECDHE suite uses its default curve, and a
        # client restricted to other curves refuses it although an RSA or
        # DHE suite would have worked - a configuration question
        return None, "SSLv3 client restricted to curves it cannot announce"
    if nv is not None and nv < max(common) and \
            any((3, 4) in x.versions for x in (vc, vs)):
        # a server preferring an older version than the best common one
        # writes the downgrade sentinel, which a 1.3-capable client must
        # refuse: a configuration question, not judged
        return None, "server prefers a version below the best common one"
    work = [(v, workable(vc, vs, skey, v)) for v in common]
    work = [(v, su) for v, su in work if su is not None]
    if not work:
        return False, "no common suite/group/scheme for any common version"
    for v, su in work:
        if v == nv:
            return True, (v, su, "negotiated_version_workable")
    # they do share a version with everything needed, but the version the
    # server commits to first is not it
    return True, (work[0][0], work[0][1], "version_committed_first")


def directed(P, rng):
    """settings of a directed pair -> (cd, cs, sd, ss, skey) or None"""
    dim, v = P["dim"], P["value"]
    if dim == "sendFallbackSCSV":
        cd = {"sendFallbackSCSV": True, "minVersion": (3, 0),
              "maxVersion": tuple(v[0])}
        sd = {"minVersion": (3, 0), "maxVersion": tuple(v[1])}
        return cd, policy.build(cd), sd, policy.build(sd), "rsa"
    d = {dim: [v]}
    skey = "rsa"
    if dim.startswith("sigonly_"):
        d = {"rsaSigHashes": [], "ecdsaSigHashes": [], "dsaSigHashes": [],
             "more_sig_schemes": []}
        fam = dim.split("_")[1]
        d[{"rsa": "rsaSigHashes", "ecdsa": "ecdsaSigHashes",
           "more": "more_sig_schemes"}[fam]] = [v]
        skey = {"rsa": "rsa", "ecdsa": {"sha256": "ecdsa256",
                                        "sha384": "ecdsa384",
                                        "sha512": "ecdsa521"}.get(v),
                "more": v.lower()}[fam]
    elif dim == "eccCurves":
        d["dhGroups"] = []
        d["keyExchangeNames"] = ["ecdhe_rsa"]
        d["keyShares"] = [v] if v in policy.TLS13_GROUPS else []
        d["defaultCurve"] = v
    elif dim == "dhGroups":
        d["eccCurves"] = []
        d["keyExchangeNames"] = ["dhe_rsa"]
        d["keyShares"] = [v]
    elif dim == "ecdsaSigHashes":
        skey = rng.choice(["ecdsa256", "ecdsa384", "ecdsa521"])
    elif dim == "more_sig_schemes":
        skey = {"Ed25519": "ed25519", "Ed448": "ed448"}.get(v, "rsa")
    elif dim == "keyExchangeNames":
        skey = {"ecdhe_ecdsa": "ecdsa256", "dhe_dsa": "dsa"}.get(v, "rsa")
    if P.get("window"):
        d["minVersion"], d["maxVersion"] = (tuple(x) for x in P["window"])
    hs = policy.build(d)
    try:
        hs.validate()
    except ValueError as e:
        # every value used here is from the documented domain of its
        # setting and the pinned companions keep the object consistent
        return e
    other = HandshakeSettings()
    if P["side"] == "both":
        return d, hs, d, policy.build(d), skey
    if P["side"] == "server":
        return {}, other, d, hs, skey
    return d, hs, {}, other, skey


def run_pskpair(ctx, cid, P):
    from vt import creds
    psk = (creds.PSK_ID, creds.PSK_SECRET, P["hash"])
    cs = HandshakeSettings()
    ss = HandshakeSettings()
    cs.pskConfigs = [psk]
    ss.pskConfigs = [psk]
    # further keys beside the shared one, on either side, in any position
    # (an entry with an empty identity is accepted by validate() and is not
    # offered; unknown identities are passed over by the server)
    other = (b"some-other-identity", b"\x07" * 32, "sha256")
    other384 = (b"other-identity-384", b"\x08" * 48, "sha384")
    empty = (b"", b"\x09" * 32, "sha256")
    lay = P.get("layout", "plain")
    if lay == "c_empty_first":
        cs.pskConfigs = [empty, psk]
    elif lay == "c_other_first":
        cs.pskConfigs = [other, psk]
    elif lay == "c_other_last":
        cs.pskConfigs = [psk, other384]
    elif lay == "c_three":
        cs.pskConfigs = [other, empty, psk, other384]
    elif lay == "s_other_first":
        ss.pskConfigs = [other384, other, psk]
    elif lay == "both":
        cs.pskConfigs = [other, psk]
        ss.pskConfigs = [other384, psk]
    if P.get("hrr"):
        # no key share in the first ClientHello: HelloRetryRequest, and the
        # binders of the second ClientHello cover the retry
        cs.keyShares = []
    cs.psk_modes = list(P["cm"])
    ss.psk_modes = list(P["sm"])
    try:
        cs.validate()
        ss.validate()
    except ValueError:
        ctx.count("directed_invalid")
        return
    fl = Flavor("psk", skey="rsa" if P["cert"] else None, cset=cs, sset=ss)
    p = Pair()
    tc, ts = p.handshake(fl)
    ctx.ev()
    ctx.count("pairs")
    ctx.count("psk_pairs")
    W = {"case": cid, "params": {k: P.get(k) for k in ("hash", "cert", "cm",
                                                       "sm", "layout")},
         "outcome": [outcome(tc), outcome(ts)]}
    if tc.status != "done" or ts.status != "done":
        e = ts.exc if ts.exc is not None else tc.exc
        ctx.violation({"clause": "compatible_but_failed", "mech": "psk",
                       "ver": "TLS1.3", "keytype": "psk/" + P["hash"],
                       "server": str(outcome(ts)),
                       "client": str(outcome(tc)), "msg": str(e)[:60]}, W,
                      "both sides hold the same PSK (%s) and share a key "
                      "exchange mode: %r / %r" % (P["hash"], tc.exc, ts.exc))
    else:
        ctx.count("compatible_connected")
        ctx.cell("negotiated", "TLS1.3|psk|%s|%s" % (
            P["hash"], suites.TABLE[p.c.session.cipherSuite].name))


def run_anonpair(ctx, cid, P):
    """the anonymous entry points (handshakeClientAnonymous /
    handshakeServer(anon=True)) honour the group settings like the others:
    a group only one side would have to guess is never needed"""
    kx, g, side = P["kx"], P["group"], P["side"]
    fam = "dhGroups" if kx == "dh_anon" else "eccCurves"
    base = dict(minVersion=(3, 1), maxVersion=(3, 3), keyExchangeNames=[kx])
    cd, sd = dict(base), dict(base)
    one = {fam: [g]}
    if fam == "dhGroups":
        bits = int(g[5:])
        if side in ("client", "both"):
            cd["minKeySize"] = bits - 8     # smaller groups are refused
    else:
        one["defaultCurve"] = g
    if side in ("client", "both"):
        cd.update(one)
    if side in ("server", "both"):
        sd.update(one)
    for d in (cd, sd):
        d["keyShares"] = []
    cs, ss = policy.build(cd), policy.build(sd)
    try:
        cs.validate()
        ss.validate()
    except ValueError as e:
        ctx.ev()
        ctx.violation({"clause": "in_domain_rejected", "dim": "anon:" + fam,
                       "window": "None"}, {"case": cid, "error": repr(e)},
                      "validate() refuses %r / %r: %r" % (cd, sd, e))
        return
    p = Pair()
    tc, ts = p.handshake(Flavor("anon", skey=None, cset=cs, sset=ss))
    ctx.ev()
    ctx.count("pairs")
    ctx.count("anon_pairs")
    W = {"case": cid, "client": cd, "server": sd,
         "outcome": [outcome(tc), outcome(ts)]}
    if tc.status != "done" or ts.status != "done":
        e = ts.exc if ts.exc is not None else tc.exc
        ctx.violation({"clause": "compatible_but_failed", "mech": "anon",
                       "ver": "TLS1.2", "keytype": "anon/" + kx,
                       "server": str(outcome(ts)),
                       "client": str(outcome(tc)), "msg": str(e)[:60]}, W,
                      "both anonymous endpoints allow %s: %r / %r" % (
                          g, tc.exc, ts.exc))
        return
    ctx.count("compatible_connected")
    if fam == "dhGroups" and p.c.dhGroupSize != bits:
        ctx.violation({"clause": "negotiated_outside_settings",
                       "mech": "anon", "dim": "dhGroups"},
                      dict(W, got=p.c.dhGroupSize),
                      "anonymous DH settled on %r bits although %s was the "
                      "only group allowed by the %s" % (p.c.dhGroupSize, g,
                                                        side))
    ctx.cell("negotiated", "TLS1.2|anon|%s|%s" % (kx, g))


def run_pfpair(ctx, cid, P):
    kw = dict(minVersion=(3, 1), maxVersion=(3, 3),
              keyExchangeNames=["ecdhe_rsa"], eccCurves=[P["curve"]],
              defaultCurve=P["curve"], keyShares=[])
    cs = policy.build(dict(kw, ec_point_formats=list(P["cl"])))
    ss = policy.build(dict(kw, ec_point_formats=list(P["sl"])))
    try:
        cs.validate()
        ss.validate()
    except ValueError:
        ctx.count("directed_invalid")
        return
    p = Pair()
    tc, ts = p.handshake(Flavor("cert", skey="rsa", cset=cs, sset=ss))
    ctx.ev()
    ctx.count("pairs")
    ctx.count("point_format_pairs")
    W = {"case": cid, "client_formats": P["cl"], "server_formats": P["sl"],
         "curve": P["curve"], "outcome": [outcome(tc), outcome(ts)]}
    if tc.status != "done" or ts.status != "done":
        e = ts.exc if ts.exc is not None else tc.exc
        ctx.violation({"clause": "compatible_but_failed",
                       "mech": "ec_point_formats", "ver": "TLS1.2",
                       "keytype": "rsa", "server": str(outcome(ts)),
                       "client": str(outcome(tc)), "msg": str(e)[:60]}, W,
                      "both sides allow the uncompressed format: %r / %r" % (
                          tc.exc, ts.exc))
    else:
        ctx.count("compatible_connected")


def run_pair(ctx, cid, P):
    rng = ctx.rng
    if P["kind"] == "anonpair":
        return run_anonpair(ctx, cid, P)
    if P["kind"] == "pfpair":
        return run_pfpair(ctx, cid, P)
    if P["kind"] == "pskpair":
        return run_pskpair(ctx, cid, P)
    if P["kind"] == "dpair":
        r = directed(P, rng)
        if isinstance(r, Exception):
            ctx.ev()
            ctx.violation({"clause": "in_domain_rejected", "dim": P["dim"],
                           "window": str(P.get("window"))},
                          {"case": cid, "params": P, "error": repr(r)},
                          "validate() refuses a restriction of the defaults "
                          "to documented values (%s=%s): %r" % (
                              P["dim"], P["value"], r))
            return
        cd, cs, sd, ss, skey = r
        ctx.count("directed_pairs")
    else:
        p_keep = rng.choice([0.5, 0.7, 0.85])
        cd, cs = policy.gen_valid(rng, p_keep=p_keep)
        sd, ss = policy.gen_valid(rng, p_keep=p_keep)
        skey = rng.choice(list(KEYTYPES))
    try:
        vc, vs = cs.validate(), ss.validate()
    except ValueError:
        return
    verdict, why = compatible(vc, vs, skey)
    ctx.ev()
    ctx.count("pairs")
    ctx.count("pred:%s" % verdict)
    if verdict is not True:
        return
    # client key shares absent for every common group => HRR path, fine
    fl = Flavor("cert", skey=skey, cset=cs, sset=ss)
    p = Pair()
    tc, ts = p.handshake(fl)
    both = tc.status == "done" and ts.status == "done"
    ver, su, mech = why
    W = {"case": cid, "client": cd, "server": sd, "skey": skey,
         "mechanism": mech,
         "predicted": [pair.VNAME[ver], su.name],
         "outcome": [outcome(tc), outcome(ts)]}
    if not both:
        e = ts.exc if ts.exc is not None else tc.exc
        msg = str(e)
        ctx.violation({"clause": "compatible_but_failed", "mech": mech,
                       "ver": pair.VNAME[ver], "keytype": KEYTYPES[skey],
                       "server": str(outcome(ts)), "client": str(outcome(tc)),
                       "msg": msg[:60]}, W,
                      "settings judged compatible (%s, %s) failed to "
                      "connect: %r / %r" % (pair.VNAME[ver], su.name,
                                            tc.exc, ts.exc))
    else:
        ctx.count("compatible_connected")
        ctx.cell("negotiated", "%s|%s" % (pair.VNAME[tuple(p.c.version)],
                                         suites.TABLE[
                                             p.c.session.cipherSuite].name))


def run_fresh(ctx, cid, P):
    """what an application does to one settings object (restricting its
    lists in place, the documented way of configuring) must not show in
    another one: a fresh HandshakeSettings() always has the same defaults,
    also after objects made before were changed or validated"""
    def values(hs):
        return {k: copy.deepcopy(v) for k, v in vars(hs).items()
                if not callable(v)}
    before = values(HandshakeSettings())
    vbefore = values(HandshakeSettings().validate())
    rng = ctx.rng
    victims = [HandshakeSettings(), HandshakeSettings().validate(),
               HandshakeSettings().validate().validate()]
    for hs in victims:
        for k, v in sorted(vars(hs).items()):
            if isinstance(v, list) and v:
                how = P["how"]
                try:
                    if how == "remove_last":
                        v.remove(v[-1])
                    elif how == "remove_first":
                        del v[0]
                    elif how == "clear":
                        del v[:]
                    elif how == "reverse":
                        v.reverse()
                    elif how == "append":
                        v.append(v[0])
                except Exception:   # noqa
                    pass
    ctx.ev()
    ctx.count("fresh_defaults_checked")
    after = values(HandshakeSettings())
    key = {"kind": "fresh", "how": P["how"]}
    bad = sorted(k for k in before if before[k] != after.get(k))
    if bad:
        ctx.violation(dict(key, clause="defaults_shared_between_objects",
                           field=bad[0]),
                      {"case": cid, "fields": bad,
                       "before": repr(before[bad[0]]),
                       "after": repr(after.get(bad[0]))},
                      "changing one settings object in place changed the "
                      "defaults of new ones: %s" % bad)
        return
    try:
        vafter = values(HandshakeSettings().validate())
    except Exception as e:   # noqa
        ctx.violation(dict(key, clause="defaults_shared_between_objects",
                           field="validate"), {"case": cid, "exc": repr(e)},
                      "default settings no longer validate: %r" % (e,))
        return
    bad = sorted(k for k in vbefore if vbefore[k] != vafter.get(k))
    if bad:
        ctx.violation(dict(key, clause="defaults_shared_between_objects",
                           field=bad[0], validated=True),
                      {"case": cid, "fields": bad,
                       "before": repr(vbefore[bad[0]]),
                       "after": repr(vafter.get(bad[0]))},
                      "validated defaults changed: %s" % bad)


def run(ctx):
    for cid, P in ctx.cases(make_cases(ctx)):
        k = P["kind"]
        if k == "fresh":
            run_fresh(ctx, cid, P)
            continue
        if k == "settings":
            run_settings(ctx, cid, P)
        elif k in ("ood", "ind", "combo"):
            run_ood(ctx, cid, P)
        else:
            run_pair(ctx, cid, P)


def finalize(m, tier):
    out = []
    c = m["counters"]
    if c.get("valid", 0) < 500:
        out.append("fewer than 500 valid settings objects")
    if c.get("ood_rejected", 0) < 50:
        out.append("fewer than 50 out-of-domain rejections")
    if c.get("fresh_defaults_checked", 0) < 5:
        out.append("defaults of fresh settings objects not re-checked")
    if c.get("compatible_connected", 0) < 50:
        out.append("fewer than 50 compatible pairs connected")
    return out
