"""C12 - the CBC MAC-and-padding check accepts exactly the well-formed records.

Differential oracle: tlslite.utils.constanttime.ct_check_cbc_mac_and_pad and
RecordLayer.recvRecord()/sendRecord() against a deliberately naive
specification written here on top of hashlib only (own HMAC, own RFC 6101
MAC, slicing by the last byte)."""
from vt import boot  # noqa
import hashlib

from tlslite.utils.constanttime import ct_check_cbc_mac_and_pad
from tlslite.mathtls import createHMAC, createMAC_SSL, calc_key
from tlslite.recordlayer import RecordLayer
from tlslite.errors import TLSBadRecordMAC
from tlslite.utils.cipherfactory import createAES, createTripleDES
from tlslite.messages import Message
from tlslite.utils import tlshashlib

LEVEL = "exploration"
EXHAUSTIVE = {"quick": False, "thorough": True}
RULE = ("function level: one case = (MAC, version, length residue); for every "
        "body length 0..340 in the residue class and every value of the last "
        "byte (all 256 in thorough, a seeded edge-biased subset in quick) the "
        "repository's boolean is compared with the naive specification on: a "
        "well-formed body when one exists (random content/key/seq/type, "
        "correct MAC, padding per version), rotating single-byte corruptions "
        "of it (MAC byte, first/middle/last padding byte, length byte +-1, "
        "first/last content byte), an arbitrary body, and for cells with no "
        "well-formed body the crafted 'clamp' bodies (MAC of the empty "
        "content at offset 0 overlapped by the padding, sequence number "
        "searched so the overlapping MAC bytes equal the padding value).  "
        "block_size is 8 and 16 for SSLv3 (where it matters) and alternates "
        "for TLS.  record level: one case = (suite, version, EtM, group of "
        "content lengths); an independent sender (own MAC, every legal "
        "padding length, own CBC framing, explicit IV >= TLS 1.1) feeds "
        "recvRecord() of an identically keyed receiver, positive and "
        "single-byte-corrupted; sendRecord() output is decrypted and judged "
        "by the specification.  distinct_nontrivial counts distinct "
        "(mac,version,length,last byte) function cells plus distinct "
        "(suite,version,EtM,content length,pad length) record cells.  "
        "window cases: for every MAC and TLS version, padding lengths "
        "224..255 (96..255 thorough) against every alignment of the body "
        "with the hash block (well-formed, MAC/padding/content corrupted).  "
        "record streams start two records before a carry of the 64-bit "
        "sequence number (2^8 .. 2^63) on both the read and the write side.")
ASSUMPTIONS = [
    "SSLv3 padding length p == block_size is a don't-care (RFC 6101 wording "
    "admits both readings); p > block_size must be rejected, padding bytes "
    "are arbitrary in SSLv3",
    "SSLv3 with SHA-256/SHA-384 has no RFC 6101 MAC: those function-level "
    "cells pass an HMAC object with the SSLv3 header layout (synthetic)",
    "record level uses the CBC suites tlslite defines (3DES/AES x SHA-1 for "
    "all four versions, AES x SHA-256/SHA-384 for TLS 1.2); there is no "
    "CBC+MD5 suite, MD5 is covered at function level only",
    "encrypt-then-MAC is exercised for TLS 1.0-1.2 only",
    "python cipher implementations; key block from tlslite.mathtls.calc_key "
    "(the PRF is C09's subject), sliced by the harness",
    "timing behaviour of the check is out of scope",
]
NONTRIVIAL = ["fcell", "rcell"]
DEADLINE = {"quick": 450, "thorough": 1500}

MACS = {"md5": hashlib.md5, "sha1": hashlib.sha1, "sha256": hashlib.sha256,
        "sha384": hashlib.sha384}
VERS = [(3, 0), (3, 1), (3, 2), (3, 3)]
VNAME = {(3, 0): "ssl3", (3, 1): "tls10", (3, 2): "tls11", (3, 3): "tls12"}
MAXLEN = 340
RESIDUES = 20
CTYPES = [20, 21, 22, 23, 23, 23, 24, 0, 255]


_SEEN = {}


def viol(ctx, key, wit, msg):
    """at most 3 witnesses per distinct key and shard (a shard result keeps
    only its first 200 violations; later distinct keys must not be lost)"""
    k = repr(sorted(key.items()))
    n = _SEEN.get(k, 0)
    _SEEN[k] = n + 1
    if n < 3:
        ctx.violation(key, wit, msg)
    else:
        ctx.count("violations_suppressed_duplicates")


# --------------------------------------------------------------------------
# specification (independent: hashlib only)
# --------------------------------------------------------------------------
def own_hmac(hf, key, msg):
    bs = hf().block_size
    if len(key) > bs:
        key = hf(key).digest()
    key = key + b"\0" * (bs - len(key))
    return hf(bytes(b ^ 0x5c for b in key) +
              hf(bytes(b ^ 0x36 for b in key) + msg).digest()).digest()


def own_ssl3_mac(hf, key, msg):
    n = 48 if hf is hashlib.md5 else 40
    return hf(key + b"\x5c" * n + hf(key + b"\x36" * n + msg).digest()).digest()


def is_real_ssl3(macname, ver):
    return ver == (3, 0) and macname in ("md5", "sha1")


def spec_mac(macname, ver, key, seq, ctype, content):
    hf = MACS[macname]
    hdr = bytes(seq) + bytes([ctype])
    if ver != (3, 0):
        hdr += bytes(ver)
    hdr += len(content).to_bytes(2, "big")
    if is_real_ssl3(macname, ver):
        return own_ssl3_mac(hf, bytes(key), hdr + bytes(content))
    return own_hmac(hf, bytes(key), hdr + bytes(content))


def spec_check(body, macname, key, seq, ctype, ver, block):
    """True / False / None (don't care)"""
    body = bytes(body)
    n = len(body)
    maclen = MACS[macname]().digest_size
    if n == 0:
        return False
    p = body[-1]
    if n < p + 1 + maclen:
        return False
    dontcare = False
    if ver == (3, 0):
        if p > block:
            return False
        if p == block:
            dontcare = True
    else:
        for b in body[n - 1 - p:n - 1]:
            if b != p:
                return False
    content = body[:n - 1 - p - maclen]
    mac = body[n - 1 - p - maclen:n - 1 - p]
    if spec_mac(macname, ver, key, seq, ctype, content) != mac:
        return False
    return None if dontcare else True


def lib_mac(macname, ver, key):
    """the MAC object exactly as RecordLayer.calcPendingStates builds it
    (digestmod taken from tlslite's tlshashlib, like _getMacSettings)"""
    dm = getattr(tlshashlib, macname)
    if is_real_ssl3(macname, ver):
        return createMAC_SSL(bytes(key), digestmod=dm)
    return createHMAC(bytes(key), digestmod=dm)


# --------------------------------------------------------------------------
# function level
# --------------------------------------------------------------------------
def region(n, p, maclen):
    if n < maclen + 1:
        return "shorter_than_mac+1"
    if n < p + 1 + maclen:
        return "pad_exceeds_body"
    return "fits"


def judge(ctx, st, body, kind, expect_kind=None):
    """evaluate both sides on one body, record, compare"""
    macname, ver, block = st["mac"], st["ver"], st["block"]
    want = spec_check(body, macname, st["key"], st["seq"], st["ctype"], ver,
                      block)
    fam = "ssl3" if ver == (3, 0) else "tls"
    n = len(body)
    p = body[-1] if n else -1
    reg = region(n, p, st["maclen"])
    a_body, a_seq = bytearray(body), bytearray(st["seq"])
    try:
        got = ct_check_cbc_mac_and_pad(a_body, st["libmac"], a_seq,
                                       st["ctype"], ver, block)
        if a_body != bytearray(body) or a_seq != bytearray(st["seq"]):
            # a caller that keeps its buffers (a receive loop re-using the
            # sequence number bytes) gets wrong answers from then on
            viol(ctx, {"clause": "func_mutates_argument", "fam": fam,
                       "arg": "data" if a_body != bytearray(body)
                       else "seqnumBytes"},
                 wit(st, body, want, got),
                 "ct_check_cbc_mac_and_pad changed its %s argument" % (
                     "data" if a_body != bytearray(body) else "seqnumBytes"))
    except Exception as e:   # noqa
        ctx.ev()
        viol(ctx, {"clause": "func_exception", "exc": type(e).__name__,
                       "fam": fam, "body": kind, "region": reg},
                      wit(st, body, want, None),
                      "ct_check_cbc_mac_and_pad raised %r" % (e,))
        return None
    ctx.ev()
    ctx.count("func_evals")
    ctx.count("body:" + kind)
    if want is None:
        ctx.count("func_dontcare")
        return got
    if expect_kind is not None and want != expect_kind:
        ctx.inconc("harness: specification judged a %s body %r" % (kind, want))
    if got is not True and got is not False:
        viol(ctx, {"clause": "func_not_boolean", "fam": fam,
                       "body": kind}, wit(st, body, want, got),
                      "result is %r" % (got,))
        return got
    ctx.count("spec_accept" if want else "spec_reject")
    ctx.count("lib_accept" if got else "lib_reject")
    if got != want:
        viol(ctx, {"clause": "func_false_accept" if got else
                       "func_false_reject", "fam": fam, "body": kind,
                       "region": reg},
                      wit(st, body, want, got),
                      "ct_check_cbc_mac_and_pad=%r specification=%r "
                      "(%s %s len=%d last=%d maclen=%d block=%d)" % (
                          got, want, macname, VNAME[ver], n, p, st["maclen"],
                          block))
    return got


def wit(st, body, want, got):
    return {"mac": st["mac"], "ver": list(st["ver"]), "block": st["block"],
            "key": bytes(st["key"]), "seq": bytes(st["seq"]),
            "ctype": st["ctype"], "body": bytes(body), "spec": want,
            "lib": got}


def wellformed(rng, st, n, p):
    maclen = st["maclen"]
    content = rng.randbytes(n - 1 - p - maclen)
    mac = spec_mac(st["mac"], st["ver"], st["key"], st["seq"], st["ctype"],
                   content)
    if st["ver"] == (3, 0):
        pad = rng.randbytes(p)
    else:
        pad = bytes([p]) * p
    return bytearray(content + mac + pad + bytes([p]))


def flip(rng, body, i):
    b = bytearray(body)
    b[i] ^= rng.randrange(1, 256)
    return b


def corruptions(rng, st, body, n, p, rot, allkinds):
    """yield (kind, body', expected or None=ask the specification)"""
    maclen = st["maclen"]
    ssl3 = st["ver"] == (3, 0)
    clen = n - 1 - p - maclen
    out = []
    # MAC bytes
    if allkinds:
        js = range(maclen)
    else:
        js = [rot % maclen]
    for j in js:
        out.append(("corrupt_mac", flip(rng, body, clen + j), False))
    # padding bytes
    pads = []
    if p >= 1:
        first, last, mid = n - 1 - p, n - 2, n - 1 - p + p // 2
        pads = [("corrupt_pad_first", first), ("corrupt_pad_last", last),
                ("corrupt_pad_middle", mid)]
        if not allkinds:
            pads = [pads[rot % 3]]
        for k, i in pads:
            # SSLv3: padding bytes are arbitrary -> still well-formed
            out.append((k, flip(rng, body, i), None if ssl3 else False))
    # the length byte itself +-1
    lens = []
    if p < 255:
        lens.append(("corrupt_len_plus1", p + 1))
    if p > 0:
        lens.append(("corrupt_len_minus1", p - 1))
    if not allkinds and lens:
        lens = [lens[(rot // 3) % len(lens)]]
    for k, v in lens:
        b = bytearray(body)
        b[-1] = v
        out.append((k, b, None))
    # content
    if clen >= 1:
        cs = [("corrupt_content_first", 0), ("corrupt_content_last", clen - 1)]
        if not allkinds:
            cs = [cs[rot % 2]]
        for k, i in cs:
            out.append((k, flip(rng, body, i), False))
    return out


def clamp_body(rng, st, n, p, maxtries):
    """no well-formed body exists (n < p+1+maclen) but n >= maclen+1: put the
    MAC of the *empty* content at offset 0 and let the padding overlap it;
    for TLS search a sequence number making the overlapped MAC bytes equal p.
    returns (body, overlap, found)"""
    maclen = st["maclen"]
    overlap = p + 1 + maclen - n          # >= 1
    ssl3 = st["ver"] == (3, 0)
    found = ssl3
    mac = None
    if ssl3 or overlap > maclen:
        mac = spec_mac(st["mac"], st["ver"], st["key"], st["seq"],
                       st["ctype"], b"")
    else:
        base = int.from_bytes(st["seq"], "big")
        want = bytes([p]) * overlap
        for t in range(maxtries):
            seq = ((base + t) % (1 << 64)).to_bytes(8, "big")
            m = spec_mac(st["mac"], st["ver"], st["key"], seq, st["ctype"],
                         b"")
            if m[maclen - overlap:] == want:
                st["seq"] = seq
                mac = m
                found = True
                break
        if mac is None:
            mac = spec_mac(st["mac"], st["ver"], st["key"], st["seq"],
                           st["ctype"], b"")
    body = bytearray(mac)
    if ssl3:
        body += rng.randbytes(n - maclen - 1) + bytes([p])
    else:
        body += bytes([p]) * (n - maclen)
        if not found:
            # padding wins over the MAC in the overlap (the other variant)
            if rng.random() < 0.5:
                for i in range(max(0, n - 1 - p), maclen):
                    body[i] = p
    return body, overlap, found


def plist(ctx, rng, n, maclen, block):
    if not ctx.quick:
        return range(256)
    edge = {0, 1, 7, 8, 9, 15, 16, 17, 254, 255}
    for d in (-2, -1, 0, 1):
        edge.add(n - maclen + d)           # boundary of 'fits'
        edge.add(n + d)                    # pad as long as the body
        edge.add(n - 256 + d)              # scanning window start
    ps = {p for p in edge if 0 <= p <= 255}
    ps = set(rng.sample(sorted(ps), min(len(ps), 7)))
    while len(ps) < 11:
        ps.add(rng.randrange(256))
    return sorted(ps)


def func_case(ctx, P):
    rng = ctx.rng
    macname, ver, res = P["mac"], tuple(P["ver"]), P["res"]
    maclen = MACS[macname]().digest_size
    ssl3 = ver == (3, 0)
    key = rng.randbytes(rng.choice([maclen, maclen, 16, 1, 64, 65, 130]))
    libmac = lib_mac(macname, ver, key)
    st = {"mac": macname, "ver": ver, "maclen": maclen, "key": key,
          "libmac": libmac}
    rot = res
    searches = 0
    for n in range(res, MAXLEN + 1, RESIDUES):
        if ctx.expired():
            return
        for p in plist(ctx, rng, n, maclen, 16):
            rot += 1
            if ssl3:
                blocks = [8, 16] if (p <= 17 or rot % 16 == 0) else \
                    [8 if rot % 2 else 16]
            else:
                blocks = [8 if (n + p) % 2 else 16]
            for block in blocks:
                st["block"] = block
                st["seq"] = rng.choice(
                    [rng.randbytes(8), bytes(8), b"\xff" * 8,
                     rng.randrange(1 << 16).to_bytes(8, "big")])
                st["ctype"] = rng.choice(CTYPES)
                if n == 0:
                    if p == 0 or ctx.quick:
                        judge(ctx, st, bytearray(), "empty", False)
                        ctx.cell("fcell", "%s/%s/0/-" % (macname,
                                                         VNAME[ver]))
                    continue
                fits = n >= p + 1 + maclen and (not ssl3 or p <= block)
                ctx.cell("fcell", "%s/%s/%d/%d" % (macname, VNAME[ver], n, p))
                ctx.cell("fblock", "%s/%d" % (VNAME[ver], block))
                if fits:
                    body = wellformed(rng, st, n, p)
                    dc = ssl3 and p == block
                    got = judge(ctx, st, body, "wellformed",
                                None if dc else True)
                    if not dc:
                        ctx.count("pos:%s/%s" % (macname, VNAME[ver]))
                    allk = ctx.quick and rot % 29 == 0 or \
                        (not ctx.quick and rot % 97 == 0)
                    for kind, b2, exp in corruptions(rng, st, body, n, p, rot,
                                                     allk):
                        if ssl3 and kind.startswith("corrupt_pad"):
                            kind = "ssl3_arbitrary_pad"
                        judge(ctx, st, b2, kind, exp)
                        if exp is False:
                            ctx.count("neg:%s/%s" % (macname, VNAME[ver]))
                    if rot % 4 == 0:
                        b = bytearray(rng.randbytes(n - 1) + bytes([p]))
                        judge(ctx, st, b, "arbitrary")
                else:
                    over = ssl3 and p > block and n >= p + 1 + maclen
                    if ctx.quick or (over and rot % 4 == 0) or \
                            (not over and rot % 2 == 0):
                        b = bytearray(rng.randbytes(n - 1) + bytes([p]))
                        judge(ctx, st, b, "arbitrary", False)
                    ctx.count("neg:%s/%s" % (macname, VNAME[ver]))
                    if over:
                        # everything right except the SSLv3 bound
                        body = wellformed(rng, st, n, p)
                        judge(ctx, st, body, "ssl3_pad_over_block", False)
                    elif n >= maclen + 1 and n < p + 1 + maclen:
                        overlap = p + 1 + maclen - n
                        tries = 0
                        if not ssl3:
                            if overlap == 1:
                                tries = 4096
                            elif overlap == 2 and searches < 1 and \
                                    (res == 0 or not ctx.quick):
                                tries = 200000
                                searches += 1
                        body, ov, found = clamp_body(rng, st, n, p, tries)
                        kind = "clamp_overlap" if found else "clamp_nomatch"
                        if found:
                            ctx.count("clamp_overlap_%s_%s" % (
                                "ssl3" if ssl3 else "tls",
                                ov if ov <= 2 else "n"))
                        judge(ctx, st, body, kind, False)
                    else:
                        b = bytearray([p]) * n
                        judge(ctx, st, b, "all_equal_pad", False)
    ctx.cell("fcombo", "%s/%s" % (macname, VNAME[ver]))


# --------------------------------------------------------------------------
# record level
# --------------------------------------------------------------------------
# name, id, cipher, keylen, block, mac, versions
SUITES = [
    ("3DES_EDE_CBC_SHA", 0x000A, "3des", 24, 8, "sha1", VERS),
    ("AES_128_CBC_SHA", 0x002F, "aes", 16, 16, "sha1", VERS),
    ("AES_256_CBC_SHA", 0x0035, "aes", 32, 16, "sha1", VERS),
    ("AES_128_CBC_SHA256", 0x003C, "aes", 16, 16, "sha256", [(3, 3)]),
    ("AES_256_CBC_SHA256", 0x003D, "aes", 32, 16, "sha256", [(3, 3)]),
    ("ECDHE_RSA_AES_256_CBC_SHA384", 0xC028, "aes", 32, 16, "sha384",
     [(3, 3)]),
]


class FakeSock(object):
    """in-memory socket: recv(n) from a byte queue, send() to a buffer"""

    def __init__(self):
        self.inq = bytearray()
        self.out = bytearray()

    def recv(self, n):
        d = bytes(self.inq[:n])
        del self.inq[:n]
        return d

    def send(self, data):
        self.out += data
        return len(data)

    def sendall(self, data):
        self.out += data

    def close(self):
        pass


def mk_cipher(kind, key, iv):
    if kind == "aes":
        return createAES(bytearray(key), bytearray(iv), ["python"])
    return createTripleDES(bytearray(key), bytearray(iv), ["python"])


class Keys(object):
    """key block sliced by the harness (RFC 5246 6.3 order)"""

    def __init__(self, su, ver, master, cr, sr):
        name, sid, kind, klen, block, macname, _ = su
        maclen = MACS[macname]().digest_size
        kb = bytes(calc_key(ver, bytearray(master), sid, b"key expansion",
                            client_random=bytearray(cr),
                            server_random=bytearray(sr),
                            output_length=2 * maclen + 2 * klen + 2 * block))
        o = 0
        parts = []
        for ln in (maclen, maclen, klen, klen, block, block):
            parts.append(kb[o:o + ln])
            o += ln
        (self.cmac, self.smac, self.ckey, self.skey, self.civ,
         self.siv) = parts


def receiver(su, ver, etm, secrets, client=False):
    sock = FakeSock()
    rl = RecordLayer(sock)
    rl.version = ver
    rl.client = client
    if etm:
        rl.encryptThenMAC = True
    rl.calcPendingStates(su[1], bytearray(secrets[0]), bytearray(secrets[1]),
                         bytearray(secrets[2]), ["python"])
    return rl, sock


class Sender(object):
    """independent conforming sender (client write direction)"""

    def __init__(self, su, ver, etm, keys):
        self.su, self.ver, self.etm, self.keys = su, ver, etm, keys
        self.kind, self.block, self.macname = su[2], su[4], su[5]
        self.seq = 0
        self.chain = mk_cipher(self.kind, keys.ckey, keys.civ) \
            if ver < (3, 2) else None

    def plaintext(self, ctype, content, p, rng):
        """MtE: content|MAC|pad ; EtM: content|pad"""
        seq = self.seq.to_bytes(8, "big")
        if self.etm:
            body = bytes(content)
        else:
            body = bytes(content) + spec_mac(self.macname, self.ver,
                                             self.keys.cmac, seq, ctype,
                                             content)
        if self.ver == (3, 0):
            pad = rng.randbytes(p)
        else:
            pad = bytes([p]) * p
        return bytearray(body + pad + bytes([p]))

    def seal(self, ctype, plain, rng, mac_tamper=None):
        """encrypt (and MAC for EtM) an already padded plaintext"""
        seq = self.seq.to_bytes(8, "big")
        if self.ver >= (3, 2):
            iv = rng.randbytes(self.block)
            c = mk_cipher(self.kind, self.keys.ckey, iv)
            frag = iv + bytes(c.encrypt(bytearray(plain)))
        else:
            frag = bytes(self.chain.encrypt(bytearray(plain)))
        if self.etm:
            mac = bytearray(spec_mac(self.macname, self.ver, self.keys.cmac,
                                     seq, ctype, frag))
            if mac_tamper is not None:
                mac[mac_tamper % len(mac)] ^= rng.randrange(1, 256)
            frag += bytes(mac)
        self.seq += 1
        return bytes([ctype]) + bytes(self.ver) + \
            len(frag).to_bytes(2, "big") + frag

    def legal_pads(self, clen):
        maclen = 0 if self.etm else MACS[self.macname]().digest_size
        p0 = (-(clen + maclen + 1)) % self.block
        if self.ver == (3, 0):
            return [p0]
        return list(range(p0, 256, self.block))


def recv_one(rl, sock, wire):
    sock.inq += wire
    res = None
    for res in rl.recvRecord():
        if res in (0, 1):
            raise RuntimeError("recvRecord would block")
        break
    hdr, parser = res
    return hdr, bytes(parser.bytes)


def rec_case(ctx, P):
    rng = ctx.rng
    su = SUITES[P["su"]]
    ver = tuple(P["ver"])
    etm = P["etm"]
    name, sid, kind, klen, block, macname, _ = su
    maclen = MACS[macname]().digest_size
    secrets = (rng.randbytes(48), rng.randbytes(32), rng.randbytes(32))
    keys = Keys(su, ver, *secrets)
    cellbase = "%s/%s/etm%d" % (name, VNAME[ver], etm)
    fam = "ssl3" if ver == (3, 0) else "tls"
    mode = "etm" if etm else "mte"

    def wit_r(**kw):
        d = {"suite": name, "ver": list(ver), "etm": etm,
             "master": secrets[0], "client_random": secrets[1],
             "server_random": secrets[2]}
        d.update(kw)
        return d

    # ---- receiver, positive stream: all records to one receiver ----------
    rl, sock = receiver(su, ver, etm, secrets)
    rl.changeReadState()
    snd = Sender(su, ver, etm, keys)
    # the stream starts shortly before a boundary of the 64-bit sequence
    # number (RFC 5246 6.1: uint64, never wraps) and walks across it
    seq0 = P.get("seq0", 0)
    rl._readState.seqnum = seq0
    snd.seq = seq0
    ctx.cell("rseq0", "%d" % seq0.bit_length())
    stream_ok = True
    trials = []
    for clen in P["clens"]:
        pads = snd.legal_pads(clen)
        if kind == "3des" and len(pads) > P["maxpads3des"]:
            keep = {pads[0], pads[-1]}
            keep.update(rng.sample(pads, P["maxpads3des"] - 2))
            pads = sorted(keep)
        for p in pads:
            trials.append((clen, p))
    for clen, p in trials:
        if ctx.expired():
            return
        ctype = rng.choice([20, 21, 22, 23, 23, 23])
        content = rng.randbytes(clen)
        plain = snd.plaintext(ctype, content, p, rng)
        seq_used = snd.seq
        if stream_ok:
            wire = snd.seal(ctype, plain, rng)
            ctx.ev()
            ctx.count("rec_positive")
            ctx.cell("rcell", "%s/%d/%d" % (cellbase, clen, p))
            try:
                hdr, got = recv_one(rl, sock, wire)
            except Exception as e:   # noqa
                viol(ctx, {"clause": "record_false_reject", "fam": fam,
                               "mode": mode, "exc": type(e).__name__},
                              wit_r(seq=seq_used, ctype=ctype, pad=p,
                                    content=content, wire=wire),
                              "conforming record (content %d, pad %d) "
                              "rejected: %r" % (clen, p, e))
                stream_ok = False
            else:
                if got != content or hdr.type != ctype:
                    viol(ctx, {"clause": "record_wrong_plaintext",
                                   "fam": fam, "mode": mode},
                                  wit_r(seq=seq_used, ctype=ctype, pad=p,
                                        content=content, wire=wire, got=got),
                                  "recvRecord returned %d bytes type %d for "
                                  "content %d pad %d" % (len(got), hdr.type,
                                                         clen, p))
                ctx.count("rpos:%s/%s" % (macname, VNAME[ver]))
        # ---- negatives: each on a fresh receiver at the same seq ---------
        negs = []
        n = len(plain)
        if etm:
            # plaintext = content|pad|len ; MAC is over the ciphertext
            negs.append(("corrupt_mac", None, rng.randrange(maclen)))
            if p >= 1 and ver != (3, 0):
                i = [n - 1 - p, n - 2, n - 1 - p + p // 2][rng.randrange(3)]
                negs.append(("corrupt_pad", flip(rng, plain, i), None))
        else:
            cl = n - 1 - p - maclen
            negs.append(("corrupt_mac", flip(rng, plain,
                                             cl + rng.randrange(maclen)),
                         None))
            if p >= 1 and ver != (3, 0):
                i = [n - 1 - p, n - 2, n - 1 - p + p // 2][rng.randrange(3)]
                negs.append(("corrupt_pad", flip(rng, plain, i), None))
            if cl >= 1 and rng.random() < 0.3:
                negs.append(("corrupt_content",
                             flip(rng, plain, rng.randrange(cl)), None))
        if kind == "3des" and len(negs) > 1 and not P["all3desneg"]:
            negs = [negs[rng.randrange(len(negs))]]
        for nk, plain2, tamper in negs:
            rl2, sock2 = receiver(su, ver, etm, secrets)
            rl2.changeReadState()
            rl2._readState.seqnum = seq_used
            s2 = Sender(su, ver, etm, keys)
            s2.seq = seq_used
            wire = s2.seal(ctype, plain2 if plain2 is not None else plain,
                           rng, mac_tamper=tamper)
            ctx.ev()
            ctx.count("rec_negative")
            ctx.count("rneg:" + nk)
            try:
                hdr, got = recv_one(rl2, sock2, wire)
            except TLSBadRecordMAC:
                ctx.count("rec_negative_rejected")
            except Exception as e:   # noqa
                viol(ctx, {"clause": "record_reject_wrong_error",
                               "fam": fam, "mode": mode, "corrupt": nk,
                               "exc": type(e).__name__},
                              wit_r(seq=seq_used, ctype=ctype, pad=p,
                                    wire=wire),
                              "corrupted record raised %r, not "
                              "TLSBadRecordMAC" % (e,))
            else:
                viol(ctx, {"clause": "record_false_accept", "fam": fam,
                               "mode": mode, "corrupt": nk},
                              wit_r(seq=seq_used, ctype=ctype, pad=p,
                                    content=content, wire=wire, got=got),
                              "record with %s accepted" % nk)
        if not stream_ok:
            # continue the positive stream on a fresh pair
            rl, sock = receiver(su, ver, etm, secrets)
            rl.changeReadState()
            snd = Sender(su, ver, etm, keys)
            stream_ok = True

    # ---- SSLv3 / TLS control: the positive of the fresh-receiver recipe --
    rl2, sock2 = receiver(su, ver, etm, secrets)
    rl2.changeReadState()
    rl2._readState.seqnum = 5
    s2 = Sender(su, ver, etm, keys)
    s2.seq = 5
    content = rng.randbytes(9)
    plain = s2.plaintext(23, content, s2.legal_pads(9)[0], rng)
    try:
        hdr, got = recv_one(rl2, sock2, s2.seal(23, plain, rng))
        if got == content:
            ctx.count("rec_negative_recipe_control")
    except Exception:   # noqa
        pass

    # ---- record whose padding overlaps the MAC of the empty content ------
    # (body shorter than pad+1+MAC: no conforming sender can produce it)
    if not etm:
        k = (-maclen) % block or block
        ctype = 23
        seqn = None
        if ver == (3, 0):
            if k <= block - 1:
                p = rng.randrange(k, block)
                seqn = rng.randrange(0, 1000)
                mac = spec_mac(macname, ver, keys.cmac,
                               seqn.to_bytes(8, "big"), ctype, b"")
                plain = bytearray(mac + rng.randbytes(k - 1) + bytes([p]))
        else:
            p = k + block * rng.randrange(0, 3)
            for t in range(8192):
                mac = spec_mac(macname, ver, keys.cmac, t.to_bytes(8, "big"),
                               ctype, b"")
                if mac[-1] == p:
                    seqn = t
                    plain = bytearray(mac + bytes([p]) * p)
                    break
        if seqn is not None:
            rl2, sock2 = receiver(su, ver, etm, secrets)
            rl2.changeReadState()
            rl2._readState.seqnum = seqn
            s2 = Sender(su, ver, etm, keys)
            s2.seq = seqn
            wire = s2.seal(ctype, plain, rng)
            ctx.ev()
            ctx.count("rec_negative")
            ctx.count("rneg:clamp_overlap")
            try:
                hdr, got = recv_one(rl2, sock2, wire)
            except TLSBadRecordMAC:
                ctx.count("rec_negative_rejected")
            except Exception as e:   # noqa
                viol(ctx, {"clause": "record_reject_wrong_error",
                               "fam": fam, "mode": mode,
                               "corrupt": "clamp_overlap",
                               "exc": type(e).__name__},
                              wit_r(seq=seqn, ctype=ctype, pad=p, wire=wire),
                              "raised %r, not TLSBadRecordMAC" % (e,))
            else:
                viol(ctx, {"clause": "record_false_accept", "fam": fam,
                               "mode": mode, "corrupt": "clamp_overlap"},
                              wit_r(seq=seqn, ctype=ctype, pad=p, wire=wire,
                                    plain=plain, got=got),
                              "record whose body (%d bytes) is shorter than "
                              "pad %d + 1 + MAC %d accepted, yields %d bytes"
                              % (len(plain), p, maclen, len(got)))

    # ---- SSLv3: everything right except that the padding is longer than
    # one block (the bound depends on the *cipher's* block size) -----------
    if not etm and ver == (3, 0):
        for clen in (0, 1, 5, 13, rng.randrange(0, 40)):
            p0 = (-(clen + maclen + 1)) % block
            for p in (p0 + block, p0 + 2 * block):
                if p <= block or p > 255:
                    continue
                seqn = rng.randrange(0, 1000)
                rl2, sock2 = receiver(su, ver, etm, secrets)
                rl2.changeReadState()
                rl2._readState.seqnum = seqn
                s2 = Sender(su, ver, etm, keys)
                s2.seq = seqn
                content = rng.randbytes(clen)
                plain = s2.plaintext(23, content, p, rng)
                wire = s2.seal(23, plain, rng)
                ctx.ev()
                ctx.count("rec_negative")
                ctx.count("rneg:ssl3_pad_over_block")
                try:
                    hdr, got = recv_one(rl2, sock2, wire)
                except TLSBadRecordMAC:
                    ctx.count("rec_negative_rejected")
                except Exception as e:   # noqa
                    viol(ctx, {"clause": "record_reject_wrong_error",
                               "fam": fam, "mode": mode,
                               "corrupt": "ssl3_pad_over_block",
                               "exc": type(e).__name__},
                         wit_r(seq=seqn, ctype=23, pad=p, wire=wire),
                         "raised %r, not TLSBadRecordMAC" % (e,))
                else:
                    viol(ctx, {"clause": "record_false_accept", "fam": fam,
                               "mode": mode,
                               "corrupt": "ssl3_pad_over_block"},
                         wit_r(seq=seqn, ctype=23, pad=p, wire=wire,
                               content=content, got=got),
                         "SSLv3 record with %d bytes of padding (block %d) "
                         "accepted" % (p, block))

    # ---- sender side: tlslite writes, the specification reads -----------
    wl, wsock = receiver(su, ver, etm, secrets, client=True)
    wl.changeWriteState()
    wl._writeState.seqnum = P.get("wseq0", 0)
    dec = mk_cipher(kind, keys.ckey, keys.civ)
    for seq, clen in enumerate(P["slens"], P.get("wseq0", 0)):
        if ctx.expired():
            return
        content = rng.randbytes(clen)
        ctype = rng.choice([21, 22, 23, 23])
        del wsock.out[:]
        try:
            for r in wl.sendRecord(Message(ctype, bytearray(content))):
                pass
        except Exception as e:   # noqa
            ctx.ev()
            viol(ctx, {"clause": "sender_exception", "fam": fam,
                           "mode": mode, "exc": type(e).__name__},
                          wit_r(seq=seq, content=content),
                          "sendRecord raised %r" % (e,))
            break
        wire = bytes(wsock.out)
        ctx.ev()
        ctx.count("rec_sender")
        ctx.cell("scell", "%s/%d" % (cellbase, clen % (4 * block)))
        seqb = seq.to_bytes(8, "big")
        bad = None
        frag = wire[5:]
        if wire[0] != ctype or wire[1:3] != bytes(ver) or \
                int.from_bytes(wire[3:5], "big") != len(frag):
            bad = "record header"
        if bad is None and etm:
            if len(frag) < maclen or spec_mac(macname, ver, keys.cmac, seqb,
                                              ctype, frag[:-maclen]) != \
                    frag[-maclen:]:
                bad = "EtM MAC over the ciphertext"
            frag = frag[:-maclen]
        if bad is None and (len(frag) % block or not frag):
            bad = "fragment not a multiple of the block size"
        if bad is None:
            body = bytes(dec.decrypt(bytearray(frag)))
            if ver >= (3, 2):
                body = body[block:]
            if not body:
                bad = "no padding"
            else:
                p = body[-1]
                if etm:
                    okpad = len(body) >= p + 1 and (
                        ver == (3, 0) or
                        body[len(body) - 1 - p:-1] == bytes([p]) * p)
                    if not okpad or body[:len(body) - 1 - p] != content:
                        bad = "EtM padding/content"
                else:
                    v = spec_check(body, macname, keys.cmac, seqb, ctype, ver,
                                   block)
                    if v is not True:     # p == block in SSLv3: not conforming
                        bad = "specification rejects MAC/padding (%r)" % (v,)
                    elif body[:len(body) - 1 - p - maclen] != content:
                        bad = "content differs"
                if bad is None and ver == (3, 0) and p >= block:
                    bad = "SSLv3 padding longer than a block"
        if bad is not None:
            viol(ctx, {"clause": "sender_malformed", "fam": fam,
                           "mode": mode, "what": bad.split(" (")[0]},
                          wit_r(seq=seq, ctype=ctype, content=content,
                                wire=wire),
                          "sendRecord output: " + bad)
            break
    ctx.cell("rcombo", "%s/%s/%s" % (macname, VNAME[ver], mode))
    ctx.cell("rblock", "%s/%d" % (VNAME[ver], block))


# --------------------------------------------------------------------------
# starting points two records before a carry of the sequence number
SEQ0 = [0, (1 << 32) - 2, (1 << 8) - 2, (1 << 16) - 2, (1 << 24) - 2,
        (1 << 31) - 2, (1 << 40) - 2, (1 << 48) - 2, (1 << 56) - 2,
        (1 << 63) - 2, (1 << 64) - 4000]


def window_case(ctx, P):
    """long padding against every alignment of the body with the hash block:
    the position of the MAC inside the scanned window depends on body
    length, digest size and the hash's block size together"""
    rng = ctx.rng
    macname, ver = P["mac"], tuple(P["ver"])
    hf = MACS[macname]
    maclen, hblock = hf().digest_size, hf().block_size
    key = rng.randbytes(maclen)
    st = {"mac": macname, "ver": ver, "maclen": maclen, "key": key,
          "libmac": lib_mac(macname, ver, key), "block": 16}
    rot = 0
    for p in P["pads"]:
        lo = p + 1 + maclen
        for n in range(lo, lo + 2 * hblock + 17):
            if ctx.expired():
                return
            rot += 1
            st["seq"] = rng.randbytes(8)
            st["ctype"] = rng.choice(CTYPES)
            st["block"] = 16 if n % 16 == 0 else 8
            body = wellformed(rng, st, n, p)
            clen = n - 1 - p - maclen
            ctx.cell("wcell", "%s/%s/%d/%d" % (macname, VNAME[ver], n % hblock,
                                               p))
            judge(ctx, st, body, "window_wellformed", True)
            for j in sorted({0, maclen - 1, rot % maclen}):
                judge(ctx, st, flip(rng, body, clen + j), "window_corrupt_mac",
                      False)
            judge(ctx, st, flip(rng, body, n - 1 - p + rot % p),
                  "window_corrupt_pad", False)
            if clen:
                judge(ctx, st, flip(rng, body, rot % clen),
                      "window_corrupt_content", False)


def make_cases(ctx):
    """record-level cases first: they are the cheaper part and must not be
    the ones a soft deadline cuts off"""
    for c in rec_cases(ctx):
        yield c
    for macname in sorted(MACS):
        for ver in VERS[1:]:
            pads = list(range(224, 256)) if ctx.quick else \
                list(range(96, 256))
            for i in range(0, len(pads), 8):
                yield ("w-%s-%s-%03d" % (macname, VNAME[ver], pads[i]),
                       dict(kind="w", mac=macname, ver=ver,
                            pads=pads[i:i + 8]))
    for macname in sorted(MACS):
        for ver in VERS:
            for res in range(RESIDUES):
                yield ("f-%s-%s-%02d" % (macname, VNAME[ver], res),
                       dict(kind="f", mac=macname, ver=ver, res=res))


def rec_cases(ctx):
    rng = ctx.case_rng("plan")
    for si, su in enumerate(SUITES):
        block = su[4]
        for ver in su[6]:
            for etm in ([False] if ver == (3, 0) else [False, True]):
                if su[2] == "3des":
                    groups = ctx.pick(2, 8)
                    base = [0, 1, block - 1, block, block + 1, 3, 20, 21, 37]
                    pool = base + [rng.randrange(0, 48) for _ in
                                   range(ctx.pick(0, 16))]
                    maxpads = ctx.pick(3, 8)
                else:
                    groups = ctx.pick(2, 12)
                    base = [0, 1, 2, block - 1, block, block + 1, 31, 32, 33,
                            100, 255, 256, 257, 300]
                    pool = base[:ctx.pick(9, 14)] + (
                        [] if ctx.quick else list(range(3, 50)) +
                        [rng.randrange(50, 700) for _ in range(16)])
                    maxpads = 999
                rng.shuffle(pool)
                if ctx.quick:
                    pool = pool[:ctx.pick(6, 999)] if su[2] != "3des" \
                        else pool[:4]
                for g in range(groups):
                    clens = pool[g::groups]
                    if not clens:
                        continue
                    slens = [rng.randrange(0, 3 * block + 2) for _ in
                             range(ctx.pick(3, 8) if su[2] != "3des"
                                   else ctx.pick(1, 3))] + [g, block - 1 + g]
                    yield ("r-%04x-%s-e%d-g%d" % (su[1], VNAME[ver], etm, g),
                           dict(kind="r", su=si, ver=ver, etm=etm,
                                clens=clens, slens=slens,
                                seq0=SEQ0[(g + si) % len(SEQ0)],
                                wseq0=SEQ0[(g + si + 3) % len(SEQ0)],
                                maxpads3des=maxpads,
                                all3desneg=not ctx.quick))


def run(ctx):
    for cid, P in ctx.cases(make_cases(ctx)):
        if P["kind"] == "f":
            func_case(ctx, P)
        elif P["kind"] == "w":
            window_case(ctx, P)
        else:
            rec_case(ctx, P)


def finalize(m, tier):
    out = []
    c = m["counters"]
    combos = m["cells"].get("fcombo", set())
    for macname in MACS:
        for ver in VERS:
            k = "%s/%s" % (macname, VNAME[ver])
            if k not in combos and not m["truncated"]:
                out.append("function level never completed for " + k)
            if c.get("pos:" + k, 0) == 0:
                out.append("no well-formed body evaluated for " + k)
            if c.get("neg:" + k, 0) == 0:
                out.append("no malformed body evaluated for " + k)
    for kind in ("wellformed", "corrupt_mac", "corrupt_pad_first",
                 "corrupt_pad_last", "corrupt_pad_middle",
                 "corrupt_len_plus1", "corrupt_len_minus1",
                 "corrupt_content_first", "corrupt_content_last",
                 "arbitrary", "ssl3_arbitrary_pad", "ssl3_pad_over_block",
                 "clamp_overlap", "all_equal_pad", "empty",
                 "window_wellformed", "window_corrupt_mac",
                 "window_corrupt_pad"):
        if c.get("body:" + kind, 0) == 0:
            out.append("body class never evaluated: " + kind)
    if c.get("clamp_overlap_tls_1", 0) == 0:
        out.append("no TLS clamp body with a matching overlapped MAC byte")
    if c.get("spec_accept", 0) == 0 or c.get("spec_reject", 0) == 0:
        out.append("one side of the specification never occurred")
    rc = m["cells"].get("rcombo", set())
    for macname in ("sha1", "sha256", "sha384"):
        for mode in ("mte", "etm"):
            if not any(x.startswith(macname + "/") and x.endswith("/" + mode)
                       for x in rc):
                out.append("record level: no %s %s case" % (macname, mode))
    if len(m["cells"].get("rseq0", ())) < 6:
        out.append("record level: fewer than 6 sequence number magnitudes")
    for v in VNAME.values():
        if not any("/%s/" % v in x for x in rc):
            out.append("record level: no case for " + v)
    rb = m["cells"].get("rblock", set())
    for b in (8, 16):
        if not any(x.endswith("/%d" % b) for x in rb):
            out.append("record level: no block size %d case" % b)
    for k in ("rec_positive", "rec_negative", "rec_negative_rejected",
              "rec_sender", "rec_negative_recipe_control", "rneg:corrupt_mac",
              "rneg:corrupt_pad"):
        if c.get(k, 0) == 0:
            out.append("record level counter is zero: " + k)
    if m["truncated"]:
        out.append("soft deadline hit before the case list was finished: "
                   "the %s enumeration is incomplete" % tier)
    if tier == "thorough" and not m["truncated"]:
        want = len(MACS) * len(VERS) * (MAXLEN * 256 + 1)
        have = len(m["cells"].get("fcell", ()))
        if have != want:
            out.append("exhaustive grid incomplete: %d of %d cells" % (have,
                                                                      want))
    return out
