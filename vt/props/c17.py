"""C17 - closure, truncation and transport failures are contained."""
import errno
import socket

from vt import boot  # noqa
from vt import pair, flavours, mon, drive, net, adv, wire
from vt.pair import Pair, outcome

from tlslite import errors as E

LEVEL = "fault_enumeration"
RULE = ("per scenario script (handshake, write/read both ways, close) an "
        "honest run with counting sockets gives the number of recv/send "
        "calls per side; then one run per (side, recv|send, call index, "
        "fault kind in {recv EOF, recv ECONNRESET, send EPIPE, send "
        "ECONNRESET, send partial then reset}) - every index for the listed "
        "scripts in the thorough tier (exhaustive over single faults), every "
        "3rd in quick - plus fault pairs, closeSocket / ignoreAbruptClose "
        "settings, close initiated by either side, close_notify and alerts "
        "placed between application records by a key-holding peer. Oracle on "
        "both endpoints: the interrupted call raises a socket or abrupt-close "
        "error (or a TLSRemoteAlert for an alert really sent), the connection "
        "is closed, a mid-handshake failure leaves no resumable session and "
        "no completed handshake, later read/write behave as closed, orderly "
        "Also: a second session on re-used connection objects, warning "
        "alerts (not the end of the stream), the integration HTTPS "
        "client on truncated and orderly ends, shut-down state of "
        "failed endpoints (record layer reset, socket closed), cached "
        "session after a fatal alert on a resumed connection.   "
        "close keeps the session resumable and reads return empty. "
        "distinct_nontrivial = distinct (script, side, op kind, phase, fault, "
        "outcome) cells.")
ASSUMPTIONS = [
    "faults are injected at the socket API (recv/send call index); kernel "
    "level behaviours (SIGPIPE, half-open) are not modelled",
    "resumability after a transport failure in the data phase is recorded, "
    "not judged (the property names mid-handshake and fatal failures)",
]
NONTRIVIAL = ["cell"]
EXHAUSTIVE = {"quick": False, "thorough": True}
DEADLINE = {"quick": 90, "thorough": 1200}

QUICK_SC = ["ssl3-rsa", "ssl3-ecdhe_rsa-clientauth", "ssl3-rsa-reqcert-nocert",
            "tls10-dhe_rsa", "tls12-ecdhe_rsa-clientauth",
            "tls12-resume-ticket", "tls12-resume-id", "tls12-srp",
            "tls13-rsa", "tls13-hrr",
            "tls13-resume-ticket", "tls13-clientauth"]
FAULTS = {"recv": ["eof", "reset"], "send": ["epipe", "reset",
                                             "partial_reset"]}
OK_TRANSPORT = (socket.error, OSError, E.TLSAbruptCloseError)


class Prog(object):
    """endpoint program with an operation log"""

    def __init__(self, conn, hs_gen, role, script, opts):
        self.conn = conn
        self.hs_gen = hs_gen
        self.role = role
        self.script = script
        self.ops = []       # [name, status, detail]
        self.opts = opts
        self.hs_done = False
        self.session_at_fail = None

    def _op(self, name):
        rec = [name, "running", None]
        self.ops.append(rec)
        return rec

    def run(self):
        rec = self._op("handshake")
        yield from self.hs_gen
        rec[1] = "ok"
        self.hs_done = True
        c = self.conn
        c.closeSocket = self.opts.get("closeSocket", True)
        c.ignoreAbruptClose = self.opts.get("ignoreAbruptClose", False)
        for step in self.script:
            kind = step[0]
            rec = self._op(kind)
            if kind == "write":
                yield from drive.awrite(c, step[1])
                rec[1] = "ok"
            elif kind == "read":
                got = bytearray()
                while len(got) < step[1]:
                    r = yield from drive.aread(c, None, 1)
                    if not r:
                        break
                    got += r
                rec[1] = "ok"
                rec[2] = bytes(got)
            elif kind == "readmin":
                # one call that must span several records
                r = yield from drive.aread(c, step[1], step[1])
                rec[1] = "ok"
                rec[2] = bytes(r)
            elif kind == "close":
                yield from drive.aclose(c)
                rec[1] = "ok"
            elif kind == "read_eof":
                r = yield from drive.aread(c, None, 1)
                rec[1] = "ok"
                rec[2] = r


SCRIPT_C = [("write", b"c" * 300), ("read", 300), ("write", b"c2" * 20),
            ("close",)]
SCRIPT_S = [("read", 300), ("write", b"s" * 300), ("read", 40),
            ("read_eof",), ("close",)]


# variant B: every read is a single read(min=n) spanning several records
SCRIPT_CB = [("write", b"c" * 150), ("write", b"c" * 150), ("readmin", 300),
             ("write", b"c2" * 20), ("close",)]
SCRIPT_SB = [("readmin", 300), ("write", b"s" * 100), ("write", b"s" * 100),
             ("write", b"s" * 100), ("readmin", 40), ("read_eof",),
             ("close",)]
SCRIPTS = {"A": (SCRIPT_C, SCRIPT_S), "B": (SCRIPT_CB, SCRIPT_SB)}


def chunker(k):
    return (lambda sock, n, avail: min(n, k)) if k else None


def run_script(sc, label, faults_c=None, faults_s=None, opts_c=None,
               opts_s=None, tweak=None, chunk=0, script="A"):
    boot.install_vclock(1_800_000_000.0)
    boot.drbg.reseed(label + "/prep")
    st = sc.prepare()
    boot.drbg.reseed(label + "/main")
    p = Pair(client_sock=dict(faults=faults_c or {},
                              recv_script=chunker(chunk)),
             server_sock=dict(faults=faults_s or {},
                              recv_script=chunker(chunk)))
    fl = sc.flavor(st)
    if tweak:
        tweak(p)
    pc = Prog(p.c, fl.client_gen(p.c), "client", SCRIPTS[script][0],
              opts_c or {})
    ps = Prog(p.s, fl.server_gen(p.s), "server", SCRIPTS[script][1],
              opts_s or {})
    tc, ts = p.run(pc.run(), ps.run(), max_steps=20000)
    return p, pc, ps, tc, ts


_hon = {}


def honest(sc, label, chunk=0, script="A"):
    k = (sc.name, label, chunk, script)
    if k not in _hon:
        if len(_hon) > 4:
            _hon.clear()
        _hon[k] = run_script(sc, label, chunk=chunk, script=script)
    return _hon[k]


def make_cases(ctx):
    for ver in ((3, 3), (3, 4)):
        for mode in ("rb", "wb", "rwb"):
            yield "makefile-%d-%s" % (ver[1], mode), dict(
                makefile=True, ver=ver, mode=mode)
    for ending in ("abrupt", "orderly"):
        for opt in ("default", "strict", "ignore"):
            yield "http-%s-%s" % (ending, opt), dict(http=[ending, opt])
    names = QUICK_SC if ctx.quick else [s.name for s in flavours.ALL]
    stride = ctx.pick(3, 1)
    rng = ctx.case_rng("plan")
    for name in names:
        sc = flavours.BY_NAME[name]
        label = "%s/C17/%s" % (ctx.seed, name)
        p, pc, ps, tc, ts = honest(sc, label)
        yield "ctl-" + name, dict(sc=name, label=label, ctl=True)
        if tc.status != "done" or ts.status != "done":
            continue
        counts = {("client", "recv"): p.csock.n_recv,
                  ("client", "send"): p.csock.n_send,
                  ("server", "recv"): p.ssock.n_recv,
                  ("server", "send"): p.ssock.n_send}
        for (side, kind), n in sorted(counts.items()):
            for i in range(n):
                for f in FAULTS[kind]:
                    yield "%s-%s-%s-%d-%s" % (name, side, kind, i, f), dict(
                        sc=name, label=label, side=side, kind=kind, idx=i,
                        fault=f)
        # variant B (reads with min spanning records): receive faults
        pB, _, _, tcB, tsB = honest(sc, label, 0, "B")
        if tcB.status != "done" or tsB.status != "done":
            yield "ctlB-" + name, dict(sc=name, label=label, ctl=True,
                                       script="B")
        else:
            for side, sock in (("client", pB.csock), ("server", pB.ssock)):
                for kind, n in (("recv", sock.n_recv), ("send", sock.n_send)):
                    for i in range(n):
                        for f in FAULTS[kind]:
                            yield "%s-B-%s-%s-%d-%s" % (name, side, kind, i,
                                                        f), dict(
                                sc=name, label=label, side=side, kind=kind,
                                idx=i, fault=f, script="B")
            for j in range(ctx.pick(4, 24)):
                side = rng.choice(["client", "server"])
                sock = pB.csock if side == "client" else pB.ssock
                yield "%s-B-opt-%d" % (name, j), dict(
                    sc=name, label=label, side=side, kind="recv",
                    idx=rng.randrange(max(1, sock.n_recv)),
                    fault=rng.choice(FAULTS["recv"]), script="B",
                    opts=dict(closeSocket=rng.random() < 0.5,
                              ignoreAbruptClose=rng.random() < 0.5))
        # the peer's fatal alert is waiting unread when a send fails
        for i in range(counts[("client", "send")]):
            yield "%s-alertpipe-client-%d" % (name, i), dict(
                sc=name, label=label, alertpipe=i, side="client")
        for i in range(counts[("server", "send")]):
            yield "%s-alertpipe-server-%d" % (name, i), dict(
                sc=name, label=label, alertpipe=i, side="server")
        # chunked transport: the fault falls inside record headers/bodies
        for chunk in (7,):
            p2, _, _, tc2, ts2 = honest(sc, label, chunk)
            if tc2.status != "done" or ts2.status != "done":
                yield "ctl7-" + name, dict(sc=name, label=label, ctl=True,
                                           chunk=chunk)
                continue
            for side, sock in (("client", p2.csock), ("server", p2.ssock)):
                n = sock.n_recv
                st = ctx.pick(11, 1)
                off = rng.randrange(st)
                for i in range(off, n, st):
                    for f in FAULTS["recv"]:
                        yield "%s-%s-recv%d-%d-%s" % (name, side, chunk, i,
                                                      f), dict(
                            sc=name, label=label, side=side, kind="recv",
                            idx=i, fault=f, chunk=chunk)
        # pairs of faults (one per side)
        for j in range(ctx.pick(4, 40)):
            a = ("client", rng.choice(["recv", "send"]))
            b = ("server", rng.choice(["recv", "send"]))
            yield "%s-pair-%d" % (name, j), dict(
                sc=name, label=label, pair=[
                    [a[0], a[1], rng.randrange(max(1, counts[a])),
                     rng.choice(FAULTS[a[1]])],
                    [b[0], b[1], rng.randrange(max(1, counts[b])),
                     rng.choice(FAULTS[b[1]])]])
        # option variants on a few indices
        for j in range(ctx.pick(6, 30)):
            side = rng.choice(["client", "server"])
            kind = rng.choice(["recv", "send"])
            yield "%s-opt-%d" % (name, j), dict(
                sc=name, label=label, side=side, kind=kind,
                idx=rng.randrange(max(1, counts[(side, kind)])),
                fault=rng.choice(FAULTS[kind]),
                opts=dict(closeSocket=rng.random() < 0.5,
                          ignoreAbruptClose=rng.random() < 0.5))
        # alerts from a key-holding peer and orderly-close variants
        for who in ("client", "server"):
            for what in ("fatal:40", "fatal:80", "fatal:20", "warn:90",
                         "warn:41", "warn:100", "close_notify_early",
                         "alert_then_eof"):
                for at in ("handshake", "data"):
                    yield "%s-alert-%s-%s-%s" % (name, who, what, at), dict(
                        sc=name, label=label, alert=what, who=who, at=at)
        for var in ("both_close", "server_first", "no_closesocket",
                    "eof_instead_of_close_notify", "eof_ignore_abrupt"):
            yield "%s-close-%s" % (name, var), dict(sc=name, label=label,
                                                    close=var)
        # the same connection objects used for a second session (the
        # transport stays open: closeSocket=False); the first one ended by
        # the client, by the server, or by both at once.  TLS 1.3 excluded:
        # the library cannot start a second TLS 1.3 handshake on one object
        if flavours.BY_NAME[name].ver != (3, 4) and \
                "resume" not in name:
            for first in ("client_closed", "server_closed", "both_closed"):
                for var in ("client_first", "server_first", "both_close"):
                    yield ("%s-reuse-%s-%s" % (name, first, var),
                           dict(sc=name, label=label, close=var,
                                reuse=first))


def post_state(ctx, key, W, who, conn, sock, link):
    """a failed / closed endpoint must behave as closed"""
    if not conn.closed:
        ctx.violation(dict(key, clause="not_closed", who=who), W,
                      "%s not closed after failure" % who)
        return
    # `closed` is already true while a handshake is running: what shows
    # that a failed connection was shut down is the reset record layer and,
    # unless the application keeps it, the closed socket
    if tuple(conn.version) != (0, 0) or \
            (conn.closeSocket and not sock.closed):
        ctx.violation(dict(key, clause="not_shut_down", who=who,
                           socket_open=bool(conn.closeSocket and
                                            not sock.closed)), W,
                      "%s raised without shutting the connection down "
                      "(version %r, socket closed: %r)" % (
                          who, conn.version, sock.closed))
        return
    try:
        # bytes that were received and authenticated before the failure may
        # still be handed out (the failing call itself raised); after them
        # reads return empty
        left = bytearray()
        for _ in range(80):
            t = drive.Task("r", drive.aread(conn, 10, 1), sock)
            drive.run([t], link, max_steps=200)
            if t.status != "done" or t.result == b"":
                break
            left += t.result
        if t.status != "done" or t.result != b"" or \
                left.strip(b"sc2") != b"":
            ctx.violation(dict(key, clause="read_after_close", who=who,
                               got=str(outcome(t))), W,
                          "read on a closed connection: %r %r %r" % (
                              t.status, t.exc, bytes(left[:40])))
        elif left:
            ctx.count("buffered_bytes_drained_after_failure")
    except Exception as e:   # noqa
        ctx.violation(dict(key, clause="read_after_close", who=who,
                           exc=type(e).__name__), W, repr(e))
    t = drive.Task("w", drive.awrite(conn, b"x"), sock)
    drive.run([t], link, max_steps=200)
    if not (t.status == "exc" and isinstance(t.exc,
                                             E.TLSClosedConnectionError)):
        ctx.violation(dict(key, clause="write_after_close", who=who,
                           got=str(outcome(t))), W,
                      "write on a closed connection: %r %r" % (t.status,
                                                               t.exc))


def judge_endpoint(ctx, key, W, who, prog, task, conn, sock, link,
                   faulted, peer_sent_alert=False, opts=None):
    """rules for one endpoint after a run with transport faults"""
    opts = opts or {}
    ops = prog.ops
    last = ops[-1] if ops else ["none", "?", None]
    phase = "handshake" if not prog.hs_done else "data"
    ctx.ev()
    if task.status in ("budget",):
        ctx.violation(dict(key, clause="spin", who=who), W, "step budget")
        return "spin"
    if task.status == "stalled":
        # waiting for bytes that will never come although the transport
        # signalled EOF/reset to *this* side would be a bug; a side whose
        # peer is merely silent may wait
        if faulted:
            ctx.violation(dict(key, clause="hang_after_fault", who=who,
                               op=last[0]), W,
                          "%s keeps waiting after its transport failed" % who)
        return "waiting"
    if task.status == "done":
        # everything completed: legitimate when the fault hit after this
        # endpoint's last I/O or inside close() (which swallows them)
        return "completed"
    e = task.exc
    cls = mon.classify_exc(e)
    if cls.startswith("undocumented"):
        ctx.violation(dict(key, clause="undocumented_exception", who=who,
                           exc=type(e).__name__, frame=task.frame(),
                           op=last[0]), W, repr(e))
        return "undoc"
    ok = isinstance(e, OK_TRANSPORT)
    if isinstance(e, E.TLSRemoteAlert):
        ok = peer_sent_alert or True   # checked against the wire below
        sent = [r for r in link.records
                if r.dir == ("s2c" if who == "client" else "c2s")
                and r.type in (21, 23)]
        if not sent:
            ok = False
    if isinstance(e, E.TLSLocalAlert):
        # the endpoint diagnosed a *protocol* error although only the
        # transport failed: e.g. truncated record treated as bad data
        ctx.violation(dict(key, clause="transport_fault_as_protocol_error",
                           who=who, alert=e.description, op=last[0],
                           phase=phase), W,
                      "%s raised %r for a pure transport fault" % (who, e))
        return "local_alert"
    if not ok:
        ctx.violation(dict(key, clause="wrong_exception", who=who,
                           exc=type(e).__name__, op=last[0], phase=phase), W,
                      "%s raised %r" % (who, e))
        return "wrong_exc"
    # closed, not resumable after a mid-handshake failure
    if phase == "handshake":
        s = conn.session
        if s is not None and (s.resumable or s.valid()) and \
                not prog.hs_done:
            # a session object may pre-exist (resumption offer): it is the
            # caller's old session and stays valid only if this handshake
            # never got as far as using it
            ctx.violation(dict(key, clause="resumable_after_handshake_fault",
                               who=who), W,
                          "session resumable after a mid-handshake fault")
    post_state(ctx, key, W, who, conn, sock, link)
    return cls


def run_fault(ctx, cid, P):
    sc = flavours.BY_NAME[P["sc"]]
    label = P["label"]
    fc, fs = {}, {}
    descr = []
    specs = P.get("pair") or [[P["side"], P["kind"], P["idx"], P["fault"]]]
    for side, kind, idx, f in specs:
        (fc if side == "client" else fs)[(kind, idx)] = f
        descr.append("%s.%s[%d]=%s" % (side, kind, idx, f))
    opts = P.get("opts") or {}
    p, pc, ps, tc, ts = run_script(sc, label, fc, fs, opts_c=opts,
                                   opts_s=opts, chunk=P.get("chunk", 0),
                                   script=P.get("script", "A"))
    fired_c = p.csock.dead is not None
    fired_s = p.ssock.dead is not None
    if not (fired_c or fired_s):
        ctx.count("fault_not_reached")
        return
    ctx.count("fault_runs")
    fam = "tls13" if sc.ver == (3, 4) else "le12"
    key = {"fam": fam, "fault": "+".join(x[3] for x in specs),
           "pair": bool(P.get("pair"))}
    W = {"case": cid, "scenario": sc.name, "faults": descr, "opts": opts,
         "client_ops": [o[:2] for o in pc.ops],
         "server_ops": [o[:2] for o in ps.ops],
         "outcome": [outcome(tc), outcome(ts)]}
    oc = judge_endpoint(ctx, key, W, "client", pc, tc, p.c, p.csock, p.link,
                        fired_c, opts=opts)
    os_ = judge_endpoint(ctx, key, W, "server", ps, ts, p.s, p.ssock, p.link,
                         fired_s, opts=opts)
    # nobody may report a completed handshake that the peer never finished
    # sending for: a handshake 'completed' flag with the peer dead before its
    # Finished left is impossible by construction of the protocol; what we can
    # check is that data delivered is a prefix of what was sent
    for prog, other in ((pc, ps), (ps, pc)):
        for op in prog.ops:
            if op[0] == "read" and op[2] is not None:
                src = b"s" * 300 if prog is pc else (b"c" * 300 + b"c2" * 20)
                if not src.startswith(op[2]) and \
                        not (b"c2" * 20).startswith(op[2]):
                    ctx.violation(dict(key, clause="corrupt_data"), W,
                                  "read returned bytes never written")
    # the peer closed orderly and everything it sent was received; only
    # our *reply* to its close_notify could not be written: that read is
    # still the end of an orderly close (empty result, session resumable),
    # whatever errno the reply failed with
    for prog, other, who, task, conn in ((pc, ps, "client", tc, p.c),
                                         (ps, pc, "server", ts, p.s)):
        if not prog.ops or prog.ops[-1][0] not in ("read_eof", "read",
                                                   "readmin"):
            continue
        mine = [x for x in specs if x[0] == who]
        if not mine or any(x[1] != "send" for x in mine):
            continue
        if not any(o[0] == "close" for o in other.ops):
            continue
        if task.status == "exc" and isinstance(task.exc, (socket.error,
                                                          OSError)) and \
                not isinstance(task.exc, E.BaseTLSException) and \
                prog.ops[-1][1] == "running":
            ctx.violation(dict(key, clause="orderly_close_reported_as_failure",
                               who=who, errno=getattr(task.exc, "errno",
                                                      None)), W,
                          "%s: the peer's close_notify arrived, the reply "
                          "failed with %r and the read raised instead of "
                          "returning empty" % (who, task.exc))
        elif task.status == "done":
            ctx.count("close_reply_fault_swallowed")
            if conn.session is not None and not conn.session.resumable:
                ctx.violation(dict(key, clause="not_resumable_after_close"
                                   "_notify", who=who), W, "")
    # truncation must never look like end of data: a read that returns
    # fewer bytes than asked for (or nothing) without raising is legitimate
    # only after the peer's close_notify, i.e. after the peer began close()
    for prog, other, who in ((pc, ps, "client"), (ps, pc, "server")):
        peer_closing = any(o[0] == "close" for o in other.ops)
        if peer_closing or prog.opts.get("ignoreAbruptClose"):
            continue
        for op, step in zip(prog.ops[1:], prog.script):
            if op[1] != "ok" or op[0] not in ("read", "readmin", "read_eof"):
                continue
            want = step[1] if len(step) > 1 else 1
            if len(op[2] or b"") < want:
                ctx.violation(dict(key, clause="truncation_as_end_of_data",
                                   who=who, op=op[0],
                                   partial=bool(op[2])), W,
                              "%s: %s returned %d of %d bytes without an "
                              "error although the peer never sent "
                              "close_notify" % (who, op[0],
                                                len(op[2] or b""), want))
                break
            ctx.count("full_reads_checked")
    first = specs[0]
    phase_c = "hs" if not pc.hs_done else "data"
    ctx.cell("cell", "%s|%s.%s|%s|%s|%s/%s|c%d%s" % (
        sc.name, first[0], first[1], first[3], phase_c, oc, os_,
        P.get("chunk", 0), P.get("script", "A")))
    if len(ctx.samples) < 5:
        ctx.sample({"case": cid, "faults": descr, "client": oc,
                    "server": os_, "client_ops": W["client_ops"],
                    "server_ops": W["server_ops"]})


def run_alertpipe(ctx, cid, P):
    """the i-th send of one side fails with EPIPE while a fatal alert from
    the peer is already in its receive queue (peer alerted and closed)"""
    sc = flavours.BY_NAME[P["sc"]]
    side, idx = P["side"], P["alertpipe"]
    f = {("send", idx): "alert_epipe"}
    p, pc, ps, tc, ts = run_script(sc, P["label"],
                                   f if side == "client" else None,
                                   f if side == "server" else None)
    sock = p.csock if side == "client" else p.ssock
    if sock.dead_send is None:
        ctx.count("fault_not_reached")
        return
    prog, task, conn = (pc, tc, p.c) if side == "client" else (ps, ts, p.s)
    fam = "tls13" if sc.ver == (3, 4) else "le12"
    key = {"fam": fam, "fault": "alert_epipe", "who": side}
    W = {"case": cid, "scenario": sc.name, "send_index": idx,
         "ops": [o[:2] for o in prog.ops], "outcome": str(outcome(task))}
    ctx.ev()
    ctx.count("alertpipe_runs")
    phase = "handshake" if not prog.hs_done else "data"
    e = task.exc
    cls = mon.classify_exc(e) if e is not None else task.status
    if cls.startswith("undocumented"):
        ctx.violation(dict(key, clause="undocumented_exception",
                           exc=type(e).__name__, frame=task.frame()), W,
                      repr(e))
    elif task.status in ("stalled", "budget"):
        ctx.violation(dict(key, clause="hang_after_fault", how=task.status),
                      W, "endpoint did not return after its send failed")
    elif phase == "handshake":
        # the very first send of a handshake is written straight to the
        # socket: tlslite then looks for the peer's alert (anchor "send
        # failure during handshake looks for peer alert"); later flights go
        # through BufferedSocket.flush(), where the socket error itself is
        # what the caller gets - both are faithful reports
        surfaced = isinstance(e, E.TLSRemoteAlert) and e.description == 40
        if surfaced:
            ctx.count("pending_alert_surfaced")
            if conn.session is not None and (conn.session.resumable or
                                             conn.session.valid()):
                ctx.violation(dict(key, clause="resumable_after_fatal_alert"),
                              W, "")
            # surfacing the peer's alert ends the connection like any other
            # fatal alert: shut down, socket closed
            post_state(ctx, key, W, side, conn, sock, p.link)
        elif idx == 0 and side == "client":
            ctx.violation(dict(key, clause="pending_alert_not_surfaced",
                               got=cls), W,
                          "ClientHello send failed with the peer's fatal "
                          "alert waiting; caller got %r" % (e,))
        elif isinstance(e, OK_TRANSPORT) or isinstance(e, E.TLSRemoteAlert):
            ctx.count("send_fault_reported_as_" + cls)
        else:
            ctx.violation(dict(key, clause="wrong_exception", got=cls), W,
                          repr(e))
        if not conn.closed:
            ctx.violation(dict(key, clause="not_closed"), W, "")
    ctx.cell("cell", "%s|alertpipe|%s|%d|%s|%s" % (sc.name, side, idx, phase,
                                                   cls))


def run_alert(ctx, cid, P):
    """a key-holding peer sends an alert at a chosen point"""
    sc = flavours.BY_NAME[P["sc"]]
    who, what, at = P["who"], P["alert"], P["at"]
    holder = {}
    level, desc = 2, 40
    if what.startswith("fatal:"):
        level, desc = 2, int(what[6:])
    elif what.startswith("warn:"):
        level, desc = 1, int(what[5:])
    elif what in ("close_notify_early", "alert_then_eof"):
        level, desc = 1, 0
        if what == "alert_then_eof":
            level, desc = 2, 40

    def tweak(p):
        conn = p.c if who == "client" else p.s
        sock = p.csock if who == "client" else p.ssock
        target = {"n": 0}

        def rw(i, t, msg, raw):
            # handshake: before the 2nd message; data: handled in script
            if at == "handshake" and i == 1 and not holder.get("done"):
                holder["done"] = True
                a = adv.Raw(21, bytes([level, desc]), "alert")
                if what == "alert_then_eof":
                    holder["eof_sock"] = sock
                return [a, msg]
            return None
        holder["dev"] = adv.Deviant(conn, rw)
    label = P["label"]
    boot.install_vclock(1_800_000_000.0)
    boot.drbg.reseed(label + "/prep")
    st = sc.prepare()
    boot.drbg.reseed(label + "/main")
    p = Pair()
    fl = sc.flavor(st)
    tweak(p)
    sender = p.c if who == "client" else p.s
    ssock = p.csock if who == "client" else p.ssock
    victim = p.s if who == "client" else p.c
    vsock = p.ssock if who == "client" else p.csock
    vname = "server" if who == "client" else "client"
    key = {"alert": what.split(":")[0], "at": at, "victim": vname,
           "fam": "tls13" if sc.ver == (3, 4) else "le12"}
    W = {"case": cid, "scenario": sc.name, "alert": what}
    if at == "handshake":
        tc, ts = p.handshake(fl)
        vt = ts if who == "client" else tc
        if not holder.get("done"):
            ctx.count("alert_not_sent")
            return
    else:
        tc, ts = p.handshake(fl)
        if tc.status != "done" or ts.status != "done":
            ctx.inconc("control failed in %s" % cid)
            return
        vsess = victim.session
        # some data, then the alert, then more data
        t1 = drive.Task("w", drive.awrite(sender, b"before-alert"), ssock)
        drive.run([t1], p.link)
        t2 = drive.Task("a", sender._sendMsg(adv.Raw(21, bytes([level,
                                                                 desc]))),
                        ssock)
        drive.run([t2], p.link)
        t3 = drive.Task("w", drive.awrite(sender, b"after-alert"), ssock)
        drive.run([t3], p.link)
        if what == "alert_then_eof":
            ssock.close()
        got = bytearray()
        vt = None
        for _ in range(6):
            vt = drive.Task("r", drive.aread(victim, None, 1), vsock)
            drive.run([vt], p.link, max_steps=2000)
            if vt.status != "done" or not vt.result:
                break
            got += vt.result
        W["got"] = bytes(got)
        if bytes(got) not in (b"before-alert", b"") and \
                not b"before-alert".startswith(bytes(got)):
            ctx.violation(dict(key, clause="data_after_alert_delivered"), W,
                          "victim delivered %r" % bytes(got))
    ctx.ev()
    ctx.count("alert_runs")
    W["victim"] = (vt.status, repr(vt.exc))
    sess = victim.session
    if level == 2:
        if not (vt.status == "exc" and isinstance(vt.exc, E.TLSRemoteAlert)
                and vt.exc.description == desc):
            # TLS 1.3 early handshake: plaintext alerts from a peer that
            # already switched keys cannot be read; accept local failure
            ctx.violation(dict(key, clause="fatal_alert_not_surfaced",
                               got=str(outcome(vt))), W,
                          "peer's fatal alert %d surfaced as %r / %r" % (
                              desc, vt.status, vt.exc))
        elif sess is not None and (sess.resumable or sess.valid()):
            ctx.violation(dict(key, clause="resumable_after_fatal_alert"), W,
                          "session.resumable=%r valid()=%r" % (
                              sess.resumable, sess.valid()))
        else:
            ctx.count("fatal_surfaced")
            cache = fl.session_cache
            if vname == "server" and cache is not None and \
                    sess is not None and sess.sessionID:
                # what the server's cache serves under that ID is dead too
                try:
                    ent = cache[bytearray(sess.sessionID)]
                    alive = ent is not None and ent.valid()
                except KeyError:
                    alive = False
                ctx.count("cache_entry_checked_after_fatal")
                if alive:
                    ctx.violation(dict(key,
                                       clause="resumable_after_fatal_alert",
                                       where="session_cache"), W,
                                  "the SessionCache still serves the "
                                  "session of the connection that received "
                                  "the fatal alert")
    elif desc == 0:
        # close_notify: reads return empty, session stays resumable
        if vt.status == "exc":
            if at == "handshake":
                ctx.count("close_notify_in_handshake_rejected")
            else:
                ctx.violation(dict(key, clause="close_notify_raises",
                                   got=str(outcome(vt))), W, repr(vt.exc))
        else:
            if at == "data" and sess is not None and not sess.resumable:
                ctx.violation(dict(key, clause="not_resumable_after_close"
                                   "_notify"), W, "")
            ctx.count("close_notify_clean")
    else:
        # warning alert other than close_notify: surfaced, not resumable
        if vt.status == "exc" and isinstance(vt.exc, E.TLSRemoteAlert):
            if sess is not None and sess.resumable and at == "data":
                ctx.violation(dict(key,
                                   clause="resumable_after_warning_alert"),
                              W, "")
            ctx.count("warning_surfaced")
        elif vt.status == "exc" and mon.classify_exc(vt.exc).startswith(
                "undocumented"):
            ctx.violation(dict(key, clause="undocumented_exception",
                               exc=type(vt.exc).__name__), W, repr(vt.exc))
        elif at == "data" and vt.status == "done" and not vt.result and \
                b"after-alert" not in bytes(W.get("got", b"")):
            # the stream ended as if the peer had closed it in an orderly
            # way, but no close_notify was sent: data after the alert is
            # silently cut off
            ctx.violation(dict(key, clause="warning_alert_taken_for_close"),
                          W, "read returned %r after a warning alert %d; "
                          "closed=%s" % (vt.result, desc, victim.closed))
    if vt.status == "exc":
        post_state(ctx, key, W, vname, victim, vsock, p.link)
    ctx.cell("cell", "%s|alert|%s|%s|%s|%s" % (sc.name, what, at, vname,
                                              outcome(vt)))


def run_close(ctx, cid, P):
    sc = flavours.BY_NAME[P["sc"]]
    var = P["close"]
    label = P["label"]
    boot.install_vclock(1_800_000_000.0)
    boot.drbg.reseed(label + "/prep")
    st = sc.prepare()
    boot.drbg.reseed(label + "/main")
    p = Pair()
    fl = sc.flavor(st)
    tc, ts = p.handshake(fl)
    if tc.status != "done" or ts.status != "done":
        ctx.inconc("control failed in %s" % cid)
        return
    tw, tr, got = p.xfer(p.c, p.s, b"payload" * 10)
    key = {"close": var, "fam": "tls13" if sc.ver == (3, 4) else "le12"}
    W = {"case": cid, "scenario": sc.name}
    if P.get("reuse"):
        key["reuse"] = P["reuse"]
        p.c.closeSocket = p.s.closeSocket = False
        x, xs, y, ys = (p.c, p.csock, p.s, p.ssock) \
            if P["reuse"] != "server_closed" else \
            (p.s, p.ssock, p.c, p.csock)
        if P["reuse"] == "both_closed":
            drive.run([drive.Task("c1", drive.aclose(x), xs),
                       drive.Task("c2", drive.aclose(y), ys)], p.link,
                      max_steps=3000)
        else:
            # y learns of the end from x's close_notify in a read
            t1 = drive.Task("c1", drive.aclose(x), xs)
            t = drive.Task("r", drive.aread(y, None, 1), ys)
            drive.run([t1, t], p.link, max_steps=3000)
            if not (t.status == "done" and t.result == b"" and
                    t1.status == "done"):
                ctx.inconc("first session did not end cleanly in %s" % cid)
                return
        fl2 = sc.flavor(st)
        tc, ts = p.handshake(fl2)
        if tc.status != "done" or ts.status != "done":
            ctx.violation(dict(key, clause="second_handshake_failed",
                               c=str(outcome(tc)), s=str(outcome(ts))), W,
                          "second handshake on the same connection objects "
                          "after an orderly close: %r %r" % (tc.exc, ts.exc))
            return
        p.c.closeSocket = p.s.closeSocket = True
        tw, tr, got = p.xfer(p.c, p.s, b"second" * 10)
        if got != b"second" * 10:
            ctx.violation(dict(key, clause="second_session_data"), W,
                          "data of the second session not delivered")
        ctx.count("reused_objects")
    ctx.ev()
    ctx.count("close_runs")
    cs, ss = p.c.session, p.s.session
    if var in ("eof_instead_of_close_notify", "eof_ignore_abrupt"):
        p.s.ignoreAbruptClose = var == "eof_ignore_abrupt"
        p.csock.close()
        t = drive.Task("r", drive.aread(p.s, None, 1), p.ssock)
        drive.run([t], p.link)
        W["server_read"] = (t.status, repr(t.exc), repr(t.result))
        if var == "eof_instead_of_close_notify":
            if not (t.status == "exc" and isinstance(
                    t.exc, E.TLSAbruptCloseError)):
                ctx.violation(dict(key, clause="truncation_not_reported"), W,
                              "EOF without close_notify gave %r %r %r" % (
                                  t.status, t.exc, t.result))
            elif ss.resumable:
                ctx.violation(dict(key, clause="resumable_after_abrupt"), W,
                              "")
        else:
            if not (t.status == "done" and t.result == b""):
                ctx.violation(dict(key, clause="ignore_abrupt_not_honoured"),
                              W, "%r %r" % (t.status, t.exc))
        post_state(ctx, key, W, "server", p.s, p.ssock, p.link)
        ctx.cell("cell", "%s|close|%s|%s" % (sc.name, var, outcome(t)))
        return
    if var == "no_closesocket":
        p.c.closeSocket = False
        p.s.closeSocket = False
    if var == "server_first":
        a, asock, b, bsock = p.s, p.ssock, p.c, p.csock
    else:
        a, asock, b, bsock = p.c, p.csock, p.s, p.ssock
    if var == "both_close":
        t1 = drive.Task("ca", drive.aclose(a), asock)
        t2 = drive.Task("cb", drive.aclose(b), bsock)
        drive.run([t1, t2], p.link, max_steps=3000)
        tr = None
    else:
        t1 = drive.Task("ca", drive.aclose(a), asock)
        tr = drive.Task("rb", drive.aread(b, None, 1), bsock)
        drive.run([t1, tr], p.link, max_steps=3000)
        t2 = drive.Task("cb", drive.aclose(b), bsock)
        drive.run([t1, t2], p.link, max_steps=3000)
    W["close"] = [(t.status, repr(t.exc)) for t in (t1, t2)]
    for t in (t1, t2):
        if t.status != "done":
            ctx.violation(dict(key, clause="orderly_close_failed",
                               got=str(outcome(t))), W,
                          "close(): %r %r" % (t.status, t.exc))
    if tr is not None and not (tr.status == "done" and tr.result == b""):
        ctx.violation(dict(key, clause="read_after_close_notify",
                           got=str(outcome(tr))), W,
                      "read after peer's close_notify: %r %r %r" % (
                          tr.status, tr.exc, tr.result))
    for who, conn, sock, sess in (("client", p.c, p.csock, cs),
                                  ("server", p.s, p.ssock, ss)):
        if not sess.resumable:
            ctx.violation(dict(key, clause="not_resumable_after_orderly_"
                               "close", who=who), W, "")
        post_state(ctx, key, W, who, conn, sock, p.link)
    ctx.count("orderly_closes")
    ctx.cell("cell", "%s|close|%s|ok" % (sc.name, var))


def run_http(ctx, cid, P):
    """the integration layer's HTTPS client (tlslite.integration.
    HTTPTLSConnection, which XMLRPCTransport builds on) reading a body that
    is delimited by the end of the connection: a transport that ends without
    close_notify must surface as the abrupt-close error unless the caller
    opted out, an orderly end gives the whole body"""
    import threading
    from tlslite import TLSConnection
    from tlslite.integration.httptlsconnection import HTTPTLSConnection
    from vt import creds
    ending, opt = P["http"]
    # http.client sets TCP options on its socket: a loopback TCP pair
    lst = socket.socket(socket.AF_INET, socket.SOCK_STREAM)
    try:
        lst.bind(("127.0.0.1", 0))
        lst.listen(1)
        a = socket.create_connection(lst.getsockname(), timeout=30)
        b, _ = lst.accept()
    except OSError as e:
        # recorded, not a verdict: the family needs a loopback interface
        ctx.count("http_no_loopback")
        return
    finally:
        lst.close()
    a.settimeout(30)
    b.settimeout(30)
    body = b"0123456789" * 40
    res = {}

    def server():
        try:
            conn = TLSConnection(b)
            chain, key_ = creds.server("rsa")
            conn.handshakeServer(certChain=chain, privateKey=key_)
            req = b""
            while b"\r\n\r\n" not in req:
                r = conn.read(max=4096, min=1)
                if not r:
                    break
                req += r
            conn.write(b"HTTP/1.0 200 OK\r\nContent-Type: text/plain"
                       b"\r\n\r\n" + body)
            if ending == "orderly":
                conn.close()
            else:
                b.close()           # no close_notify
            res["server"] = "ok"
        except Exception as e:   # noqa
            res["server"] = repr(e)
            try:
                b.close()
            except Exception:   # noqa
                pass
    t = threading.Thread(target=server)
    t.daemon = True
    t.start()
    kw = {} if opt == "default" else {"ignoreAbruptClose": opt == "ignore"}
    out = exc = None
    try:
        h = HTTPTLSConnection("localhost", 4443, **kw)
        h._create_connection = lambda *x, **y: a
        h.request("GET", "/")
        resp = h.getresponse()
        out = resp.read()
    except Exception as e:   # noqa
        exc = e
    t.join(30)
    try:
        a.close()
    except Exception:   # noqa
        pass
    ctx.ev()
    ctx.count("http_runs")
    key = {"site": "integration.HTTPTLSConnection", "ending": ending,
           "option": opt}
    W = {"case": cid, "server": res.get("server"), "exc": repr(exc),
         "got_len": None if out is None else len(out)}
    if res.get("server") != "ok":
        ctx.inconc("http harness server failed: %r" % (res.get("server"),))
        return
    if ending == "orderly" or opt == "ignore":
        if exc is not None or out != body:
            ctx.violation(dict(key, clause="orderly_close_reported_as_failure"
                               if ending == "orderly" else
                               "ignore_abrupt_not_honoured"), W,
                          "whole body expected, got %r / %r" % (
                              exc, None if out is None else len(out)))
    else:
        if not isinstance(exc, E.TLSAbruptCloseError):
            ctx.violation(dict(key, clause="truncation_not_reported"), W,
                          "the transport ended without close_notify and "
                          "the caller did not opt out: got %r / %r bytes" % (
                              exc, None if out is None else len(out)))
        else:
            ctx.count("http_truncation_reported")
    ctx.cell("cell", "http|%s|%s|%s" % (ending, opt,
                                       type(exc).__name__ if exc else "ok"))


def run_makefile(ctx, cid, P):
    """file objects from makefile() share the connection: closing one of
    them is not closing the connection (which still reads and writes), and
    closing the connection last is an orderly close"""
    import threading
    from tlslite import TLSConnection
    from vt import creds
    from vt.pair import ver_settings
    ver, mode = tuple(P["ver"]), P["mode"]
    a, b = socket.socketpair()
    a.settimeout(30)
    b.settimeout(30)
    res = {}

    def server():
        try:
            conn = TLSConnection(b)
            chain, key_ = creds.server("rsa")
            conn.handshakeServer(certChain=chain, privateKey=key_,
                                 settings=ver_settings(ver))
            got = b""
            while len(got) < 14:
                r = conn.read(max=64, min=1)
                if not r:
                    break
                got += r
            res["got"] = got
            conn.write(b"reply-from-server")
            res["eof"] = conn.read(max=10, min=1)
            conn.close()
            res["server"] = "ok"
        except Exception as e:   # noqa
            res["server"] = repr(e)
    t = threading.Thread(target=server)
    t.daemon = True
    t.start()
    exc = None
    reply = None
    c = TLSConnection(a)
    try:
        c.handshakeClientCert(settings=ver_settings(ver))
        f = c.makefile(mode)
        if "w" in mode:
            f.write(b"via-file-")
            f.flush()
        f.close()
        # the connection itself is still there
        c.write(b"after" if "w" in mode else b"via-file-after")
        reply = b""
        while len(reply) < 17:
            r = c.read(max=64, min=1)
            if not r:
                break
            reply += r
        c.close()
    except Exception as e:   # noqa
        exc = e
    t.join(30)
    for x in (a, b):
        try:
            x.close()
        except Exception:   # noqa
            pass
    ctx.ev()
    ctx.count("makefile_runs")
    key = {"site": "makefile", "mode": mode,
           "fam": "tls13" if ver == (3, 4) else "le12"}
    W = {"case": cid, "client_exc": repr(exc), "reply": reply,
         "server": dict((k, repr(v)) for k, v in res.items())}
    if exc is not None or reply != b"reply-from-server" or \
            res.get("got") != b"via-file-after" or res.get("server") != "ok" \
            or res.get("eof") != b"":
        ctx.violation(dict(key, clause="file_object_close_closed_connection"
                           if exc is not None or not reply else
                           "orderly_close_reported_as_failure"), W,
                      "after closing a makefile(%r) object: client %r, "
                      "reply %r, server %r" % (mode, exc, reply, res))
    else:
        ctx.count("makefile_ok")
    ctx.cell("cell", "makefile|%s|%s|%s" % (key["fam"], mode,
                                           "ok" if exc is None else
                                           type(exc).__name__))


def run_case(ctx, cid, P):
    if "makefile" in P:
        return run_makefile(ctx, cid, P)
    if "http" in P:
        return run_http(ctx, cid, P)
    if P.get("ctl"):
        sc = flavours.BY_NAME[P["sc"]]
        p, pc, ps, tc, ts = honest(sc, P["label"], P.get("chunk", 0),
                                   P.get("script", "A"))
        ctx.ev()
        if tc.status != "done" or ts.status != "done":
            bad = None
            for who, prog, t in (("client", pc, tc), ("server", ps, ts)):
                if t.status != "done" and prog.hs_done and prog.ops and \
                        prog.ops[-1][0] in ("close", "read_eof", "read",
                                            "readmin"):
                    bad = (who, prog.ops[-1][0], t)
            if bad is not None:
                # nothing was injected: the script's own orderly end (the
                # peer's close_notify, then the end of the transport) was
                # reported as a failure
                who, op, t = bad
                ctx.violation({"clause": "orderly_close_reported_as_failure",
                               "who": who, "op": op,
                               "exc": type(t.exc).__name__ if t.exc
                               else t.status,
                               "fam": "tls13" if sc.ver == (3, 4)
                               else "le12"},
                              {"case": cid, "scenario": sc.name,
                               "ops": [list(map(str, o)) for o in
                                       pc.ops + ps.ops]},
                              "honest script: %s %s ended with %r" % (
                                  who, op, t.exc))
            else:
                ctx.inconc("honest script failed: %s %r %r" % (
                    sc.name, tc.exc, ts.exc))
        else:
            ctx.count("controls")
            ctx.maxi("io_calls", p.csock.n_recv + p.csock.n_send +
                     p.ssock.n_recv + p.ssock.n_send)
        return
    if "alertpipe" in P:
        return run_alertpipe(ctx, cid, P)
    if "alert" in P:
        return run_alert(ctx, cid, P)
    if "close" in P:
        return run_close(ctx, cid, P)
    return run_fault(ctx, cid, P)


def run(ctx):
    for cid, P in ctx.cases(make_cases(ctx)):
        run_case(ctx, cid, P)


def finalize(m, tier):
    out = []
    c = m["counters"]
    if c.get("controls", 0) < 5:
        out.append("fewer than 5 honest scripts")
    if c.get("fault_runs", 0) < 300:
        out.append("fewer than 300 fault runs")
    if c.get("fatal_surfaced", 0) == 0:
        out.append("no fatal alert surfaced")
    if c.get("pending_alert_surfaced", 0) == 0:
        out.append("no send failure with a pending alert was surfaced")
    if c.get("full_reads_checked", 0) == 0:
        out.append("read completeness oracle never evaluated")
    if c.get("cache_entry_checked_after_fatal", 0) == 0:
        out.append("no cached session checked after a fatal alert on a "
                   "resumed connection")
    if c.get("http_runs", 0) and c.get("http_truncation_reported", 0) < 2:
        out.append("integration HTTPS client: truncation never observed "
                   "as reported")
    if c.get("makefile_ok", 0) < 4:
        out.append("fewer than 4 makefile() cases ended in order")
    if c.get("reused_objects", 0) < 9:
        out.append("fewer than 9 second sessions on re-used connection "
                   "objects")
    if c.get("orderly_closes", 0) == 0:
        out.append("no orderly close checked")
    return out
