"""C05 - peer credentials are recorded only after proof of possession."""
from vt import boot  # noqa
from vt import pair, flavours, scn, wire, mon, drive, adv, creds
from vt.pair import Pair, Flavor, ver_settings, settings, outcome

from tlslite import errors as E
from tlslite.checker import Checker

LEVEL = "exploration"
RULE = ("per proof site (ServerKeyExchange signature SSLv3..1.2, client "
        "CertificateVerify <=1.2, TLS 1.3 server / client CertificateVerify, "
        "post-handshake auth, SRP, PSK binder, Finished, Checker) x key type "
        "x corruption class: the *prover* is a real endpoint whose private "
        "key is a proxy (signs with another key of the same type, replays a "
        "signature from an earlier handshake, signs under another hash / "
        "padding than announced, signs validly under a scheme the verifier "
        "did not offer, returns flipped / truncated / extended / empty / zero "
        "signatures; its own sign-then-verify guard is told 'ok'), or omits "
        "the proof, or knows the wrong SRP password / PSK; oracle on the "
        "pristine verifier: corrupted => it must not end 'completed with "
        "that identity'; honest control => completes with the identity. "
        "Further sites: copied TLS 1.3 ticket (also in front of an "
        "external PSK the peer does hold), delegated credentials, SRP "
        "with degenerate public values, Checker (mismatch, retry with "
        "the refused session, chains of two certificates, external PSK "
        "next to a pin).   "
        "distinct_nontrivial = distinct (site, key type, class, verdict).")
ASSUMPTIONS = [
    "the corruption is applied inside the prover (key proxy / deviant send "
    "hooks); the verifier is pristine repository code",
    "certificate path validation is out of scope of the library (Checker "
    "only pins fingerprints)",
]
NONTRIVIAL = ["cell"]
DEADLINE = {"quick": 120, "thorough": 900}

OTHER = {"rsa": ("server", "rsa_nonca"), "rsapss": ("server", "rsa"),
         "ecdsa256": ("server", "ecdsa_nonca"), "ecdsa384": ("server",
                                                             "ecdsa256"),
         "ed25519": ("client", "ed25519"), "ed448": ("server", "ed25519"),
         "dsa": ("client", "dsa"), "ecdsa": ("server", "ecdsa256"),
         "ecdsa521": ("server", "ecdsa384"), "bp256": ("server", "bp384")}
CLASSES = ["other_key", "replay", "other_hash", "flip", "trunc", "extend",
           "empty", "zero", "flip_last"]


class KeyProxy(object):
    """wraps a real private key; corrupts what it signs"""

    def __init__(self, real, mode, other=None, store=None, rng=None):
        self.__dict__["real"] = real
        self.__dict__["mode"] = mode
        self.__dict__["other"] = other
        self.__dict__["store"] = store if store is not None else []
        self.__dict__["rng"] = rng
        self.__dict__["calls"] = 0
        self.__dict__["corrupted"] = 0

    def __getattr__(self, n):
        return getattr(self.__dict__["real"], n)

    def __len__(self):
        return len(self.real)

    def _do(self, meth, args, kw):
        self.__dict__["calls"] += 1
        mode = self.mode
        f = getattr(self.real, meth)
        if mode == "honest":
            s = f(*args, **kw)
            self.store.append(bytes(s))
            return s
        self.__dict__["corrupted"] += 1
        if mode == "other_key":
            return getattr(self.other, meth)(*args, **kw)
        if mode == "replay":
            # a valid signature by this key from an earlier handshake
            if self.store:
                return bytearray(self.store[0])
            return f(*args, **kw)
        if mode.startswith("der_"):
            # degenerate (r, s) pairs for DSA / ECDSA
            r, sv = {"der_r1_s0": (1, 0), "der_r0_s0": (0, 0),
                     "der_r1_s1": (1, 1)}[mode]
            return bytearray(b"\x30\x06\x02\x01" + bytes([r]) +
                             b"\x02\x01" + bytes([sv]))
        if mode == "pkcs1_13":
            # a *valid* RSASSA-PKCS1-v1_5 signature over the TLS 1.3
            # CertificateVerify content: a scheme TLS 1.3 never allows here
            names = ["padding", "hashAlg", "saltLen"]
            kw2 = dict(kw)
            for i, nm in enumerate(names):
                if len(args) > i + 1:
                    kw2[nm] = args[i + 1]
            if kw2.get("padding") != "pss":
                self.__dict__["corrupted"] -= 1
                return f(*args, **kw)
            self.__dict__["pkcs1_hash"] = kw2.get("hashAlg")
            return f(args[0], "pkcs1", kw2.get("hashAlg"), 0)
        if mode == "other_hash":
            kw = dict(kw)
            names = ["padding", "hashAlg", "saltLen"]
            a = list(args)
            # normalise positional (bytes, padding, hashAlg, saltLen)
            for i, nm in enumerate(names):
                if len(a) > i + 1:
                    kw[nm] = a[i + 1]
            a = a[:1]
            h = kw.get("hashAlg") or kw.get("hAlg")
            swap = {"sha1": "sha256", "sha224": "sha256", "sha256": "sha384",
                    "sha384": "sha512", "sha512": "sha256", None: "sha256",
                    "md5": "sha1", "intrinsic": "intrinsic"}
            if kw.get("padding") == "pss":
                kw["hashAlg"] = swap.get(h, "sha256")
                import hashlib
                kw["saltLen"] = getattr(hashlib, kw["hashAlg"])().digest_size
            elif kw.get("padding") == "pkcs1" and self.real.key_type == "rsa":
                # the hash is inside the DigestInfo that was passed in:
                # sign different bytes instead
                a[0] = bytearray(a[0])
                a[0][0] ^= 0x40
            elif "hashAlg" in kw and h != "intrinsic":
                kw["hashAlg"] = swap.get(h, "sha256")
                if self.real.key_type in ("ecdsa", "dsa"):
                    a[0] = bytearray(a[0])
                    a[0][0] ^= 0x40
            else:
                a[0] = bytearray(a[0])
                if len(a[0]):
                    a[0][0] ^= 0x40
            return f(*a, **kw)
        s = bytearray(f(*args, **kw))
        if mode == "flip":
            i = self.rng.randrange(len(s)) if self.rng else len(s) // 2
            s[i] ^= 1 << (self.rng.randrange(8) if self.rng else 0)
        elif mode == "flip_last":
            s[-1] ^= 1
        elif mode == "trunc":
            s = s[:-1]
        elif mode == "extend":
            s = s + bytearray(1)
        elif mode == "empty":
            s = bytearray()
        elif mode == "zero":
            s = bytearray(len(s))
        return s

    def sign(self, *a, **kw):
        return self._do("sign", a, kw)

    def hashAndSign(self, *a, **kw):
        return self._do("hashAndSign", a, kw)

    def verify(self, *a, **kw):
        return True

    def hashAndVerify(self, *a, **kw):
        return True


def load_key(table, name):
    return (creds.server if table == "server" else creds.client)(name,
                                                                 fresh=True)


# ---------------------------------------------------------------- sites
def sites(ctx):
    """(site name, version, key name, flavour factory(prover_key) -> Flavor,
    prover role)"""
    S = []
    V = pair.VERSIONS
    for ver in V[:4]:
        for kx, k in (("dhe_rsa", "rsa"), ("ecdhe_rsa", "rsa"),
                      ("ecdhe_ecdsa", "ecdsa256"), ("dhe_dsa", "dsa"),
                      ("srp_sha_rsa", "rsa")):
            S.append(("ske", ver, k, kx, "server"))
        if ver == (3, 3):
            for kx, k in (("ecdhe_ecdsa", "ed25519"), ("ecdhe_ecdsa",
                                                       "ed448"),
                          ("ecdhe_rsa", "rsapss"), ("ecdhe_ecdsa",
                                                    "ecdsa384")):
                S.append(("ske", ver, k, kx, "server"))
        for k in ("rsa", "ecdsa", "dsa") + (("ed25519",) if ver == (3, 3)
                                            else ()):
            S.append(("client_cv", ver, k, "ecdhe_rsa", "client"))
    for k in ("rsa", "rsapss", "ecdsa256", "ecdsa384", "ed25519", "ed448",
              "bp256"):
        S.append(("cv13_server", (3, 4), k, None, "server"))
    for k in ("rsa", "ecdsa", "ed25519"):
        S.append(("cv13_client", (3, 4), k, None, "client"))
        S.append(("pha", (3, 4), k, None, "client"))
    return S


def make_cases(ctx):
    for (site, ver, k, kx, role) in sites(ctx):
        base = "%s-%d%d-%s-%s" % (site, ver[0], ver[1], k, kx)
        yield base + "-honest", dict(site=site, ver=ver, key=k, kx=kx,
                                     role=role, cls="honest")
        for cls in CLASSES:
            reps = ctx.pick(1, 6) if cls in ("flip",) else 1
            for r in range(reps):
                yield "%s-%s-%d" % (base, cls, r), dict(
                    site=site, ver=ver, key=k, kx=kx, role=role, cls=cls)
        yield base + "-omit", dict(site=site, ver=ver, key=k, kx=kx,
                                   role=role, cls="omit")
        yield base + "-unoffered", dict(site=site, ver=ver, key=k, kx=kx,
                                        role=role, cls="unoffered_scheme")
        if ver == (3, 4) and k == "rsa":
            yield base + "-pkcs1_13", dict(site=site, ver=ver, key=k, kx=kx,
                                           role=role, cls="pkcs1_13")
        if k in ("dsa", "ecdsa", "ecdsa256", "ecdsa384", "ecdsa521", "bp256"):
            for dcls in ("der_r1_s0", "der_r0_s0", "der_r1_s1"):
                yield base + "-" + dcls, dict(site=site, ver=ver, key=k,
                                              kx=kx, role=role, cls=dcls)
        if site == "pha":
            yield base + "-badfin", dict(site=site, ver=ver, key=k, kx=kx,
                                         role=role, cls="pha_bad_finished")
    for ver in pair.VERSIONS[:4]:
        for what in ("honest", "wrong_password", "wrong_user", "B_zero",
                     "A_zero", "A_N", "A_2N", "A_kN", "B_N", "B_2N"):
            yield "srp-%d%d-%s" % (ver[0], ver[1], what), dict(
                site="srp", ver=ver, cls=what)
    for what in ("honest", "wrong_secret", "wrong_hash", "other_identity"):
        for mode in ("psk_ke", "psk_dhe_ke"):
            yield "psk-%s-%s" % (what, mode), dict(site="psk", cls=what,
                                                   mode=mode)
    for sc in ("ssl3-rsa", "tls10-dhe_rsa", "tls11-ecdhe_rsa",
               "tls12-ecdhe_ecdsa", "tls12-resume-id", "tls12-resume-ticket",
               "tls13-rsa", "tls13-psk_dhe", "tls13-resume-ticket",
               "tls13-clientauth"):
        for role in ("client", "server"):
            for what in ("honest", "flip_first", "flip_last", "zero",
                         "short"):
                yield "fin-%s-%s-%s" % (sc, role, what), dict(
                    site="finished", sc=sc, role=role, cls=what)
    for ver in ((3, 1), (3, 3)):
        for kind in ("cert", "anon"):
            for db in (False, True):
                yield "srpclaim-%d-%s-%d" % (ver[1], kind, db), dict(
                    site="srp_claim", ver=ver, kind=kind, db=db)
    for what in ("honest", "other_hash", "same_hash", "both",
                 "ticket_then_ext_psk"):
        yield "stolen-ticket-%s" % what, dict(site="stolen_ticket", cls=what)
    for ee, dc in (("ecdsa256", "ed25519"), ("ecdsa256", "ecdsa384"),
                   ("rsa", "ecdsa256"), ("ecdsa384", "rsa")):
        for what in ("honest", "dc_sig_flip", "dc_other_key", "dc_valid_time",
                     "cv_by_ee_key", "dc_signed_by_other"):
            yield "dc-%s-%s-%s" % (ee, dc, what), dict(
                site="dc", cls=what, ee=ee, dc=dc)
    for what in ("honest", "wrong_fp", "no_chain", "psk_with_checker",
                 "honest_chain2", "pinned_cert_not_first",
                 "pinned_cert_not_first_ed", "wrong_fp_srp_cert",
                 "honest_srp_cert"):
        for ver in ((3, 3), (3, 4), (3, 1)):
            yield "checker-%s-%d" % (what, ver[1]), dict(
                site="checker", cls=what, ver=ver)


# ---------------------------------------------------------------- runners
def build_flavor(P, prover_key_proxy, chain, store_settings=None,
                 unoffered=False):
    ver = tuple(P["ver"])
    site, k, kx, role = P["site"], P["key"], P["kx"], P["role"]
    ckw, skw = {}, {}
    if kx:
        ckw["keyExchangeNames"] = [kx]
        skw["keyExchangeNames"] = [kx]
    cs = ver_settings(ver, **ckw)
    ss = ver_settings(ver, **skw)
    if role == "server":
        kind = "srp_cert" if kx == "srp_sha_rsa" else "cert"
        fl = Flavor(kind, skey=k, cset=cs, sset=ss)
        fl.server_kw = dict(certChain=chain, privateKey=prover_key_proxy)
    else:
        fl = Flavor("cert", skey="rsa", cset=cs, sset=ss, req_cert=True)
        fl.client_kw = dict(certChain=chain, privateKey=prover_key_proxy)
    return fl


def client_gen_with(fl, conn):
    kw = dict(session=fl.session, settings=fl.cset, checker=fl.checker_c,
              serverName=fl.sni, async_=True)
    kw.update(fl.client_kw)
    if "certChain" not in kw:
        kw.update(certChain=None, privateKey=None)
    return conn.handshakeClientCert(**kw)


def run_proof(ctx, cid, P):
    ver = tuple(P["ver"])
    site, k, role, cls = P["site"], P["key"], P["role"], P["cls"]
    table = "server" if role == "server" else "client"
    chain, real = load_key(table, k)
    mode = cls if cls in CLASSES or cls == "pkcs1_13" or \
        cls.startswith("der_") else "honest"
    other = None
    if mode == "other_key":
        ot, on = OTHER[k]
        if role == "client":
            ot, on = "server", {"rsa": "rsa", "ecdsa": "ecdsa256",
                                "dsa": "dsa", "ed25519": "ed25519"}[k]
        other = load_key(ot, on)[1]
    store = []
    if mode == "replay":
        # earlier honest handshake of the same case records a signature
        px0 = KeyProxy(real, "honest", store=store)
        fl0 = build_flavor(P, px0, chain)
        p0 = Pair()
        run_pair(p0, fl0, site)
        if not store:
            ctx.count("replay_source_failed")
            return
    px = KeyProxy(real, mode, other=other, store=store, rng=ctx.rng)
    fl = build_flavor(P, px, chain)
    p = Pair()
    holder = {}
    if cls == "omit":
        # the prover leaves its proof message out (consistently)
        want = 12 if site == "ske" else 15

        def rw(i, t, msg, raw):
            if t == want:
                holder["omitted"] = True
                return []
            return None
        adv.Deviant(p.s if role == "server" else p.c, rw)
    if cls == "pkcs1_13":
        hid = {"sha1": 2, "sha224": 3, "sha256": 4, "sha384": 5, "sha512": 6}

        def rw13(i, t, msg, raw):
            h = px.__dict__.get("pkcs1_hash")
            if t == 15 and h in hid:
                holder["relabelled"] = True
                return [adv.Raw(22, raw[:4] + bytes([hid[h], 1]) + raw[6:])]
            return None
        adv.Deviant(p.s if role == "server" else p.c, rw13)
    if cls == "unoffered_scheme":
        if not install_unoffered(p, fl, P, holder):
            ctx.count("unoffered_not_applicable")
            return
    before_pha = None
    if cls == "pha_bad_finished":
        # Certificate and CertificateVerify are honest; the Finished that
        # closes the post-handshake authentication is wrong
        def before_pha(pp):
            def rwf(i, t, msg, raw):
                if t == 20:
                    holder["bad_finished"] = True
                    b = bytearray(raw)
                    b[-1] ^= 1
                    return [adv.Raw(22, bytes(b))]
                return None
            adv.Deviant(pp.c, rwf)
    res = run_pair(p, fl, site, before_pha)
    tc, ts, extra = res
    ctx.ev()
    ctx.count("proof_runs")
    verifier = p.c if role == "server" else p.s
    vt = tc if role == "server" else ts
    ident = None
    sess = verifier.session
    if sess is not None:
        ident = sess.serverCertChain if role == "server" else \
            sess.clientCertChain
    if site == "pha":
        # the session object outlives a failed post-handshake exchange:
        # a chain recorded there counts whether or not the call returned
        vt_done = extra.get("pha_done", False)
        completed = ident is not None and (vt_done or cls != "honest")
    else:
        completed = vt.status == "done" and ident is not None and \
            ident.getNumCerts() > 0
    keytype = {"rsa": "rsa", "rsapss": "rsa-pss"}.get(k, k)
    key = {"site": site, "keytype": keytype, "class": cls,
           "ver": pair.VNAME[ver]}
    W = {"case": cid, "outcome": [outcome(tc), outcome(ts)],
         "proxy_calls": px.calls, "corrupted": px.corrupted,
         "extra": {a: str(b)[:100] for a, b in extra.items()}}
    honest_like = cls == "honest"
    if cls == "pha_bad_finished" and not holder.get("bad_finished"):
        ctx.count("corruption_not_reached")
        return
    if cls == "pkcs1_13" and not holder.get("relabelled"):
        ctx.count("corruption_not_reached")
        return
    if (cls in CLASSES or cls.startswith("der_")) and px.corrupted == 0:
        ctx.count("corruption_not_reached")
        ctx.cell("cell", "%s|%s|%s|not_reached" % (site, keytype, cls))
        return
    if cls == "omit" and not holder.get("omitted"):
        ctx.count("corruption_not_reached")
        return
    if cls == "unoffered_scheme" and not holder.get("forced"):
        ctx.count("corruption_not_reached")
        return
    if honest_like:
        if not completed:
            ctx.violation(dict(key, clause="honest_rejected"), W,
                          "honest prover was not accepted: %r / %r" % (
                              tc.exc, ts.exc))
        else:
            ctx.count("honest_accepted")
        ctx.cell("cell", "%s|%s|honest|%s|%s" % (site, keytype,
                                                pair.VNAME[ver], completed))
        return
    if completed:
        ctx.violation(dict(key, clause="identity_without_proof"), W,
                      "verifier completed with the peer's certificate chain "
                      "although the proof was corrupted (%s)" % cls)
        verdict = "VIOLATION"
    else:
        cl = mon.classify_exc(vt.exc) if vt.exc else vt.status
        verdict = "rejected:" + cl
        ctx.count("rejected")
        if cl.startswith("undocumented"):
            ctx.violation(dict(key, clause="undocumented_exception",
                               exc=type(vt.exc).__name__, frame=vt.frame()),
                          W, repr(vt.exc))
        elif cl.startswith("tls:"):
            ctx.violation(dict(key, clause="no_alert_before_close",
                               exc=type(vt.exc).__name__, frame=vt.frame()),
                          W, repr(vt.exc))
        if cl == "local_alert":
            ctx.cell("alert", "%s:%d" % (site, vt.exc.description))
    ctx.cell("cell", "%s|%s|%s|%s|%s" % (site, keytype, cls, pair.VNAME[ver],
                                        verdict))
    if len(ctx.samples) < 5:
        ctx.sample({"case": cid, "site": site, "keytype": keytype,
                    "class": cls, "verdict": verdict})


def install_unoffered(p, fl, P, holder):
    """the prover signs *validly* under a scheme the verifier did not offer:
    the verifier's settings are narrowed to one scheme, and the prover is
    made to believe another one was offered by editing its parsed view of
    the peer's hello / CertificateRequest (transcript bytes untouched)"""
    site, k, role = P["site"], P["key"], P["role"]
    ver = tuple(P["ver"])
    if ver < (3, 3) or k in ("ed25519", "ed448", "dsa", "bp256"):
        return False
    vset = fl.cset if role == "server" else fl.sset
    if k in ("rsa", "rsapss"):
        vset.rsaSigHashes = ["sha512"]
        force_hash = 4   # sha256
    else:
        vset.ecdsaSigHashes = ["sha512"] if ver < (3, 4) else \
            vset.ecdsaSigHashes
        if ver == (3, 4):
            return False   # curve fixes the hash in TLS 1.3
        force_hash = 4
    prover = p.s if role == "server" else p.c
    og = prover._getMsg

    def _getMsg(*a, **kw):
        for r in og(*a, **kw):
            if not isinstance(r, int):
                exts = getattr(r, "extensions", None)
                sa = None
                if role == "server" and type(r).__name__ == "ClientHello":
                    from tlslite.constants import ExtensionType
                    sa = r.getExtension(ExtensionType.signature_algorithms)
                    if sa is not None and sa.sigalgs:
                        sa.sigalgs = [(force_hash, x[1]) if x[0] == 6 or
                                      (x[0] == 8 and x[1] in (6, 11))
                                      else x for x in sa.sigalgs]
                        sa.sigalgs = [((8, 4) if x == (8, 6) else
                                       (8, 9) if x == (8, 11) else x)
                                      for x in sa.sigalgs]
                        holder["forced"] = True
                if role == "client" and \
                        type(r).__name__ == "CertificateRequest":
                    algs = r.supported_signature_algs
                    if algs:
                        r.supported_signature_algs = [
                            ((8, 4) if x == (8, 6) else (8, 9) if x == (8, 11)
                             else (force_hash, x[1]) if x[0] == 6 else x)
                            for x in algs]
                        holder["forced"] = True
            yield r
    prover._getMsg = _getMsg
    return True


def run_pair(p, fl, site, before_pha=None):
    extra = {}
    if site != "pha":
        tc, ts = p.run(client_gen_with(fl, p.c) if fl.client_kw else
                       fl.client_gen(p.c), fl.server_gen(p.s))
        return tc, ts, extra
    # post-handshake authentication: handshake without request, then PHA
    fl.req_cert = False
    tc, ts = p.run(client_gen_with(fl, p.c), fl.server_gen(p.s))
    if tc.status != "done" or ts.status != "done":
        return tc, ts, extra
    before = p.s.session.clientCertChain
    if before_pha is not None:
        before_pha(p)

    def sprog():
        for r in p.s.request_post_handshake_auth():
            yield r
        r = yield from drive.aread(p.s, None, 0)
        return r

    def cprog():
        r = yield from drive.aread(p.c, None, 0)
        return r
    t2c, t2s = p.run(cprog(), sprog())
    extra["pha_before"] = before
    extra["pha_done"] = t2s.status == "done"
    extra["pha_client"] = outcome(t2c)
    extra["pha_server"] = outcome(t2s)
    if before is not None:
        extra["pha_done"] = False
    return t2c, t2s, extra


def run_srp(ctx, cid, P):
    ver = tuple(P["ver"])
    cls = P["cls"]
    user, pw = creds.SRP_USER, creds.SRP_PASS
    if cls == "wrong_password":
        pw = "not-the-password"
    if cls == "wrong_user":
        user = "user2"     # exists, but with another password
    cs = ver_settings(ver, keyExchangeNames=["srp_sha"])
    ss = ver_settings(ver, keyExchangeNames=["srp_sha"])
    fl = Flavor("srp", cset=cs, sset=ss, srp_user=user, srp_pass=pw)
    p = Pair()
    holder = {}
    if cls in ("A_N", "A_2N", "A_kN"):
        # the attacker does not know the password: A = k*N makes the
        # server's secret (A * v^u)^b collapse to 0, which the attacker then
        # uses as premaster secret
        from tlslite.keyexchange import SRPKeyExchange
        from tlslite.utils.cryptomath import numberToByteArray
        fl.srp_pass = "not-the-password"
        k = {"A_N": 1, "A_2N": 2}.get(cls) or (3 + ctx.rng.randrange(1000))
        orig = SRPKeyExchange.processServerKeyExchange

        def psk(self, srvPublicKey, serverKeyExchange):
            orig(self, srvPublicKey, serverKeyExchange)
            self.A = k * serverKeyExchange.srp_N
            holder["done"] = True
            return numberToByteArray(0)
        holder["restore"] = (SRPKeyExchange, orig)
        SRPKeyExchange.processServerKeyExchange = psk
    if cls in ("B_zero", "A_zero", "B_N", "B_2N"):
        who = p.s if cls[0] == "B" else p.c
        want = 12 if cls[0] == "B" else 16
        mult = {"B_N": 1, "B_2N": 2}.get(cls, 0)

        def rw(i, t, msg, raw):
            if t != want:
                return None
            body = bytearray(raw[4:])
            if cls == "A_zero":
                ln = wire.u16(body, 0)
                body[2:2 + ln] = b"\x00" * ln
            else:
                s = wire.parse_ske(bytes(body), "srp", ver)
                # B is the last vector of the params
                nb = (s.B.bit_length() + 7) // 8
                i0 = len(s.params) - nb
                nv = (mult * s.N).to_bytes(max(1, ((mult * s.N).bit_length()
                                                  + 7) // 8), "big")
                if mult == 0:
                    nv = b"\x00" * nb
                body[i0 - 2:i0 + nb] = wire.p16(len(nv)) + nv
                # the server signs nothing in plain SRP: no signature to fix
            holder["done"] = True
            return [adv.Raw(22, wire.hs_msg(want, body))]
        adv.Deviant(who, rw)
    try:
        tc, ts = p.handshake(fl)
    finally:
        if "restore" in holder:
            holder["restore"][0].processServerKeyExchange = \
                holder["restore"][1]
    ctx.ev()
    key = {"site": "srp", "class": cls, "ver": pair.VNAME[ver]}
    W = {"case": cid, "outcome": [outcome(tc), outcome(ts)]}
    sname = p.s.session.srpUsername if p.s.session else None
    both = tc.status == "done" and ts.status == "done"
    if cls == "honest":
        if not both or sname != creds.SRP_USER:
            ctx.violation(dict(key, clause="honest_rejected"), W,
                          "%r %r" % (tc.exc, ts.exc))
        else:
            ctx.count("honest_accepted")
    else:
        if cls not in ("wrong_password", "wrong_user") and \
                not holder.get("done"):
            ctx.count("corruption_not_reached")
            return
        victim_done = ts.status == "done" if cls[0] != "B" else \
            tc.status == "done"
        if victim_done:
            ctx.violation(dict(key, clause="identity_without_proof"), W,
                          "SRP verifier completed with class %s (user %r)" %
                          (cls, sname))
        else:
            ctx.count("rejected")
            vt = ts if cls[0] != "B" else tc
            cl = mon.classify_exc(vt.exc) if vt.exc else vt.status
            if cl.startswith("undocumented"):
                ctx.violation(dict(key, clause="undocumented_exception",
                                   exc=type(vt.exc).__name__,
                                   frame=vt.frame()), W, repr(vt.exc))
    ctx.cell("cell", "srp|%s|%s|%s" % (cls, pair.VNAME[ver], both))


def run_psk(ctx, cid, P):
    cls, mode = P["cls"], P["mode"]
    good = (creds.PSK_ID, creds.PSK_SECRET, "sha256")
    cpsk = good
    if cls == "wrong_secret":
        cpsk = (creds.PSK_ID, b"\x42" * 32, "sha256")
    if cls == "wrong_hash":
        cpsk = (creds.PSK_ID, creds.PSK_SECRET, "sha384")
    if cls == "other_identity":
        cpsk = (b"someone-else", creds.PSK_SECRET, "sha256")
    cs = ver_settings((3, 4), pskConfigs=[cpsk], psk_modes=[mode])
    ss = ver_settings((3, 4), pskConfigs=[good], psk_modes=[mode])
    # no certificate fallback: the PSK is the only credential
    fl = Flavor("psk", skey=None, cset=cs, sset=ss)
    p = Pair()
    tc, ts = p.handshake(fl)
    ctx.ev()
    both = tc.status == "done" and ts.status == "done"
    key = {"site": "psk", "class": cls, "mode": mode}
    W = {"case": cid, "outcome": [outcome(tc), outcome(ts)]}
    if cls == "honest":
        if not both:
            ctx.violation(dict(key, clause="honest_rejected"), W,
                          "%r %r" % (tc.exc, ts.exc))
        else:
            ctx.count("honest_accepted")
    elif ts.status == "done":
        ctx.violation(dict(key, clause="identity_without_proof"), W,
                      "server completed a PSK-only handshake with %s" % cls)
    else:
        ctx.count("rejected")
        for t in (tc, ts):
            if t.exc is not None and mon.classify_exc(t.exc).startswith(
                    "undocumented"):
                ctx.violation(dict(key, clause="undocumented_exception",
                                   exc=type(t.exc).__name__,
                                   frame=t.frame()), W, repr(t.exc))
    ctx.cell("cell", "psk|%s|%s|%s" % (cls, mode, both))


def run_stolen_ticket(ctx, cid, P):
    """a TLS 1.3 ticket issued to a certificate-authenticated client is
    copied by someone who holds neither the resumption secret nor the
    client's key and offered as a PSK identity with a junk secret"""
    from vt.flavours import TK, pump
    var = P["cls"]
    ext = (creds.PSK_ID, creds.PSK_SECRET, "sha256")
    c1 = ver_settings((3, 4), cipherNames=[
        "aes256gcm" if var == "ticket_then_ext_psk" else "aes128gcm"])
    s1 = ver_settings((3, 4), ticketKeys=TK)
    fl = Flavor("cert", skey="rsa", ckey="rsa", req_cert=True, cset=c1,
                sset=s1)
    p = Pair()
    tc, ts = p.handshake(fl)
    if tc.status != "done" or ts.status != "done" or \
            p.s.session.clientCertChain is None:
        ctx.inconc("stolen_ticket: source handshake failed %r %r" % (
            tc.exc, ts.exc))
        return
    pump(p, p.c, p.csock)
    if not p.c.tickets:
        ctx.inconc("stolen_ticket: no ticket issued")
        return
    victim_fp = p.s.session.clientCertChain.getFingerprint()
    blob = bytearray(p.c.tickets[0].ticket)
    if var == "honest":
        # the rightful owner resumes: identity carried over legitimately
        fl2 = Flavor("cert", skey="rsa", req_cert=True,
                     cset=ver_settings((3, 4), cipherNames=["aes128gcm"]),
                     sset=ver_settings((3, 4), ticketKeys=TK),
                     session=p.c.session)
    elif var == "ticket_then_ext_psk":
        # the copied ticket (issued under a SHA-384 suite, unusable with the
        # SHA-256 suite on offer) in front of an external PSK the peer does
        # hold: the handshake is keyed by the external PSK only, and that
        # proves nothing about the ticket's owner
        cs = ver_settings((3, 4), cipherNames=["aes128gcm"],
                          pskConfigs=[(blob, bytearray(48), "sha384"), ext])
        fl2 = Flavor("psk", skey="rsa", req_cert=True, cset=cs,
                     sset=ver_settings((3, 4), ticketKeys=TK,
                                       pskConfigs=[ext]))
    else:
        suites = {"other_hash": ["aes256gcm"], "same_hash": ["aes128gcm"],
                  "both": ["aes256gcm", "aes128gcm"]}[var]
        h = "sha384" if var == "claims_sha384" else "sha256"
        cs = ver_settings((3, 4), cipherNames=suites,
                          pskConfigs=[(blob, bytearray(32), h)])
        fl2 = Flavor("cert", skey="rsa", req_cert=True, cset=cs,
                     sset=ver_settings((3, 4), ticketKeys=TK))
    p2 = Pair()
    tc2, ts2 = p2.handshake(fl2)
    ctx.ev()
    key = {"site": "stolen_ticket", "class": var}
    W = {"case": cid, "outcome": [outcome(tc2), outcome(ts2)]}
    sess = p2.s.session
    chain = sess.clientCertChain if sess is not None else None
    has_id = chain is not None and chain.getNumCerts() > 0
    if var == "honest":
        if ts2.status != "done" or not has_id or not p2.s.resumed:
            ctx.violation(dict(key, clause="honest_rejected"), W,
                          "owner of the ticket did not resume with its "
                          "identity: %r resumed=%r id=%r" % (
                              ts2.exc, p2.s.resumed, has_id))
        else:
            ctx.count("honest_accepted")
    elif ts2.status == "done" and (has_id or p2.s.resumed):
        ctx.violation(dict(key, clause="identity_without_proof",
                           resumed=bool(p2.s.resumed), identity=has_id), W,
                      "server completed with clientCertChain=%s resumed=%r "
                      "for a peer that proved nothing" % (
                          "victim's" if has_id and chain.getFingerprint() ==
                          victim_fp else has_id, p2.s.resumed))
    else:
        ctx.count("rejected" if ts2.status != "done"
                  else "completed_anonymous")
    ctx.cell("cell", "stolen_ticket|%s|%s|%s|%s" % (
        var, outcome(ts2)[0], has_id, bool(p2.s.resumed)))


def run_dc(ctx, cid, P):
    """delegated credentials (RFC 9345): the end-entity key signs a
    credential naming another key, and that key signs CertificateVerify"""
    from tlslite.x509 import Credential, DelegatedCredential
    from tlslite.utils.asn1parser import ASN1Parser
    cls, eek, dck = P["cls"], P["ee"], P["dc"]

    def spki_of(cert):
        return bytes(ASN1Parser(cert.bytes).getChild(0).getChildBytes(6))
    SCH = {"ecdsa256": ((4, 3), "sha256"), "ecdsa384": ((5, 3), "sha384"),
           "ed25519": ((8, 7), "intrinsic"), "rsa": ((8, 4), "sha256")}
    ee_chain, ee_key = creds.server(eek)
    dc_chain, dc_key = creds.server(dck)
    ee_alg, ee_hash = SCH[eek]
    dc_alg = SCH[dck][0]

    def sign_ee(key, data, alg, hname):
        if alg[0] == 8 and alg[1] in (7, 8):
            return key.hashAndSign(bytearray(data), None, "intrinsic", None)
        if alg == (8, 4):
            return key.hashAndSign(bytearray(data), "pss", hname, 32)
        return key.hashAndSign(bytearray(data), None, hname, None)

    def mk(spki, valid=3600, alg=dc_alg, sigalg=ee_alg, signer=ee_key,
           signed_cred=None):
        cb = Credential.marshal(valid, alg, bytearray(spki))
        ctxb = DelegatedCredential.compute_certificate_dc_sig_context(
            ee_chain.x509List[0].bytes, signed_cred or cb, sigalg)
        sig = sign_ee(signer, ctxb, sigalg, SCH[eek][1])
        cred = Credential(valid_time=valid, dc_cert_verify_algorithm=alg,
                          subject_public_key_info=bytearray(spki), bytes=cb)
        return DelegatedCredential(cred=cred, algorithm=sigalg,
                                   signature=sig)
    spki = spki_of(dc_chain.x509List[0])
    honest_cb = Credential.marshal(3600, dc_alg, bytearray(spki))
    use_key = dc_key
    if cls == "honest":
        dc = mk(spki)
    elif cls == "dc_sig_flip":
        dc = mk(spki)
        b = bytearray(dc.signature)
        b[ctx.rng.randrange(len(b))] ^= 1 << ctx.rng.randrange(8)
        dc.signature = b
    elif cls == "dc_other_key":
        # the attacker's own key in the credential, the delegation
        # signature copied from the honest credential
        if dck not in ("ed25519", "ecdsa256", "rsa"):
            ctx.count("dc_class_not_applicable")
            return
        oth_chain, oth_key = creds.client(dck) if dck == "ed25519" else \
            creds.server({"ecdsa256": "ecdsa_nonca",
                          "rsa": "rsa_nonca"}[dck])
        dc = mk(spki_of(oth_chain.x509List[0]), signed_cred=honest_cb)
        use_key = oth_key
    elif cls == "dc_valid_time":
        dc = mk(spki, valid=7 * 86400 - 1, signed_cred=honest_cb)
    elif cls == "cv_by_ee_key":
        dc = mk(spki)
        use_key = ee_key
    elif cls == "dc_signed_by_other":
        if eek not in ("ecdsa256", "rsa"):
            ctx.count("dc_class_not_applicable")
            return
        oth = creds.server({"ecdsa256": "ecdsa_nonca",
                            "rsa": "rsa_nonca"}[eek])
        dc = mk(spki, signer=oth[1])
    else:
        return
    cs = ver_settings((3, 4), dc_sig_algs=[dc_alg])
    ss = ver_settings((3, 4))
    fl = Flavor("cert", skey=eek, cset=cs, sset=ss)
    fl.server_kw = dict(dc_key=KeyProxy(use_key, "honest"), del_cred=dc)
    p = Pair()
    tc, ts = p.handshake(fl)
    ctx.ev()
    ctx.count("proof_runs")
    sess = p.c.session
    ident = sess.serverCertChain if sess is not None else None
    used = getattr(sess, "delegated_credential", None) if sess else None
    completed = tc.status == "done" and ident is not None
    key = {"site": "delegated_credential", "keytype": "%s/%s" % (eek, dck),
           "class": cls, "ver": "TLS1.3"}
    W = {"case": cid, "outcome": [outcome(tc), outcome(ts)]}
    if cls == "honest":
        if not completed or used is None:
            ctx.violation(dict(key, clause="honest_rejected"), W,
                          "honest delegated credential not accepted: %r / %r"
                          % (tc.exc, ts.exc))
        else:
            ctx.count("honest_accepted")
    elif completed:
        ctx.violation(dict(key, clause="identity_without_proof"), W,
                      "client completed with the server chain although the "
                      "delegated credential was %s" % cls)
    else:
        ctx.count("rejected")
        cl = mon.classify_exc(tc.exc) if tc.exc else tc.status
        if cl.startswith("undocumented"):
            ctx.violation(dict(key, clause="undocumented_exception",
                               exc=type(tc.exc).__name__, frame=tc.frame()),
                          W, repr(tc.exc))
        elif cl.startswith("tls:"):
            ctx.violation(dict(key, clause="no_alert_before_close",
                               exc=type(tc.exc).__name__, frame=tc.frame()),
                          W, repr(tc.exc))
    ctx.cell("cell", "dc|%s/%s|%s|%s" % (eek, dck, cls, outcome(tc)[0]))


def run_finished(ctx, cid, P):
    sc = flavours.BY_NAME[P["sc"]]
    role, cls = P["role"], P["cls"]
    holder = {}

    def tweak(p, fl):
        if cls == "honest":
            return

        def rw(i, t, msg, raw):
            if t != 20 or holder.get("done"):
                return None
            b = bytearray(raw)
            if cls == "flip_first":
                b[4] ^= 1
            elif cls == "flip_last":
                b[-1] ^= 0x80
            elif cls == "zero":
                b[4:] = b"\x00" * (len(b) - 4)
            elif cls == "short":
                b = bytearray(wire.hs_msg(20, bytes(b[4:-1])))
            holder["done"] = True
            return [adv.Raw(22, b)]
        adv.Deviant(p.c if role == "client" else p.s, rw)
    label = "C05/" + cid
    R = scn.run(sc, label, tweak=tweak)
    ctx.ev()
    v_hs = R.s_hs if role == "client" else R.c_hs
    vt = R.ts if role == "client" else R.tc
    fam = "tls13" if sc.ver == (3, 4) else "le12"
    key = {"site": "finished", "class": cls, "fam": fam,
           "victim": "server" if role == "client" else "client"}
    W = {"case": cid, "scenario": sc.name,
         "outcome": [outcome(R.tc), outcome(R.ts)]}
    if cls == "honest":
        if not (R.c_hs and R.s_hs):
            ctx.violation(dict(key, clause="honest_rejected"), W, "")
        else:
            ctx.count("honest_accepted")
    elif not holder.get("done"):
        ctx.count("corruption_not_reached")
        return
    elif v_hs:
        ctx.violation(dict(key, clause="bad_finished_accepted"), W,
                      "victim completed although the peer's Finished was "
                      "corrupted (%s)" % cls)
    else:
        ctx.count("rejected")
        cl = mon.classify_exc(vt.exc) if vt.exc else vt.status
        if cl.startswith("undocumented") or cl.startswith("tls:"):
            ctx.violation(dict(key, clause="undocumented_exception" if
                               cl.startswith("undoc") else
                               "no_alert_before_close",
                               exc=type(vt.exc).__name__, frame=vt.frame()),
                          W, repr(vt.exc))
    ctx.cell("cell", "finished|%s|%s|%s|%s" % (sc.name, role, cls, v_hs))


def run_checker(ctx, cid, P):
    ver = tuple(P["ver"])
    cls = P["cls"]
    chain, key_ = creds.server("rsa")
    fp = chain.getFingerprint()
    if cls in ("wrong_fp", "wrong_fp_srp_cert"):
        fp = "00" * (len(fp) // 2)
    chk = Checker(x509Fingerprint=fp)
    kind = "cert"
    if cls == "no_chain":
        kind = "anon"
        ver = (3, 3)
    if cls in ("wrong_fp_srp_cert", "honest_srp_cert"):
        # the SRP client entry point takes a checker too (SRP_SHA_RSA
        # suites show the server's certificate)
        if ver == (3, 4):
            return
        kind = "srp_cert"
    cs = ver_settings(ver)
    ss = ver_settings(ver)
    from tlslite.sessioncache import SessionCache
    from vt.flavours import TK
    cache = SessionCache()
    ss.ticketKeys = TK
    if cls == "psk_with_checker":
        # an external PSK is configured next to the pinned certificate: the
        # PSK handshake shows no certificate, the pin cannot be checked
        ver = (3, 4)
        psk = (creds.PSK_ID, creds.PSK_SECRET, "sha256")
        cs = ver_settings(ver, pskConfigs=[psk])
        ss = ver_settings(ver, pskConfigs=[psk])
        kind = "psk"
    fl = Flavor(kind, skey="rsa", cset=cs, sset=ss, checker_c=chk,
                session_cache=cache)
    if cls in ("honest_chain2", "pinned_cert_not_first",
               "pinned_cert_not_first_ed"):
        # chains of two certificates: the identity a Checker looks at is the
        # end-entity certificate, the one whose key made the proof
        from tlslite.x509certchain import X509CertChain
        other = {"honest_chain2": "ecdsa256",
                 "pinned_cert_not_first": "ecdsa256",
                 "pinned_cert_not_first_ed": "ed25519"}[cls]
        if cls == "pinned_cert_not_first_ed" and ver < (3, 3):
            return
        ochain, okey = creds.server(other)
        if cls == "honest_chain2":
            two, k2 = [chain.x509List[0], ochain.x509List[0]], key_
        else:
            # the impostor holds only its own key and appends the pinned
            # certificate to its chain
            two, k2 = [ochain.x509List[0], chain.x509List[0]], okey
        fl.skey = other if cls != "honest_chain2" else "rsa"
        fl.server_kw = dict(certChain=X509CertChain(two), privateKey=k2)
    p = Pair()
    tc, ts = p.handshake(fl)
    ctx.ev()
    key = {"site": "checker", "class": cls, "ver": pair.VNAME[ver]}
    W = {"case": cid, "outcome": [outcome(tc), outcome(ts)]}
    if cls in ("honest", "honest_chain2", "honest_srp_cert"):
        if tc.status != "done":
            ctx.violation(dict(key, clause="honest_rejected"), W, repr(tc.exc))
        else:
            ctx.count("honest_accepted")
    else:
        if tc.status == "done":
            ctx.violation(dict(key, clause="checker_mismatch_ignored"), W,
                          "handshake call returned although the Checker "
                          "does not match")
        elif not isinstance(tc.exc, E.TLSAuthenticationError):
            ctx.violation(dict(key, clause="checker_wrong_exception",
                               exc=type(tc.exc).__name__), W, repr(tc.exc))
        else:
            ctx.count("rejected")
            if not p.c.closed:
                ctx.violation(dict(key, clause="checker_not_closed"), W, "")
            # the refused connection's session must not help a retry past
            # the checker (resumed connections are not checked again)
            sess = p.c.session
            if sess is not None:
                fl.session = sess
                p2 = Pair()
                t2c, t2s = p2.handshake(fl)
                ctx.ev()
                ctx.count("checker_retries")
                if t2c.status == "done":
                    ctx.violation(dict(key, clause="checker_mismatch_ignored",
                                       retry=True,
                                       resumed=bool(p2.c.resumed)),
                                  dict(W, retry=[outcome(t2c), outcome(t2s)]),
                                  "retry with the refused connection's "
                                  "session completed (resumed=%s)" %
                                  p2.c.resumed)
    ctx.cell("cell", "checker|%s|%s|%s" % (cls, pair.VNAME[ver], tc.status))


def run_srp_claim(ctx, cid, P):
    """a client in a certificate (or anonymous) handshake merely *names* an
    SRP user in its ClientHello: no password proof takes place, so no SRP
    identity may be recorded"""
    from tlslite.utils.codec import Writer
    ver = tuple(P["ver"])
    kind = P["kind"]
    cs = ver_settings(ver)
    ss = ver_settings(ver)
    fl = Flavor(kind, skey="rsa" if kind == "cert" else None, cset=cs,
                sset=ss)
    if P["db"]:
        fl.server_kw = dict(verifierDB=creds.verifier_db())
    p = Pair()
    st = {"hit": False}

    def rw(i, t, msg, raw):
        if t != 1 or st["hit"]:
            return None
        h = wire.parse_client_hello(bytes(raw[4:]))
        name = creds.SRP_USER.encode()
        h.exts = [(a, b) for a, b in (h.exts or []) if a != 12] + \
            [(12, bytes([len(name)]) + name)]
        st["hit"] = True
        return [adv.Raw(22, wire.hs_msg(1, wire.ser_client_hello(h)))]
    adv.Deviant(p.c, rw)
    tc, ts = p.handshake(fl)
    ctx.ev()
    key = {"site": "srp_claim", "class": kind, "ver": pair.VNAME[ver]}
    W = {"case": cid, "outcome": [outcome(tc), outcome(ts)],
         "verifier_db": P["db"]}
    if not st["hit"]:
        ctx.count("corruption_not_reached")
        return
    sess = p.s.session
    if ts.status == "done" and sess is not None and sess.srpUsername:
        ctx.violation(dict(key, clause="identity_without_proof",
                           identity="srpUsername"), W,
                      "server completed a %s handshake and recorded "
                      "srpUsername=%r, which the client only named in its "
                      "hello" % (kind, sess.srpUsername))
    else:
        ctx.count("rejected" if ts.status != "done"
                  else "completed_anonymous")
    ctx.cell("cell", "srp_claim|%s|%s|%s" % (kind, pair.VNAME[ver],
                                            outcome(ts)[0]))


def run(ctx):
    for cid, P in ctx.cases(make_cases(ctx)):
        s = P["site"]
        if s == "srp_claim":
            run_srp_claim(ctx, cid, P)
        elif s == "srp":
            run_srp(ctx, cid, P)
        elif s == "psk":
            run_psk(ctx, cid, P)
        elif s == "finished":
            run_finished(ctx, cid, P)
        elif s == "checker":
            run_checker(ctx, cid, P)
        elif s == "stolen_ticket":
            run_stolen_ticket(ctx, cid, P)
        elif s == "dc":
            run_dc(ctx, cid, P)
        else:
            run_proof(ctx, cid, P)


def finalize(m, tier):
    out = []
    c = m["counters"]
    if c.get("honest_accepted", 0) < 40:
        out.append("fewer than 40 honest controls accepted")
    if c.get("rejected", 0) < 200:
        out.append("fewer than 200 corrupted proofs rejected")
    cells = m["cells"].get("cell", set())
    for site in ("ske", "client_cv", "cv13_server", "cv13_client", "pha",
                 "srp", "psk", "finished", "checker"):
        if not any(x.startswith(site + "|") for x in cells):
            out.append("no evaluation at proof site " + site)
    return out
