"""C01 - application data is delivered exactly, in order; record limits."""
from vt import boot  # noqa
from vt import pair, suites, mon, drive
from vt.pair import Pair, outcome

LEVEL = "exploration"
RULE = ("one case = one live client/server pair forced to a (suite, version, "
        "EtM, record_size_limit pair, padding callback) cell, then a seeded "
        "history of writes/reads/recordSize changes in both directions; "
        "payload bytes are position-stamped so the FIFO model identifies "
        "loss/duplication/reordering; every wire record's plaintext length "
        "(exact, from the receiving record layer and from the wire length "
        "minus the suite's IANA-defined expansion) is compared with the limit "
        "in force.  distinct_nontrivial counts distinct (version,suite,EtM) "
        "triples with >0 bytes compared in both directions plus distinct "
        "(limit,recordSize,padding,length-class) cells.")
ASSUMPTIONS = [
    "python cipher implementations only (no m2crypto/pycrypto installed)",
    "in-memory transport; chunking/blocking variations are C14's job",
    "recordSize <= 0 is outside the domain",
]
NONTRIVIAL = ["triple", "limitcell", "lenclass"]
DEADLINE = {"quick": 150, "thorough": 900}

RSL = [None, 64, 65, 512, 2 ** 14, 2 ** 14 + 1]
RECSIZES = [1, 2, 15, 16, 17, 255, 2 ** 14]
PADS = ["none", "const", "fill", "random"]


def negotiated(ver, c_rsl, s_rsl):
    """(payload limit for client->server, for server->client, and the total
    inner-plaintext limits for TLS 1.3) computed from the two settings"""
    if ver == (3, 0) or c_rsl is None or s_rsl is None:
        return 2 ** 14, 2 ** 14, 2 ** 14 + 1, 2 ** 14 + 1
    if ver < (3, 4):
        return min(2 ** 14, s_rsl), min(2 ** 14, c_rsl), None, None
    return (min(2 ** 14 + 1, s_rsl) - 1, min(2 ** 14 + 1, c_rsl) - 1,
            min(2 ** 14 + 1, s_rsl), min(2 ** 14 + 1, c_rsl))


def lenclass(n, limit, block):
    if n == 0:
        return "0"
    if n == 1:
        return "1"
    for b, nm in ((limit, "limit"), (2 ** 14, "2^14"), (block or 16, "block")):
        if b and n == b - 1:
            return nm + "-1"
        if b and n == b:
            return nm
        if b and n == b + 1:
            return nm + "+1"
    if n > 2 ** 14 + 1:
        return ">2^14"
    return "mid"


def make_cases(ctx):
    rng = ctx.case_rng("plan")
    cells = []
    for sid in suites.NEGOTIABLE:
        su = suites.TABLE[sid]
        for ver in pair.VERSIONS:
            if not su.defined_for(ver):
                continue
            if su.name.startswith("TLS_DHE_DSS") and su.mac == "sha256":
                continue   # never negotiable in tlslite-ng (see C20)
            cells.append((sid, ver))
    reps = ctx.pick(1, 6)
    for rep in range(reps):
        for sid, ver in cells:
            su = suites.TABLE[sid]
            etms = [True, False] if su.cipher_kind == "cbc" else [True]
            if ctx.quick:
                etms = [rng.choice(etms)]
            for etm in etms:
                c_rsl = rng.choice(RSL)
                s_rsl = rng.choice(RSL)
                if rep == 0:
                    c_rsl = rng.choice([2 ** 14 + 1, 64, 512])
                    s_rsl = rng.choice([2 ** 14 + 1, 65, 512])
                pad = rng.choice(PADS) if ver == (3, 4) else "none"
                cid = "%04x-%d%d-e%d-r%s-%s-p%s-%d" % (
                    sid, ver[0], ver[1], etm, c_rsl, s_rsl, pad, rep)
                yield cid, dict(sid=sid, ver=ver, etm=etm, c_rsl=c_rsl,
                                s_rsl=s_rsl, pad=pad, rep=rep, long=False)
                # the same cell over a resumed connection (every third cell
                # in quick, limits chosen to differ between the two sides)
                if not ctx.quick or (sid + ver[1] + rep) % 3 == 0:
                    how = "ticket" if (sid + rep) % 2 else "id"
                    c2, s2 = rng.choice([(512, 65), (64, 2 ** 14 + 1),
                                         (2 ** 14 + 1, 300), (c_rsl, s_rsl)])
                    yield cid + "-res", dict(
                        sid=sid, ver=ver, etm=etm, c_rsl=c2, s_rsl=s2,
                        pad=pad, rep=rep, long=False, resumed=how)
    # long streams, one per cipher family (thorough)
    if not ctx.quick:
        seen = set()
        for sid, ver in cells:
            su = suites.TABLE[sid]
            if su.cipher in seen or su.cipher == "3des":
                continue
            seen.add(su.cipher)
            yield "long-%04x-%d%d" % (sid, ver[0], ver[1]), dict(
                sid=sid, ver=ver, etm=True, c_rsl=None, s_rsl=None,
                pad="none", rep=0, long=True)


def pad_cb(kind, rng):
    if kind == "none":
        return None
    if kind == "const":
        return lambda ln, ct, mx: max(0, min(7, mx))
    if kind == "fill":
        return lambda ln, ct, mx: max(0, mx)
    return lambda ln, ct, mx: rng.randrange(0, max(0, min(mx, 300)) + 1)


def run_case(ctx, cid, P):
    su = suites.TABLE[P["sid"]]
    ver = P["ver"]
    rng = ctx.rng
    kw_c = dict(useEncryptThenMAC=P["etm"], record_size_limit=P["c_rsl"])
    kw_s = dict(useEncryptThenMAC=P["etm"], record_size_limit=P["s_rsl"])
    fl = suites.flavor_for(P["sid"], ver, cset_kw=kw_c, sset_kw=kw_s)
    if P.get("resumed"):
        # the stream runs over a *resumed* connection: limits and modes have
        # to be negotiated again there, with the same meaning
        from tlslite.sessioncache import SessionCache
        from vt.flavours import TK, pump
        if P["resumed"] == "ticket":
            fl.sset.ticketKeys = TK
        else:
            fl.session_cache = SessionCache()
        p0 = Pair()
        t0c, t0s = p0.handshake(fl)
        if t0c.status == "done" and t0s.status == "done":
            pump(p0, p0.c, p0.csock)
            drive.run([drive.Task("cc", drive.aclose(p0.c), p0.csock),
                       drive.Task("sc", drive.aclose(p0.s), p0.ssock)],
                      p0.link)
            if p0.c.session is not None and p0.c.session.valid():
                fl.session = p0.c.session
    p = Pair()
    rlog = {"c": mon.tap_recv(p.s, []), "s": mon.tap_recv(p.c, [])}
    tc, ts = p.handshake(fl)
    if P.get("resumed"):
        ctx.count("resumed_connections" if p.c.resumed else
                  "resumption_declined")
    if tc.status != "done" or ts.status != "done":
        ctx.violation({"clause": "honest_handshake_failed",
                       "suite": su.name, "ver": list(ver),
                       "c": outcome(tc), "s": outcome(ts)},
                      {"params": P}, "control handshake failed: %r / %r" % (
                          tc.exc, ts.exc))
        return
    if p.c.session.cipherSuite != P["sid"] or p.c.version != ver or \
            p.s.session.cipherSuite != P["sid"]:
        ctx.inconc("forced cell not negotiated: %s" % cid)
        return
    etm_on = bool(p.c.encryptThenMAC)
    if su.cipher_kind == "cbc" and etm_on != P["etm"] and ver > (3, 0):
        ctx.inconc("EtM flag not as forced: %s" % cid)
        return
    lim_c, lim_s, inner_c, inner_s = negotiated(ver, P["c_rsl"], P["s_rsl"])
    if P["pad"] != "none":
        p.c._recordLayer.padding_cb = pad_cb(P["pad"], rng)
        p.s._recordLayer.padding_cb = pad_cb(P["pad"], rng)
    ends = {"c": p.c, "s": p.s}
    socks = {"c": p.csock, "s": p.ssock}
    peer = {"c": "s", "s": "c"}
    wdir = {"c": "c2s", "s": "s2c"}
    neg_lim = {"c": lim_c, "s": lim_s}
    inner_lim = {"c": inner_c, "s": inner_s}
    fifo = {"c": mon.Fifo(cid + "/c2s"), "s": mon.Fifo(cid + "/s2c")}
    # wire record index from which application phase starts
    base = {d: len(p.link.recs(d)) for d in ("c2s", "s2c")}
    writes = {"c": [], "s": []}   # (first wire idx, last wire idx, n, limit)
    recsize = {"c": 2 ** 14, "s": 2 ** 14}
    block = su.block or 16
    big = su.cipher != "3des"
    nops = ctx.pick(12, 40)
    if P["long"]:
        nops = 0

    def fail(clause, **kw):
        key = {"clause": clause, "kind": su.cipher_kind,
               "ver": pair.VNAME[ver]}
        key.update({k: v for k, v in kw.items() if k in ("exc", "fifo")})
        ctx.violation(key, {"params": P, "detail": kw}, "%s %s" % (
            clause, kw))

    def do_write(side, n):
        lim = min(recsize[side], neg_lim[side])
        data = fifo[side].next_write(n)
        d = wdir[side]
        i0 = len(p.link.recs(d))
        mode = rng.choice(["async", "async", "write", "send", "sendall"])
        ctx.cell("api", "w:" + mode)
        try:
            if mode == "async":
                t = drive.Task("w", drive.awrite(ends[side], data),
                               socks[side])
                drive.run([t], p.link)
                if t.status != "done":
                    fail("write_failed", exc=repr(t.exc or t.status), n=n)
                    return False
            elif mode == "write":
                ends[side].write(data)
            elif mode == "send":
                r = ends[side].send(data)
                if r != len(data):
                    fail("send_return", got=r, n=n)
            else:
                ends[side].sendall(data)
        except Exception as e:   # noqa
            fail("write_failed", exc=type(e).__name__, n=n, msg=repr(e))
            return False
        i1 = len(p.link.recs(d))
        writes[side].append((i0, i1, n, lim))
        ctx.cell("lenclass", "%s/%s" % (su.cipher_kind,
                                        lenclass(n, lim, block)))
        return True

    def do_read(side, mx, mn):
        """side reads what its peer wrote"""
        f = fifo[peer[side]]
        mode = rng.choice(["async", "async", "read", "recv"])
        ctx.cell("api", "r:" + mode)
        try:
            if mode == "async" or mn == 0:
                t = drive.Task("r", drive.aread(ends[side], mx, mn),
                               socks[side])
                drive.run([t], p.link)
                if t.status != "done":
                    fail("read_failed", exc=repr(t.exc or t.status),
                         mx=mx, mn=mn)
                    return False
                got = t.result
            elif mode == "read":
                got = ends[side].read(mx, mn)
            else:
                got = ends[side].recv(mx if mx is not None else 4096)
                mn = 1
        except Exception as e:   # noqa
            fail("read_failed", exc=type(e).__name__, mx=mx, mn=mn,
                 msg=repr(e))
            return False
        if not isinstance(got, (bytes, bytearray)):
            fail("read_result_type", got=repr(got))
            return False
        if mx is not None and len(got) > mx:
            fail("read_longer_than_max", n=len(got), mx=mx)
        if len(got) < min(mn, mx if mx is not None else mn):
            fail("read_shorter_than_min", n=len(got), mn=mn)
        bad = f.check_read(bytes(got))
        ctx.ev()
        ctx.count("bytes_compared", len(got))
        if bad is not None:
            fail("fifo", fifo=bad["kind"], detail=bad)
            return False
        return True

    ok = True
    if P["long"]:
        for side in ("c", "s"):
            tot = 1 << 20 if su.cipher_kind != "cbc" else 1 << 19
            while ok and tot > 0:
                n = min(tot, rng.choice([2 ** 14, 3 * 2 ** 14 + 5, 40000]))
                ok = do_write(side, n)
                tot -= n
                while ok and fifo[side].pending:
                    ok = do_read(peer[side], None, 1)
    sizes_small = [0, 1, 2, block - 1, block, block + 1, 63, 64, 65, 255, 256,
                   257, 511, 512, 513]
    for _ in range(nops):
        if not ok or ctx.expired():
            break
        side = rng.choice("cs")
        r = rng.random()
        if r < 0.45:
            lim = min(recsize[side], neg_lim[side])
            choices = sizes_small + [lim - 1, lim, lim + 1, 2 * lim + 1]
            if big and rng.random() < 0.25:
                choices = [2 ** 14 - 1, 2 ** 14, 2 ** 14 + 1,
                           3 * 2 ** 14 + 5, rng.randrange(1, 40000)]
            n = rng.choice([c for c in choices if c >= 0])
            if recsize[side] < 15 and n > 600:
                n = rng.randrange(0, 600)   # tiny records: keep it cheap
            if P["pad"] in ("fill", "random"):
                # every record is padded up: bound the record count
                n = min(n, 24 * min(recsize[side], neg_lim[side]))
            ok = do_write(side, n)
        elif r < 0.85:
            f = fifo[peer[side]]
            if f.pending == 0:
                continue
            mn = rng.choice([0, 1, 1, 2, 17, f.pending, f.pending // 2 or 1])
            mn = min(mn, f.pending)
            mx = rng.choice([None, None, 1, 2, 16, 100, 2 ** 14, 2 ** 15,
                             f.pending])
            if mx is not None and mx < 1:
                mx = 1
            ok = do_read(side, mx, mn)
        elif ver == (3, 4) and rng.random() < 0.5:
            # re-keying between writes must not disturb the stream
            from tlslite.constants import KeyUpdateMessageType as KU
            t = drive.Task("ku", ends[side].send_keyupdate_request(
                rng.choice([KU.update_requested, KU.update_not_requested])),
                socks[side])
            drive.run([t], p.link)
            if t.status != "done":
                fail("write_failed", exc=repr(t.exc or t.status),
                     op="keyupdate")
                ok = False
            ctx.count("keyupdates")
        else:
            v = rng.choice(RECSIZES)
            ends[side].recordSize = v
            recsize[side] = v
            ctx.cell("limitcell", "rs=%d" % v)
    # every alignment of (payload + MAC) against the cipher block: the
    # padding takes each value 0..block-1 (and the full block) once
    if su.cipher_kind == "cbc":
        for side in ("c", "s"):
            for n in range(1, 2 * block + 2):
                if not ok or ctx.expired():
                    break
                ok = do_write(side, n)
                if ok and (n % 3 == 0 or n == 2 * block + 1):
                    while ok and fifo[side].pending:
                        ok = do_read(peer[side], None, 1)
            ctx.count("alignment_sweeps")
    # TLS 1.3: several key generations per direction, data in between
    if ver == (3, 4) and ok:
        from tlslite.constants import KeyUpdateMessageType as KU
        for side in ("c", "s", "c", "s", "c"):
            if not ok or ctx.expired():
                break
            t = drive.Task("ku", ends[side].send_keyupdate_request(
                rng.choice([KU.update_requested, KU.update_not_requested])),
                socks[side])
            drive.run([t], p.link)
            if t.status != "done":
                fail("write_failed", exc=repr(t.exc or t.status),
                     op="keyupdate")
                ok = False
                break
            ctx.count("keyupdates")
            ok = do_write(side, rng.choice([1, 50, 300]))
            while ok and fifo[side].pending:
                ok = do_read(peer[side], None, 1)
            # the answer to update_requested travels the other way
            if ok:
                ok = do_write(peer[side], 20)
                while ok and fifo[peer[side]].pending:
                    ok = do_read(side, None, 1)
    # drain
    for side in ("c", "s"):
        f = fifo[peer[side]]
        guard = 0
        stuck = 0
        # (with 64-byte records a case can leave tens of thousands of
        # records to read: bounded by the data, not by a call count)
        while ok and f.pending and guard < 64 + f.pending + guard:
            guard += 1
            before = f.pending
            ok = do_read(side, None, 1)
            if ok and f.pending >= before:
                stuck = stuck + 1 if before == f.pending else 0
                if stuck > 50:
                    break
            else:
                stuck = 0
        if ok and f.pending:
            fail("undelivered", pending=f.pending)
    if not ok:
        return
    # record-limit oracle
    for side in ("c", "s"):
        d = wdir[side]
        recs_all = p.link.recs(d)
        rx = rlog[side]
        if len(rx) > len(recs_all):
            ctx.inconc("record log misaligned in %s" % cid)
            continue
        # records are received in the order sent: rx[i] <-> recs_all[i];
        # trailing records the peer never read have no entry
        idx_of = {gi: gi for gi in range(len(rx))}
        exact_all = rx
        emin, emax = su.expansion(ver, etm_on)
        for (i0, i1, n, lim) in writes[side]:
            tot = 0
            for gi in range(i0, i1):
                if gi not in idx_of:
                    continue
                r = recs_all[gi]
                ityp, plen = exact_all[idx_of[gi]]
                if ityp != 23:
                    continue
                tot += plen
                ctx.ev()
                ctx.count("records_checked")
                ctx.maxi("plaintext/%s" % lim, plen)
                if plen > lim:
                    fail("record_over_limit", plen=plen, limit=lim,
                         wire_len=r.length)
                # independent wire-side bound from the IANA name
                if ver == (3, 4):
                    inner = r.length - su.taglen
                    il = inner_lim[side]
                    if inner > il:
                        fail("tls13_inner_over_limit", inner=inner, limit=il)
                    if inner < plen + 1:
                        fail("wire_shorter_than_plaintext", inner=inner,
                             plen=plen)
                else:
                    if not (plen + emin <= r.length <= plen + emax):
                        fail("wire_expansion_mismatch", plen=plen,
                             wire_len=r.length, emin=emin, emax=emax)
            if tot != n:
                fail("write_record_sum", n=n, total=tot)
    ctx.cell("triple", "%s/%s/etm=%d" % (pair.VNAME[ver], su.name, etm_on))
    ctx.cell("limitcell", "rsl=%s/%s/%s/pad=%s" % (
        P["c_rsl"], P["s_rsl"], pair.VNAME[ver] if ver == (3, 4) else "le12",
        P["pad"]))
    # last words: one side writes and closes at once; what it wrote must
    # still reach the reader, also when the reader asks for more than will
    # ever come (the close_notify then ends the read) or reads in pieces
    wside = rng.choice("cs")
    rside = peer[wside]
    n_last = rng.choice([1, 10, 300, 1017])
    import errno as _errno
    # the closer's socket is gone by the time the reader answers the
    # close_notify: that reply fails, with one errno or another
    p.link.peer_gone_errno = rng.choice([_errno.EPIPE, _errno.ECONNRESET,
                                         _errno.ECONNABORTED])
    if do_write(wside, n_last):
        tcl = drive.Task("close", drive.aclose(ends[wside]), socks[wside])
        drive.run([tcl], p.link, max_steps=2000)
        f = fifo[wside]
        style = rng.choice(["min_over", "pieces", "plain"])
        got_all = bytearray()
        for _ in range(3000):       # tiny recordSize: one record per read
            if style == "min_over":
                mx, mn = None, n_last + 500
            elif style == "pieces":
                mx, mn = 7, 1
            else:
                mx, mn = None, 1
            t = drive.Task("r", drive.aread(ends[rside], mx, mn),
                           socks[rside])
            drive.run([t], p.link, max_steps=4000)
            if t.status != "done":
                fail("read_failed", exc=repr(t.exc or t.status), mx=mx,
                     mn=mn, phase="last_words")
                break
            if not t.result:
                break
            got_all += t.result
        else:
            fail("read_failed", exc="no end of data", phase="last_words")
        ctx.ev()
        ctx.count("last_words")
        bad = f.check_read(bytes(got_all))
        if bad is not None:
            fail("fifo", fifo=bad["kind"], detail=bad, phase="last_words")
        elif f.pending:
            fail("undelivered", pending=f.pending, phase="last_words",
                 style=style)
        ctx.cell("lastwords", "%s/%s" % (pair.VNAME[ver], style))
    ctx.count("connections")
    ctx.cell("version", pair.VNAME[ver])
    ctx.cell("cipher", su.cipher)
    ctx.sample({"case": cid, "suite": su.name, "ver": pair.VNAME[ver],
                "etm": etm_on, "limits": [lim_c, lim_s],
                "writes_c": [w[2] for w in writes["c"]][:10],
                "writes_s": [w[2] for w in writes["s"]][:10],
                "wire_records": len(p.link.records)})


def run(ctx):
    for cid, P in ctx.cases(make_cases(ctx)):
        run_case(ctx, cid, P)


def finalize(m, tier):
    out = []
    vs = m["cells"].get("version", set())
    for v in pair.VNAME.values():
        if v not in vs:
            out.append("no bytes compared for version " + v)
    cs = m["cells"].get("cipher", set())
    for c in ("null", "rc4", "3des", "aes128", "aes256", "aes128gcm",
              "aes256gcm", "aes128ccm", "aes128ccm_8", "chacha20-poly1305"):
        if c not in cs:
            out.append("no bytes compared for cipher " + c)
    if m["counters"].get("records_checked", 0) == 0:
        out.append("record-limit monitor never evaluated")
    return out
