"""C08 - malformed peer input fails cleanly, promptly, within bounded memory."""
import os
import resource
import sys
import tracemalloc

from vt import boot  # noqa
from vt import pair, flavours, scn, wire, mon, mut, drive, net
from vt.pair import outcome

from tlslite import errors as E
from tlslite.messages import Message
from tlslite.constants import KeyUpdateMessageType
import socket

LEVEL = "exploration"
RULE = ("per (scenario, victim role) the adversary endpoint is a real "
        "TLSConnection holding the keys whose outgoing handshake / control "
        "messages are replaced before record protection by structure-aware "
        "mutants (outer length, every discovered length prefix -> 0/-1/+1/max, "
        "emptied / shrunk vectors, truncation / extension, extension-level "
        "edits of the hellos, unknown enum values, DER edits, compressed-"
        "certificate bombs, byte edits), or which injects record-level junk "
        "(oversized / empty / unknown-type / SSLv2-framed records, alert "
        "fragments, floods). Oracle on the *victim* (pristine code): "
        "exception class, logical work (sys.monitoring PY_START count + "
        "driver steps against a per-scenario budget), peak memory "
        "(tracemalloc on bomb-prone classes, RSS high-water mark elsewhere), "
        "closed / non-resumable afterwards, fatal alert on the wire for "
        "Operators include compressed-certificate bombs (zlib, brotli "
        "many blocks / one 16 MiB block), pre_shared_key structure, DER "
        "tree edits and object identifiers replaced, RSA premasters of "
        "every length really encrypted, hostile server names (these in "
        "a forked child under a CPU-time limit, because a loop inside C "
        "code is invisible to the call meter); record-level attacks "
        "before each message and on the established connection; after a "
        "failure the socket is closed, the connection state reset and "
        "what the SessionCache serves is dead.   "
        "self-diagnosed failures. distinct_nontrivial = distinct "
        "(scenario, role, message type, operator, outcome) cells.")
ASSUMPTIONS = [
    "mutants are produced by harness operators; coverage of 'all byte "
    "strings' is by sampling",
    "work is measured in Python function starts, not time",
    "memory bound: 64 MiB + 64 x bytes sent by the adversary",
]
NONTRIVIAL = ["cell"]
DEADLINE = {"quick": 250, "thorough": 1500}
WATCHDOG = {"quick": 900, "thorough": 5400}

QUICK_SC = ["ssl3-rsa", "ssl3-ecdhe_rsa-clientauth", "tls10-dhe_rsa", "tls11-ecdhe_ecdsa", "tls12-rsa",
            "tls12-ecdhe_rsa-clientauth", "tls12-dhe_dsa", "tls12-srp_rsa",
            "tls12-dh_anon", "tls12-resume-ticket", "tls11-resume-id",
            "tls12-ecdhe_rsa-npn",
            "tls13-rsa", "tls13-hrr", "tls13-psk_dhe", "tls13-resume-ticket",
            "tls13-clientauth", "tls13-alpn-tickets", "default-default"]

MEM_BOUND = 64 << 20
RSS_BOUND = 24 << 20      # growth of the process high-water mark in one case
MEM_PER_BYTE = 64


class WorkBudget(BaseException):
    pass


class Meter(object):
    """PY_START counter with a hard budget (raises WorkBudget inside the
    running code when exceeded)"""

    def __init__(self):
        self.m = sys.monitoring
        self.tid = self.m.PROFILER_ID
        self.on = False
        self.count = 0
        self.budget = None
        try:
            self.m.use_tool_id(self.tid, "vt-c08")
            self.m.register_callback(self.tid, self.m.events.PY_START,
                                     self._cb)
            self.ok = True
        except Exception:   # noqa
            self.ok = False

    def _cb(self, code, off):
        self.count += 1
        if self.budget is not None and self.count > self.budget:
            self.budget = None
            raise WorkBudget("more than the budgeted Python calls")

    def start(self, budget=None):
        self.count = 0
        self.budget = budget
        if self.ok:
            self.m.set_events(self.tid, self.m.events.PY_START)

    def stop(self):
        if self.ok:
            self.m.set_events(self.tid, 0)
        self.budget = None
        return self.count


METER = None


class Adversary(object):
    """wraps the adversary endpoint's message send functions"""

    def __init__(self, conn, target=None, new=None, pre_inject=None):
        self.conn = conn
        self.i = 0
        self.log = []
        self.target = target
        self.new = new
        self.pre_inject = pre_inject   # callable(conn) run before target msg
        self.applied = False
        self.bytes_sent = 0
        osend, oqueue = conn._sendMsg, conn._queue_message
        adv = self

        def sub(msg):
            if msg.contentType != 22:
                return msg, None
            raw = bytes(msg.write())
            i = adv.i
            adv.i += 1
            adv.log.append((i, raw[0] if raw else -1, raw))
            if adv.target is not None and i == adv.target:
                adv.applied = True
                if adv.new is not None:
                    adv.bytes_sent += len(adv.new)
                    return Message(22, bytearray(adv.new)), adv.pre_inject
                return msg, adv.pre_inject
            return msg, None

        def _sendMsg(msg, randomizeFirstBlock=True, update_hashes=True):
            if getattr(adv, "_busy", False):
                for r in osend(msg, randomizeFirstBlock, update_hashes):
                    yield r
                return
            if not update_hashes:
                # flush of queued messages: run a pending injection first
                pend = getattr(adv, "_queued_pre", None)
                if pend is not None:
                    adv._queued_pre = None
                    adv._busy = True
                    try:
                        for r in pend(conn, osend):
                            yield r
                    finally:
                        adv._busy = False
                for r in osend(msg, randomizeFirstBlock, update_hashes):
                    yield r
                return
            m2, pre = sub(msg)
            if pre is not None:
                adv._busy = True
                try:
                    for r in pre(conn, osend):
                        yield r
                finally:
                    adv._busy = False
            for r in osend(m2, randomizeFirstBlock, update_hashes):
                yield r

        def _queue_message(msg):
            m2, pre = sub(msg)
            if pre is not None:
                # flush what is queued, inject, continue queueing
                adv._queued_pre = pre
            return oqueue(m2)
        conn._sendMsg = _sendMsg
        conn._queue_message = _queue_message


def adversary_script(p, role, post=None, holder=None, ckey=False):
    """post-handshake control traffic issued by the adversary (its messages
    pass through the mutator too) and a data exchange"""
    adv = p.c if role == "client" else p.s
    vic = p.s if role == "client" else p.c

    def adv_prog():
        if post is not None:
            # a record-level attack on the established connection
            holder["adv"].applied = True
            for r in post(adv, adv._sendMsg):
                yield r
        yield from drive.awrite(adv, b"adv-data-1" * 4)
        if adv.version == (3, 4):
            for r in adv.send_keyupdate_request(
                    KeyUpdateMessageType.update_requested):
                yield r
            yield from drive.awrite(adv, b"adv-data-2")
            if role == "server" and ckey:
                for r in adv.request_post_handshake_auth():
                    yield r
        elif adv.heartbeat_can_send and adv.heartbeat_supported:
            for r in adv.write_heartbeat(b"hb-payload", 16):
                yield r
        r = yield from drive.aread(adv, None, 1)
        yield from drive.awrite(adv, b"adv-bye")
        yield from drive.aclose(adv)
        return r

    def vic_prog():
        got = bytearray()
        while len(got) < 40 + (10 if vic.version == (3, 4) else 0):
            r = yield from drive.aread(vic, None, 1)
            if not r:
                break
            got += r
        yield from drive.awrite(vic, b"victim-reply")
        r = yield from drive.aread(vic, None, 1)
        yield from drive.aclose(vic)
        return bytes(got)
    return adv_prog, vic_prog


def run_one(sc, label, role, target=None, new=None, pre_inject=None,
            budget=None, trace_mem=False, link_inject=None,
            close_socket=True, post=None):
    """role = who is the adversary. returns (R, adversary, work, peak)"""
    holder = {}

    def tweak(p, fl):
        adv_conn = p.c if role == "client" else p.s
        holder["adv"] = Adversary(adv_conn, target, new, pre_inject)
        holder["p"] = p
        # with closeSocket off nothing flushes the socket on shutdown: the
        # alert has to have left on its own
        (p.s if role == "client" else p.c).closeSocket = close_socket
        if link_inject:
            link_inject(p)
    # run with our own programs: handshake + adversary script
    boot.install_vclock(1_800_000_000.0)
    boot.drbg.reseed(label + "/prep")
    st = sc.prepare()
    boot.vclock.advance(5.0)
    boot.drbg.reseed(label + "/main")
    p = pair.Pair()
    fl = sc.flavor(st)
    tweak(p, fl)
    R = scn.Result()
    R.p = p
    R.fl = fl
    R.c_hs = R.s_hs = False
    advp, vicp = adversary_script(p, role, post, holder,
                                  ckey=bool(getattr(fl, "ckey", None)))

    def cprog():
        yield from fl.client_gen(p.c)
        R.c_hs = True
        R.c_session = p.c.session
        return (yield from (advp() if role == "client" else vicp()))

    def sprog():
        yield from fl.server_gen(p.s)
        R.s_hs = True
        R.s_session = p.s.session
        return (yield from (advp() if role == "server" else vicp()))
    peak = None
    if trace_mem:
        tracemalloc.start()
        tracemalloc.reset_peak()
    rss0 = resource.getrusage(resource.RUSAGE_SELF).ru_maxrss
    METER.start(budget)
    try:
        R.tc, R.ts = p.run(cprog(), sprog(), max_steps=30000)
    finally:
        work = METER.stop()
        if trace_mem:
            peak = tracemalloc.get_traced_memory()[1]
            tracemalloc.stop()
    rss1 = resource.getrusage(resource.RUSAGE_SELF).ru_maxrss
    R.rss_growth = (rss1 - rss0) * 1024
    R.steps = p.steps
    return R, holder["adv"], work, peak


_plan_cache = {}


def plan(ctx, sc, role, label):
    """honest run with a logging adversary -> list of cases"""
    k = (sc.name, role, label)
    if k in _plan_cache:
        return _plan_cache[k]
    _plan_cache.clear()
    R, adv, work, _ = run_one(sc, label, role)
    ok = R.tc.status == "done" and R.ts.status == "done"
    rng = ctx.case_rng("plan/%s/%s" % (sc.name, role))
    cases = []
    allops = {}
    want = ctx.pick(3, 12)
    if ok:
        for (i, t, raw) in adv.log:
            ops = mut.generic_ops(raw, rng, want)
            if t in (1, 2):
                ops += mut.hello_ops(raw, rng, t == 1)
            if t == 16 and role == "client" and \
                    sc.name.split("-")[1] == "rsa":
                # RSA key transport: premasters of every odd length, really
                # encrypted to the server's key (a bit flip in the ciphertext
                # only ever gives the implicit-rejection value)
                from vt import creds as _creds
                pub = _creds.server("rsa")[0].getEndEntityPublicKey()
                for n in (0, 1, 2, 3, 47, 49, 200):
                    pm = bytes([3, 3] + [7] * 198)[:n]
                    ct = bytes(pub.encrypt(bytearray(pm)))
                    body = ct if sc.ver == (3, 0) else \
                        len(ct).to_bytes(2, "big") + ct
                    ops.append(("cke_premaster_len:%d" % n,
                                wire.hs_msg(16, body)))
            if t in (11, 25):
                ops += mut.cert_ops(raw, rng)
                if t == 11:
                    ops += mut.der_ops(raw, rng, want=ctx.pick(6, 40))
                    ops += mut.der_tree_ops(raw, rng, full=not ctx.quick)
            if ctx.quick:
                # sample operators but always keep the bombs
                always = ("zbomb", "ext_u16=", "psk_", "sni:", "snilist:",
                          "dertree_oid",
                          "cke_premaster_len", "ext_last_value_unknown:16",
                          "ext_first_value_unknown:16",
                          "dertree_empty:bitstr",
                          "dertree_empty:octstr", "dertree_trunc1:bitstr",
                          "ext_empty:51", "ext_empty:43", "ext_empty:10",
                          "ext_empty:13", "ext_empty:45", "ext_empty:41",
                          "ext_empty:42", "ext_empty:44")
                keep = [o for o in ops if o[0].startswith(always)]
                rest = [o for o in ops if not o[0].startswith(always)]
                rng.shuffle(rest)
                ops = keep + rest[:16]
            allops[i] = ops
            for j, (name, newb) in enumerate(ops):
                cases.append((i, t, name, j))
    R.allops = allops
    _plan_cache[k] = (ok, R, adv, work, cases)
    return _plan_cache[k]


RECORD_ATTACKS = ["oversize_plain", "len_ffff", "empty_hs", "empty_alert",
                  "empty_ccs", "unknown_type", "ssl2_garbage", "alert_1byte",
                  "alert_3byte", "alert_split", "flood_empty_app",
                  "flood_warning", "flood_ccs", "hs_fragments_1byte",
                  "app_before_finished", "huge_hs_len_then_stall",
                  "fatal_alert", "warning_no_certificate",
                  "close_notify_mid_handshake"]


def make_cases(ctx):
    names = QUICK_SC if ctx.quick else [s.name for s in flavours.ALL]
    for name in names:
        sc = flavours.BY_NAME[name]
        for role in ("client", "server"):
            label = "%s/C08/%s/%s" % (ctx.seed, name, role)
            ok, R, adv, work, cases = plan(ctx, sc, role, label)
            yield "ctl-%s-%s" % (name, role), dict(sc=name, role=role,
                                                   label=label, ctl=True)
            if not ok:
                continue
            for (i, t, opname, j) in cases:
                yield "%s-%s-m%d-%d" % (name, role, i, j), dict(
                    sc=name, role=role, label=label, msg=i, op=j,
                    opname=opname, t=t)
            nmsg = len(adv.log)
            for atk in RECORD_ATTACKS:
                for at in sorted(set([0, 1, max(0, nmsg // 2), nmsg - 1])):
                    if ctx.quick and at not in (0, nmsg - 1) and not (
                            at == 1 and atk in ("fatal_alert",
                                                "warning_no_certificate")):
                        continue
                    yield "%s-%s-rec-%s-%d" % (name, role, atk, at), dict(
                        sc=name, role=role, label=label, atk=atk, at=at)
            # the same on the established connection
            for atk in ("garbage_protected", "post_cert_request", "len_ffff",
                        "unknown_type",
                        "oversize_plain", "empty_alert", "alert_3byte",
                        "ssl2_garbage", "fatal_alert"):
                yield "%s-%s-rec-%s-post" % (name, role, atk), dict(
                    sc=name, role=role, label=label, atk=atk, at="post")


FLOOD = [500]


def record_attack(atk, rng):
    """returns pre_inject(conn, osend) generator function"""
    def pre(conn, osend):
        ver = conn.version if conn.version != (0, 0) else (3, 1)
        sock = conn.sock.socket     # raw MemSock below the BufferedSocket
        conn.sock.flush()

        def raw(b):
            sock.link.push(sock.out, bytes(b))
        if atk == "oversize_plain":
            raw(wire.record(22, ver, b"\x00" * (2 ** 14 + 2049)))
        elif atk == "len_ffff":
            raw(bytes([22, ver[0], ver[1], 0xff, 0xff]) + b"\x00" * 65535)
        elif atk == "empty_hs":
            for r in osend(Message(22, bytearray(0)), True, False):
                yield r
        elif atk == "empty_alert":
            for r in osend(Message(21, bytearray(0))):
                yield r
        elif atk == "empty_ccs":
            for r in osend(Message(20, bytearray(0))):
                yield r
        elif atk == "unknown_type":
            for r in osend(Message(99, bytearray(b"abc"))):
                yield r
        elif atk == "ssl2_garbage":
            raw(b"\x80\x20" + b"\x01" * 32)
        elif atk == "post_cert_request":
            # a CertificateRequest nobody asked for (TLS 1.3 framing: empty
            # context, signature_algorithms extension)
            body = b"\x00" + b"\x00\x08" + b"\x00\x0d\x00\x04\x00\x02\x08\x04"
            for r in osend(Message(22, bytearray(wire.hs_msg(13, body)))):
                yield r
        elif atk == "garbage_protected":
            raw(wire.record(23, ver, bytes(range(7, 7 + 80))))
        elif atk == "alert_1byte":
            for r in osend(Message(21, bytearray(b"\x01"))):
                yield r
        elif atk == "alert_3byte":
            for r in osend(Message(21, bytearray(b"\x01\x00\x00"))):
                yield r
        elif atk == "alert_split":
            for r in osend(Message(21, bytearray(b"\x02"))):
                yield r
            for r in osend(Message(21, bytearray(b"\x28"))):
                yield r
        elif atk == "fatal_alert":
            for r in osend(Message(21, bytearray(b"\x02\x28"))):
                yield r
        elif atk == "warning_no_certificate":
            for r in osend(Message(21, bytearray(b"\x01\x29"))):
                yield r
        elif atk == "close_notify_mid_handshake":
            for r in osend(Message(21, bytearray(b"\x01\x00"))):
                yield r
        elif atk == "flood_empty_app":
            for _ in range(FLOOD[0]):
                for r in osend(Message(23, bytearray(0))):
                    yield r
        elif atk == "flood_warning":
            for _ in range(FLOOD[0]):
                for r in osend(Message(21, bytearray(b"\x01\x5a"))):
                    yield r
        elif atk == "flood_ccs":
            for _ in range(FLOOD[0]):
                for r in osend(Message(20, bytearray(b"\x01"))):
                    yield r
        elif atk == "hs_fragments_1byte":
            for _ in range(FLOOD[0]):
                for r in osend(Message(22, bytearray(b"\x00")), True, False):
                    yield r
        elif atk == "app_before_finished":
            for r in osend(Message(23, bytearray(b"early application data"))):
                yield r
        elif atk == "huge_hs_len_then_stall":
            for r in osend(Message(22, bytearray(b"\x0b\xff\xff\xff" +
                                                 b"\x00" * 4000)), True,
                           False):
                yield r
    return pre


def tbs(t):
    import traceback
    return traceback.format_list(t.tb)[-4:] if t.tb else None


def judge(ctx, key, W, R, adv, role, work, budget, peak, sent_bytes):
    p = R.p
    vrole = "server" if role == "client" else "client"
    vt = R.ts if role == "client" else R.tc
    vic = p.s if role == "client" else p.c
    vdir = "s2c" if vrole == "server" else "c2s"
    ctx.ev()
    # (b) prompt
    if vt.status == "budget" or isinstance(vt.exc, WorkBudget):
        ctx.violation(dict(key, clause="spin_or_hang", frame=vt.frame()),
                      dict(W, work=work, budget=budget, steps=R.steps),
                      "victim exceeded the logical work budget")
        return "spin"
    at = R.tc if role == "client" else R.ts
    if isinstance(at.exc, WorkBudget):
        ctx.count("adversary_over_budget")
        return "adv_budget"
    # (c) memory
    bound = MEM_BOUND + MEM_PER_BYTE * sent_bytes
    if peak is not None:
        ctx.maxi("tracemalloc_peak", peak)
        if peak > bound:
            ctx.violation(dict(key, clause="memory", meter="tracemalloc"),
                          dict(W, peak=peak, bound=bound, sent=sent_bytes),
                          "peak traced allocation %d > %d" % (peak, bound))
    if R.rss_growth > RSS_BOUND + MEM_PER_BYTE * sent_bytes:
        ctx.violation(dict(key, clause="memory", meter="rss"),
                      dict(W, growth=R.rss_growth, bound=bound),
                      "RSS high-water mark grew by %d" % R.rss_growth)
    if vt.status == "done":
        return "accepted"
    if vt.status == "stalled":
        return "waiting"
    e = vt.exc
    cls = mon.classify_exc(e)
    # (a) documented exception types only
    if cls.startswith("undocumented"):
        ctx.violation(dict(key, clause="undocumented_exception",
                           exc=type(e).__name__, frame=vt.frame()),
                      dict(W, exc=repr(e), tb=tbs(vt)),
                      "victim raised %r" % (e,))
        return "undoc"
    # (d) closed and not resumable
    if not vic.closed:
        ctx.violation(dict(key, clause="not_closed_after_failure", exc=cls),
                      W, "victim still open after %r" % (e,))
    # `closed` is already true while a handshake is in progress, so it says
    # nothing about a failed handshake: the transport does
    vsock = p.ssock if vrole == "server" else p.csock
    if vic.closeSocket and not vsock.closed:
        ctx.violation(dict(key, clause="socket_left_open_after_failure",
                           exc=cls), W,
                      "victim raised %r but left its socket open "
                      "(closeSocket is set)" % (e,))
    elif vic.closeSocket:
        ctx.count("socket_closed_after_failure")
    if tuple(vic.version) != (0, 0):
        # _shutdown() resets the record layer and the version; a failure
        # that skipped it leaves keys and state of a dead connection behind
        ctx.violation(dict(key, clause="state_not_reset_after_failure",
                           exc=cls), W,
                      "victim raised %r without shutting the connection "
                      "down (version still %r)" % (e, vic.version))
    sess = vic.session
    if sess is not None and (sess.resumable or sess.valid()) and \
            not isinstance(e, E.TLSRemoteAlert):
        ctx.violation(dict(key, clause="resumable_after_failure", exc=cls,
                           hs_done=(R.s_hs if vrole == "server" else
                                    R.c_hs)), W,
                      "session still resumable after %r" % (e,))
    cache = getattr(getattr(R, "fl", None), "session_cache", None)
    if vrole == "server" and cache is not None and sess is not None and \
            sess.sessionID and not isinstance(e, E.TLSRemoteAlert):
        # the connection had adopted a session of the server's cache: what
        # the cache hands out for that ID must be dead as well
        try:
            ent = cache[bytearray(sess.sessionID)]
            alive = ent is not None and ent.valid()
        except KeyError:
            alive = False
        ctx.count("cache_entry_checked_after_failure")
        if alive:
            ctx.violation(dict(key, clause="resumable_after_failure",
                               where="session_cache", exc=cls), W,
                          "the SessionCache still serves the session of a "
                          "connection that failed with %r" % (e,))
    # (e) self-diagnosed protocol violation => fatal alert first
    if cls == "local_alert":
        recs = p.link.recs(vdir)
        if not recs or (recs[-1].type not in (21, 23) and
                        not recs[-1].ssl2):
            ctx.violation(dict(key, clause="local_alert_not_on_wire"), W,
                          "TLSLocalAlert raised but last record is %s" % (
                              recs[-1].type if recs else None))
        ctx.cell("alert", "%s:%d" % (vrole, e.description))
        return "alert:%d" % e.description
    if cls in ("remote_alert", "abrupt_close", "socket_error",
               "closed_conn"):
        return cls
    # a TLS exception raised raw: protocol violation without alert
    ctx.violation(dict(key, clause="no_alert_before_close",
                       exc=type(e).__name__, frame=vt.frame()),
                  dict(W, exc=repr(e), tb=tbs(vt)),
                  "victim aborted with %r without sending an alert" % (e,))
    return "raw:" + type(e).__name__


def in_child(fn, cpu_limit=25.0, wall_limit=400.0):
    """run fn() in a forked child; the parent watches the child's *CPU*
    time (a loop inside C code - regular expression, big-number operation -
    holds the GIL and is invisible to the Python call meter and to any
    in-process watchdog).  -> ("ok", result) | ("cpu", seconds) |
    ("wall", seconds) | ("died", status)"""
    import json as _json
    import signal
    import time as _time
    r, w = os.pipe()
    pid = os.fork()
    if pid == 0:
        try:
            os.close(r)
            try:
                out = fn()
            except BaseException as e:   # noqa
                out = {"child_exc": repr(e)[:300]}
            os.write(w, _json.dumps(out).encode()[:60000])
        finally:
            os._exit(0)
    os.close(w)
    tck = os.sysconf("SC_CLK_TCK")
    t0 = _time.monotonic()
    verdict = None
    while True:
        done, status = os.waitpid(pid, os.WNOHANG)
        if done:
            break
        try:
            with open("/proc/%d/stat" % pid) as f:
                fields = f.read().rsplit(")", 1)[1].split()
            cpu = (int(fields[11]) + int(fields[12])) / float(tck)
        except Exception:   # noqa
            cpu = 0.0
        if cpu > cpu_limit:
            verdict = ("cpu", cpu)
        elif _time.monotonic() - t0 > wall_limit:
            verdict = ("wall", cpu)
        if verdict:
            os.kill(pid, signal.SIGKILL)
            os.waitpid(pid, 0)
            os.close(r)
            return verdict
        _time.sleep(0.02)
    data = b""
    while True:
        chunk = os.read(r, 65536)
        if not chunk:
            break
        data += chunk
    os.close(r)
    if not data:
        return ("died", status)
    return ("ok", _json.loads(data.decode()))


def run_guarded(ctx, cid, P, sc, role, fam, vrole, name, newb, i, t, budget,
                bwork):
    """mutations whose cost could be inside C code: judged in a child under
    a CPU-time limit far above the honest handshake (tens of milliseconds)"""
    def job():
        R, adv, work, peak = run_one(sc, P["label"], role, target=i,
                                     new=newb, budget=budget)
        vt = R.ts if role == "client" else R.tc
        vic = R.p.s if role == "client" else R.p.c
        return {"applied": adv.applied, "status": vt.status,
                "exc": type(vt.exc).__name__ if vt.exc else None,
                "cls": mon.classify_exc(vt.exc) if vt.exc else None,
                "detail": repr(vt.exc)[:200], "work": work,
                "frame": vt.frame() if vt.exc else None,
                "outcome": [str(outcome(R.tc)), str(outcome(R.ts))]}
    how, res = in_child(job)
    ctx.ev()
    ctx.count("guarded_mutations")
    opclass = name.split(":")[0]
    key = {"victim": vrole, "fam": fam, "op": opclass,
           "msg": wire.HS.get(t, str(t))}
    W = {"case": cid, "scenario": sc.name, "msg_index": i, "operator": name,
         "mutant": newb[:300], "child": [how, res if how != "ok" else None]}
    if how == "cpu":
        ctx.violation(dict(key, clause="work_unbounded", measure="cpu_time",
                           shape=name.split(":", 1)[1]), W,
                      "victim used more than %.0f s of CPU on a %d-byte "
                      "message (honest handshake: %d Python calls)" % (
                          res, len(newb), bwork))
        out = "cpu"
    elif how != "ok" or "child_exc" in res:
        ctx.inconc("guarded case %s did not finish: %s %r" % (cid, how, res))
        return
    else:
        W["outcome"] = res["outcome"]
        if not res["applied"]:
            ctx.count("not_applied")
            return
        out = res["status"] if not res["exc"] else res["cls"]
        if res["status"] == "budget" or res["exc"] == "WorkBudget":
            ctx.violation(dict(key, clause="work_unbounded"), W,
                          "victim exceeded the logical work budget")
        elif res["exc"] and res["cls"].startswith("undocumented"):
            ctx.violation(dict(key, clause="undocumented_exception",
                               exc=res["exc"], frame=res["frame"]), W,
                          res["detail"])
    ctx.count("mutations")
    ctx.cell("cell", "%s|%s|%s|%s|%s" % (sc.name, vrole, wire.HS.get(t, t),
                                        name, out))
    ctx.cell("opclass", opclass)


def run_case(ctx, cid, P):
    sc = flavours.BY_NAME[P["sc"]]
    role = P["role"]
    ok, base, badv, bwork, cases = plan(ctx, sc, role, P["label"])
    if P.get("ctl"):
        ctx.ev()
        if not ok:
            ctx.inconc("honest control failed: %s/%s %r %r" % (
                sc.name, role, base.tc.exc, base.ts.exc))
        else:
            ctx.count("controls")
            ctx.maxi("honest_work", bwork)
        return
    fam = "tls13" if sc.ver == (3, 4) else "le12"
    budget = 40 * bwork + 4_000_000
    vrole = "server" if role == "client" else "client"
    close_socket = ctx.rng.random() < 0.6
    if "atk" in P:
        pre = record_attack(P["atk"], ctx.rng)
        post = P["at"] == "post"
        R, adv, work, peak = run_one(sc, P["label"], role,
                                     target=None if post else P["at"],
                                     pre_inject=None if post else pre,
                                     post=pre if post else None,
                                     budget=budget,
                                     close_socket=close_socket,
                                     trace_mem=P["atk"] in (
                                         "len_ffff", "oversize_plain",
                                         "huge_hs_len_then_stall"))
        if not adv.applied:
            ctx.count("not_applied")
            return
        key = {"victim": vrole, "fam": fam, "op": "rec:" + P["atk"]}
        W = {"case": cid, "scenario": sc.name, "attack": P["atk"],
             "before_msg": P["at"], "outcome": [outcome(R.tc),
                                                outcome(R.ts)]}
        out = judge(ctx, key, W, R, adv, role, work, budget, peak, 70000)
        ctx.count("record_attacks")
        ctx.cell("cell", "%s|%s|rec:%s|%s" % (sc.name, vrole, P["atk"], out))
        return
    # message mutation: rebuild the operator list deterministically
    i, j = P["msg"], P["op"]
    raw = badv.log[i][2]
    t = raw[0]
    name, newb = base.allops[i][j]
    if callable(newb):
        newb = newb()
    if newb is None or name != P["opname"]:
        ctx.inconc("plan/replay mismatch in %s" % cid)
        return
    if name.startswith("sni:"):
        return run_guarded(ctx, cid, P, sc, role, fam, vrole, name, newb, i,
                           t, budget, bwork)
    bomb = name.startswith("zbomb") or name in ("hs_len_max", "lf_lenmax",
                                                "hs_len_64k")
    R, adv, work, peak = run_one(sc, P["label"], role, target=i, new=newb,
                                 budget=budget,
                                 trace_mem=bomb and "brotli" not in name,
                                 close_socket=close_socket)
    if not adv.applied:
        ctx.count("not_applied")
        return
    opclass = name.split(":")[0]
    key = {"victim": vrole, "fam": fam, "op": opclass,
           "msg": wire.HS.get(t, str(t))}
    W = {"case": cid, "scenario": sc.name, "msg_index": i,
         "msg_type": wire.HS.get(t, t), "operator": name,
         "mutant": newb[:700], "outcome": [outcome(R.tc), outcome(R.ts)],
         "closeSocket": close_socket}
    out = judge(ctx, key, W, R, adv, role, work, budget, peak, len(newb))
    ctx.count("mutations")
    ctx.maxi("work", work)
    ctx.cell("cell", "%s|%s|%s|%s|%s" % (sc.name, vrole, wire.HS.get(t, t),
                                        opclass, out))
    ctx.cell("opclass", opclass)
    ctx.cell("exc", out)
    if len(ctx.samples) < 4:
        ctx.sample({"case": cid, "scenario": sc.name, "victim": vrole,
                    "message": wire.HS.get(t, t), "operator": name,
                    "outcome": out, "work": work})


def run(ctx):
    global METER
    METER = Meter()
    FLOOD[0] = ctx.pick(400, 2500)
    if not METER.ok:
        ctx.inconc("sys.monitoring unavailable: no work meter")
    for cid, P in ctx.cases(make_cases(ctx)):
        run_case(ctx, cid, P)


def finalize(m, tier):
    out = []
    c = m["counters"]
    if c.get("controls", 0) < 10:
        out.append("fewer than 10 honest controls")
    if c.get("mutations", 0) < 500:
        out.append("fewer than 500 mutation runs")
    if c.get("record_attacks", 0) < 50:
        out.append("fewer than 50 record-level attacks")
    if c.get("guarded_mutations", 0) < 20:
        out.append("fewer than 20 hostile server names judged under the "
                   "CPU-time guard")
    if c.get("cache_entry_checked_after_failure", 0) == 0:
        out.append("no cached session checked after a failure on a resumed "
                   "connection")
    ex = m["cells"].get("exc", set())
    if not any(x.startswith("alert:") for x in ex):
        out.append("no mutation was answered with an alert")
    ops = m["cells"].get("opclass", set())
    if "zbomb_small_declared" not in ops:
        out.append("compressed-certificate bomb never delivered")
    return out
