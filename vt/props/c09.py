"""C09 - symmetric primitives and key derivation compute the standardised
functions (differential oracle: every tlslite primitive against an
independent computation; see DESIGN.md "### C09")."""
from vt import boot  # noqa  (must be first)
import hashlib
import hmac as pyhmac
import importlib.util
import itertools
import json
import os
import traceback
import warnings

from vt.refs import sym, kdf, ossl, iana

from tlslite.utils import cipherfactory, cryptomath, tlshmac, tlshashlib
from tlslite.utils.rijndael import Rijndael
from tlslite.utils.chacha import ChaCha
from tlslite.utils.poly1305 import Poly1305
from tlslite import mathtls
from tlslite.handshakehashes import HandshakeHashes
from tlslite.recordlayer import RecordLayer
from tlslite.messages import Message
from tlslite.constants import CipherSuite

LEVEL = "exploration"
RULE = ("one case = one (primitive, key size, length class[, AAD class, "
        "nonce/IV class, split-pattern set]) cell with seeded random key/"
        "nonce/message; every output of the tlslite primitive is compared "
        "byte-for-byte with an independent computation (OpenSSL command line "
        "and/or straight-from-the-spec references in vt/refs/sym.py, "
        "vt/refs/kdf.py, themselves audited against OpenSSL in the same "
        "run).  AEAD negative cases enumerate every single-bit flip of "
        "ciphertext, tag, nonce and AAD, every truncation and wrong keys; "
        "Live monitors: derive_secret wrapped during TLS 1.3 handshakes "
        "(each call's transcript located among the prefixes of what the "
        "two ends sent, value recomputed), exporters of full and "
        "resumed <=1.2 connections against the reference PRF with "
        "randoms read off the wire.   "
        "each has its untouched positive control.  distinct_nontrivial "
        "counts distinct (primitive, length class, split pattern / mutation "
        "kind) cells in which at least one comparison was made.")
ASSUMPTIONS = [
    "pure-Python implementations only (implList=['python']); m2crypto/"
    "pycrypto back-ends are not installed",
    "the OpenSSL 3.x command line is trusted as the reference for the AES "
    "block function, CBC/CTR, ChaCha20, Poly1305, 3DES-CBC, RC4, GMAC, "
    "TLS1-PRF and HKDF; GCM/CCM/ChaCha20-Poly1305 composition, SSLv3 "
    "PRF/MAC, Expand-Label and calc_key compositions are harness code "
    "written from the RFCs and validated on published vectors",
    "Python_AES_CTR is judged under SP 800-38A per-message semantics: every "
    "encrypt() call starts on a fresh counter block (unused keystream of a "
    "partial last block is discarded); only block-aligned splits are "
    "required to equal the one-shot result",
    "HKDF-Expand above 255*HashLen, SSLv3 key material beyond 26 rounds, "
    "HkdfLabel fields above 255 bytes and ChaCha20 block-counter wrap are "
    "outside the standards' domain: behaviour recorded, not judged",
    "draft-00 ChaCha20 suites (0xCCA1-3): nonce = 4-byte fixed IV || 64-bit "
    "sequence number with the RFC 7539 AEAD (expired draft, from memory)",
    "record-layer padding for CBC is the sender's choice: the observed "
    "padding length is validated and then reproduced by the reference",
]
NONTRIVIAL = ["cell"]
DEADLINE = {"quick": 180, "thorough": 600}
USE_DRBG = True

TABLE = iana.table(CipherSuite.ietfNames)
PY = ["python"]


def B(x):
    return bytearray(x)


# ------------------------------------------------------------ judging -----

_VSEEN = {}


def viol(ctx, clause, prim, lc, wit, msg, **extra):
    key = {"clause": clause, "primitive": prim, "lenclass": lc}
    key.update(extra)
    k = json.dumps(key, sort_keys=True)
    _VSEEN[k] = _VSEEN.get(k, 0) + 1
    ctx.count("mismatch:" + prim)
    if _VSEEN[k] <= 3:
        ctx.violation(key, wit, msg)


def same(ctx, fam, prim, lc, clause, got, want, wit=None, pat="one-shot"):
    """one oracle evaluation: tlslite output == reference output"""
    ctx.ev()
    ctx.count("cmp:" + fam)
    ctx.cell("cell", "%s|%s|%s" % (prim, lc, pat))
    ok = False
    try:
        ok = got is not None and bytes(got) == bytes(want)
    except TypeError:
        ok = False
    if not ok:
        w = {"got": got if got is None else bytes(got)[:512],
             "want": bytes(want)[:512]}
        w.update(wit or {})
        viol(ctx, clause, prim, lc, w,
             "%s %s: tlslite differs from the reference (%s)" % (
                 prim, lc, clause))
    return ok


def call(ctx, prim, lc, fn, *a, **kw):
    """run a tlslite function; an exception on in-domain input is itself a
    refuting event (reported by exception type)"""
    try:
        with warnings.catch_warnings():
            warnings.simplefilter("ignore")
            return True, fn(*a, **kw)
    except Exception as e:   # noqa
        viol(ctx, "raised", prim, lc,
             {"exc": repr(e), "tb": traceback.format_exc()[-600:]},
             "%s raised %r on in-domain input" % (prim, e),
             exc=type(e).__name__)
        return False, None


def refcall(ctx, fam, fn, *a, **kw):
    """run an OpenSSL reference; unavailable -> inconclusive for fam"""
    try:
        return fn(*a, **kw)
    except ossl.Unavailable as e:
        ctx.inconc("%s: reference unavailable: %s" % (fam, str(e)[:160]))
        ctx.count("refmissing:" + fam)
        return None


def refagree(ctx, what, a, b):
    """two independent references must agree, else the harness is at fault"""
    ctx.count("refaudit")
    if a is None or b is None:
        return False
    if bytes(a) != bytes(b):
        ctx.inconc("harness fault: references disagree on " + what)
        return False
    return True


def audit_aes(ctx, aes, fam):
    """the reference AES block function vs openssl -aes-*-ecb on the blocks
    the reference actually evaluated in this case (one subprocess call)"""
    ins, outs = aes.audit()
    if not ins:
        return
    got = refcall(ctx, fam, ossl.aes_ecb, aes.key, ins)
    if got is not None:
        refagree(ctx, "AES block function (%s)" % fam, got, outs)
        ctx.count("refaudit_aes_blocks", len(ins) // 16)


def rb(rng, n):
    return rng.randbytes(n)


def flip(data, bit):
    d = bytearray(data)
    d[bit >> 3] ^= 0x80 >> (bit & 7)
    return d


# split patterns ----------------------------------------------------------

def cuts_all(nunits, allow_empty):
    """every way to cut nunits into 2..4 consecutive calls"""
    for k in (1, 2, 3):
        if allow_empty:
            it = itertools.combinations_with_replacement(range(nunits + 1), k)
        else:
            it = itertools.combinations(range(1, nunits), k)
        for c in it:
            yield c


def cuts_random(rng, nunits, count, special=()):
    out = []
    for _ in range(count):
        k = rng.choice((1, 2, 3))
        c = []
        for _ in range(k):
            if special and rng.random() < 0.5:
                c.append(min(nunits, max(0, rng.choice(special))))
            else:
                c.append(rng.randrange(0, nunits + 1))
        out.append(tuple(sorted(c)))
    return out


def chunks(data, cuts, unit=1):
    prev = 0
    for c in cuts:
        yield data[prev * unit:c * unit]
        prev = c
    yield data[prev * unit:]


def patname(cuts, n, unit):
    """split-pattern class for the evidence cells"""
    sizes = []
    prev = 0
    for c in list(cuts) + [n]:
        sizes.append(c - prev)
        prev = c
    if n <= 5:
        return "+".join(str(s) for s in sizes)
    al = all((c * unit) % 16 == 0 for c in cuts)
    return "parts=%d/%s%s" % (len(sizes), "aligned" if al else "unaligned",
                              "/empty" if 0 in sizes else "")


# length classes -----------------------------------------------------------
BYTE_LENS = [0, 1, 15, 16, 17, 31, 32, 33, 47, 48, 49, 63, 64, 65, 79, 80, 81,
             255, 256, 257, 4095, 4096, 4097, 16384]
CHACHA_LENS = BYTE_LENS + [127, 128, 129, 191, 192, 193, 319, 320, 321]
CBC16_LENS = [0, 16, 32, 48, 64, 80, 240, 256, 272, 4080, 4096, 4112, 16384]
CBC8_LENS = [0, 8, 16, 24, 32, 40, 248, 256, 264]
AAD_LENS = [0, 1, 13, 65279, 65280, 65281, 70000]
NEG_MLENS = [0, 1, 15, 16, 17, 33]
NEG_ALENS = [0, 1, 13]


# =============================================================== AES =======

def run_aes_block(ctx, P):
    rng = ctx.rng
    kl = P["keylen"]
    fam = "aes_block"
    key = {0: bytes(kl), 1: b"\xff" * kl}.get(P["idx"], rb(rng, kl))
    n = ctx.pick(64, 256)
    blocks = [bytes(16), b"\xff" * 16]
    blocks += [bytes(flip(bytes(16), rng.randrange(128))) for _ in range(8)]
    blocks += [rb(rng, 16) for _ in range(n)]
    data = b"".join(blocks)
    want_e = refcall(ctx, fam, ossl.aes_ecb, key, data)
    want_d = refcall(ctx, fam, ossl.aes_ecb, key, data, True)
    if want_e is None or want_d is None:
        return
    ra = sym.AES(key, audit=False)
    lc = "key=%d" % (kl * 8)
    ok, r = call(ctx, "rijndael", lc, Rijndael, B(key), 16)
    if not ok:
        return
    for i, blk in enumerate(blocks):
        we, wd = want_e[16 * i:16 * i + 16], want_d[16 * i:16 * i + 16]
        refagree(ctx, "AES encrypt_block", ra.encrypt_block(blk), we)
        refagree(ctx, "AES decrypt_block", ra.decrypt_block(blk), wd)
        ok, got = call(ctx, "rijndael.encrypt", lc, r.encrypt, B(blk))
        if ok:
            same(ctx, fam, "rijndael.encrypt", lc, "block_encrypt", got, we,
                 {"key": key, "block": blk}, "block")
        ok, got = call(ctx, "rijndael.decrypt", lc, r.decrypt, B(blk))
        if ok:
            same(ctx, fam, "rijndael.decrypt", lc, "block_decrypt", got, wd,
                 {"key": key, "block": blk}, "block")


def _stream_splits(ctx, fam, prim, lc, mk, op, data, want, patterns, unit,
                   wit):
    """feed `data` to ONE fresh object in several calls"""
    n = len(data) // unit
    for cuts in patterns:
        obj = mk()
        out = bytearray()
        good = True
        for ch in chunks(data, cuts, unit):
            ok, r = call(ctx, prim, lc, getattr(obj, op), B(ch))
            if not ok:
                good = False
                break
            out += r
        if good:
            w = dict(wit)
            w["cuts"] = list(cuts)
            same(ctx, fam, prim, lc, "chained_calls_" + op, out, want, w,
                 patname(cuts, n, unit))


def run_aes_cbc(ctx, P):
    rng = ctx.rng
    kl, nbytes = P["keylen"], P["n"]
    fam = "aes_cbc"
    key, iv, msg = rb(rng, kl), rb(rng, 16), rb(rng, nbytes)
    lc = "key=%d/n=%d" % (kl * 8, nbytes)
    ct = refcall(ctx, fam, ossl.aes_cbc, key, iv, msg)
    pt2 = refcall(ctx, fam, ossl.aes_cbc, key, iv, msg, True)
    if ct is None or pt2 is None:
        return
    ra = sym.AES(key, audit=False)
    refagree(ctx, "CBC encrypt", sym.cbc_encrypt(ra, iv, msg), ct)
    if nbytes <= 4112:
        refagree(ctx, "CBC decrypt", sym.cbc_decrypt(ra, iv, msg), pt2)
    wit = {"key": key, "iv": iv, "msg": msg[:256]}

    def mk():
        return cipherfactory.createAES(B(key), B(iv), PY)
    ok, got = call(ctx, "aes_cbc.encrypt", lc, mk().encrypt, B(msg))
    if ok:
        same(ctx, fam, "aes_cbc.encrypt", lc, "cbc_encrypt", got, ct, wit)
    ok, got = call(ctx, "aes_cbc.decrypt", lc, mk().decrypt, B(msg))
    if ok:
        same(ctx, fam, "aes_cbc.decrypt", lc, "cbc_decrypt", got, pt2, wit)
    nb = nbytes // 16
    if nb == 0:
        pats = [(0,), (0, 0)]
    elif nb <= 5:
        pats = list(cuts_all(nb, True))
    else:
        pats = cuts_random(rng, nb, ctx.pick(4, 12), (1, nb - 1, nb // 2))
    _stream_splits(ctx, fam, "aes_cbc.encrypt", lc, mk, "encrypt", msg, ct,
                   pats, 16, wit)
    _stream_splits(ctx, fam, "aes_cbc.decrypt", lc, mk, "decrypt", msg, pt2,
                   pats, 16, wit)


CTR_IVS = ["iv16-rand", "iv16-ff4", "iv16-fffe", "iv16-allff", "iv16-ff8",
           "iv12", "iv8", "setter"]


def _ctr_iv(rng, kind):
    if kind in ("iv16-rand", "setter"):
        return rb(rng, 16)
    if kind == "iv16-ff4":
        return rb(rng, 12) + b"\xff" * 4
    if kind == "iv16-fffe":
        return rb(rng, 10) + b"\xff" * 5 + b"\xfe"
    if kind == "iv16-ff8":
        return rb(rng, 8) + b"\xff" * 8
    if kind == "iv16-allff":
        return b"\xff" * 16
    if kind == "iv12":
        return rb(rng, 12)
    return rb(rng, 8)


def run_aes_ctr(ctx, P):
    rng = ctx.rng
    kl, nbytes, kind = P["keylen"], P["n"], P["iv"]
    fam = "aes_ctr"
    key, msg = rb(rng, kl), rb(rng, nbytes)
    iv = _ctr_iv(rng, kind)
    ctr16 = iv + bytes(16 - len(iv))
    lc = "key=%d/%s/n=%d" % (kl * 8, kind, nbytes)
    want = refcall(ctx, fam, ossl.aes_ctr, key, ctr16, msg) if nbytes else b""
    if want is None:
        return
    ra = sym.AES(key, audit=False)
    refagree(ctx, "CTR", sym.ctr_crypt(ra, ctr16, msg), want)
    wit = {"key": key, "iv": iv, "msg": msg[:256]}

    def mk():
        if kind == "setter":
            o = cipherfactory.createAESCTR(B(key), B(bytes(16)), PY)
            o.counter = B(ctr16)
            return o
        return cipherfactory.createAESCTR(B(key), B(iv), PY)
    ok, got = call(ctx, "aes_ctr.encrypt", lc, mk().encrypt, B(msg))
    if ok:
        same(ctx, fam, "aes_ctr.encrypt", lc, "ctr_encrypt", got, want, wit)
    ok, got = call(ctx, "aes_ctr.decrypt", lc, mk().decrypt, B(want))
    if ok:
        same(ctx, fam, "aes_ctr.decrypt", lc, "ctr_decrypt", got, msg, wit)
    # chained calls.  Reference: every call is an SP 800-38A message that
    # starts on the next unused counter block.
    if nbytes == 0:
        return
    if nbytes <= 20 or (nbytes <= 33 and P.get("full")):
        pats = list(cuts_all(nbytes, False))
    else:
        nb = (nbytes + 15) // 16
        pats = [tuple(sorted(min(16 * x, nbytes) for x in c)) for c in
                cuts_random(rng, nb, ctx.pick(6, 16), (1, nb - 1, 16))]
        pats += cuts_random(rng, nbytes, ctx.pick(6, 16),
                            (1, 15, 17, 255, 257, nbytes - 1))
    c0 = int.from_bytes(ctr16, "big")
    for cuts in pats:
        obj = mk()
        out = bytearray()
        exp = b""
        used = 0
        good = True
        for ch in chunks(msg, cuts):
            ok, r = call(ctx, "aes_ctr.encrypt", lc, obj.encrypt, B(ch))
            if not ok:
                good = False
                break
            out += r
            c = ((c0 + used) % (1 << 128)).to_bytes(16, "big")
            exp += sym.ctr_crypt(ra, c, ch)
            used += sym.ctr_blocks_used(len(ch))
        if not good:
            continue
        aligned = all(c % 16 == 0 for c in cuts)
        if aligned:
            refagree(ctx, "CTR per-call model (aligned)", exp, want)
        else:
            ctx.count("ctr_unaligned_split_equals_stream"
                      if bytes(out) == want else
                      "ctr_unaligned_split_differs_from_stream")
        w = dict(wit)
        w["cuts"] = list(cuts)
        same(ctx, fam, "aes_ctr.encrypt", lc, "chained_calls_counter_state",
             out, exp, w, patname(cuts, nbytes, 1))


# ============================================================= 3DES / RC4 ==

def run_des3(ctx, P):
    rng = ctx.rng
    kl, nbytes = P["keylen"], P["n"]
    fam = "des3"
    key, iv, msg = rb(rng, kl), rb(rng, 8), rb(rng, nbytes)
    lc = "key=%d/n=%d" % (kl * 8, nbytes)
    ct = refcall(ctx, fam, ossl.des3_cbc, key, iv, msg)
    pt2 = refcall(ctx, fam, ossl.des3_cbc, key, iv, msg, True)
    if ct is None or pt2 is None:
        return
    wit = {"key": key, "iv": iv, "msg": msg[:256]}

    def mk():
        return cipherfactory.createTripleDES(B(key), B(iv), PY)
    ok, got = call(ctx, "3des_cbc.encrypt", lc, mk().encrypt, B(msg))
    if ok:
        same(ctx, fam, "3des_cbc.encrypt", lc, "cbc_encrypt", got, ct, wit)
    if P.get("dec", True):
        ok, got = call(ctx, "3des_cbc.decrypt", lc, mk().decrypt, B(msg))
        if ok:
            same(ctx, fam, "3des_cbc.decrypt", lc, "cbc_decrypt", got, pt2,
                 wit)
    nb = nbytes // 8
    if nb == 0:
        pats = [(0,)]
    elif nb <= 5:
        pats = list(cuts_all(nb, True))
        if ctx.quick and nb >= 4:
            pats = rng.sample(pats, 24)
    elif nb <= 64:
        pats = cuts_random(rng, nb, ctx.pick(2, 6), (1, nb - 1))
    else:
        pats = cuts_random(rng, nb, 1, (1, nb - 1))
    _stream_splits(ctx, fam, "3des_cbc.encrypt", lc, mk, "encrypt", msg, ct,
                   pats, 8, wit)
    if P.get("dec", True):
        _stream_splits(ctx, fam, "3des_cbc.decrypt", lc, mk, "decrypt", msg,
                       pt2, pats, 8, wit)


def run_rc4(ctx, P):
    rng = ctx.rng
    kl, nbytes = P["keylen"], P["n"]
    fam = "rc4"
    key, msg = rb(rng, kl), rb(rng, nbytes)
    lc = "key=%d/n=%d" % (kl * 8, nbytes)
    want = refcall(ctx, fam, ossl.rc4, key, msg) if nbytes else b""
    if want is None:
        return
    wit = {"key": key, "msg": msg[:256]}

    def mk():
        return cipherfactory.createRC4(B(key), B(b""), PY)
    ok, got = call(ctx, "rc4.encrypt", lc, mk().encrypt, B(msg))
    if ok:
        same(ctx, fam, "rc4.encrypt", lc, "rc4_encrypt", got, want, wit)
    ok, got = call(ctx, "rc4.decrypt", lc, mk().decrypt, B(want))
    if ok:
        same(ctx, fam, "rc4.decrypt", lc, "rc4_decrypt", got, msg, wit)
    if nbytes == 0:
        return
    if nbytes <= 20 or (nbytes <= 33 and P.get("full")):
        pats = list(cuts_all(nbytes, False))
    else:
        pats = cuts_random(rng, nbytes, ctx.pick(12, 40),
                           (1, 255, 256, 257, 512, nbytes - 1))
    _stream_splits(ctx, fam, "rc4.encrypt", lc, mk, "encrypt", msg, want,
                   pats, 1, wit)


# ===================================================== ChaCha20 / Poly1305 =

def run_chacha20(ctx, P):
    rng = ctx.rng
    nbytes, ck = P["n"], P["ctr"]
    fam = "chacha20"
    key, nonce, msg = rb(rng, 32), rb(rng, 12), rb(rng, nbytes)
    nblk = (nbytes + 63) // 64
    counter = {"0": 0, "1": 1, "max": (1 << 32) - max(nblk, 1),
               "rand": rng.randrange(2, 1 << 31)}[ck]
    if P.get("nonce") == "ff":
        nonce = b"\xff" * 12
    lc = "ctr=%s/n=%d" % (ck, nbytes)
    want = refcall(ctx, fam, ossl.chacha20, key, counter, nonce, msg) \
        if nbytes else b""
    if want is None:
        return
    refagree(ctx, "ChaCha20", sym.chacha20(key, counter, nonce, msg), want)
    wit = {"key": key, "nonce": nonce, "counter": counter, "msg": msg[:256]}
    ok, obj = call(ctx, "chacha20", lc, ChaCha, B(key), B(nonce), counter)
    if not ok:
        return
    ok, got = call(ctx, "chacha20.encrypt", lc, obj.encrypt, B(msg))
    if ok:
        same(ctx, fam, "chacha20.encrypt", lc, "chacha20_encrypt", got, want,
             wit)
    ok, got = call(ctx, "chacha20.decrypt", lc, obj.decrypt, B(want))
    if ok:
        same(ctx, fam, "chacha20.decrypt", lc, "chacha20_decrypt", got, msg,
             wit)


POLY_KEYS = ["rand", "r-allff", "s-allff", "r-zero", "r-two", "all-ff"]
POLY_MSGS = ["rand", "ff", "p-edge"]


def run_poly1305(ctx, P):
    rng = ctx.rng
    nbytes, kk, mk_ = P["n"], P["key"], P["msg"]
    fam = "poly1305"
    key = rb(rng, 32)
    if kk == "r-allff":
        key = b"\xff" * 16 + key[16:]
    elif kk == "s-allff":
        key = key[:16] + b"\xff" * 16
    elif kk == "r-zero":
        key = bytes(16) + key[16:]
    elif kk == "r-two":
        key = b"\x02" + bytes(15) + (bytes(16) if rng.random() < 0.5
                                     else key[16:])
    elif kk == "all-ff":
        key = b"\xff" * 32
    msg = rb(rng, nbytes)
    if mk_ == "ff":
        msg = b"\xff" * nbytes
    elif mk_ == "p-edge":
        # blocks equal to 2^130-5 minus 2^128 low part and neighbours
        pat = [b"\xfb" + b"\xff" * 15, b"\xfa" + b"\xff" * 15,
               b"\xfc" + b"\xff" * 15, bytes(16), b"\x01" + bytes(15)]
        msg = b"".join(rng.choice(pat) for _ in range(nbytes // 16 + 1))
        msg = msg[:nbytes]
    lc = "key=%s/msg=%s/n=%d" % (kk, mk_, nbytes)
    want = refcall(ctx, fam, ossl.poly1305, key, msg)
    if want is None:
        return
    refagree(ctx, "Poly1305", sym.poly1305(key, msg), want)
    ok, obj = call(ctx, "poly1305", lc, Poly1305, B(key))
    if not ok:
        return
    ok, got = call(ctx, "poly1305.create_tag", lc, obj.create_tag, B(msg))
    if ok:
        same(ctx, fam, "poly1305.create_tag", lc, "poly1305_tag", got, want,
             {"key": key, "msg": msg[:256]})


# ================================================================== AEAD ===

AEADS = {
    # name: (key lengths, factory, reference factory, tag length)
    "gcm": ((16, 32), cipherfactory.createAESGCM,
            lambda k: sym.GCM(k), 16),
    "ccm": ((16, 32), cipherfactory.createAESCCM,
            lambda k: sym.CCM(k, 16), 16),
    "ccm8": ((16, 32), cipherfactory.createAESCCM_8,
             lambda k: sym.CCM(k, 8), 8),
    "chachapoly": ((32,), cipherfactory.createCHACHA20,
                   lambda k: sym.ChaCha20Poly1305(k), 16),
}
NONCES = ["rand", "ff4", "allff", "zero"]


def _nonce(rng, kind):
    return {"rand": rb(rng, 12), "ff4": rb(rng, 8) + b"\xff" * 4,
            "allff": b"\xff" * 12, "zero": bytes(12)}[kind]


def _aead_ref_audit(ctx, alg, ref, key, nonce, msg, aad, sealed):
    """anchor the harness AEAD reference in OpenSSL"""
    fam = alg
    if alg == "chachapoly":
        ks = refcall(ctx, fam, ossl.chacha20, key, 0, nonce,
                     bytes(64) + bytes(msg))
        if ks is None:
            return
        otk, ct = ks[:32], ks[64:]
        mac_data = bytes(aad) + bytes(-len(aad) % 16) + ct + \
            bytes(-len(ct) % 16) + len(aad).to_bytes(8, "little") + \
            len(ct).to_bytes(8, "little")
        tag = refcall(ctx, fam, ossl.poly1305, otk, mac_data)
        if tag is not None:
            refagree(ctx, "ChaCha20-Poly1305 composition", ct + tag, sealed)
        return
    audit_aes(ctx, ref.aes, fam)
    if alg == "gcm" and len(msg) == 0:
        tag = refcall(ctx, fam, ossl.gmac, key, nonce, aad)
        if tag is not None:
            refagree(ctx, "GCM tag vs openssl GMAC", tag, sealed)


def run_aead(ctx, P):
    rng = ctx.rng
    alg, kl, mlen, alen = P["alg"], P["keylen"], P["m"], P["a"]
    _, factory, mkref, tl = AEADS[alg]
    key = rb(rng, kl)
    nonce = _nonce(rng, P["nonce"])
    msg, aad = rb(rng, mlen), rb(rng, alen)
    lc = "key=%d/m=%d/a=%d/nonce=%s" % (kl * 8, mlen, alen, P["nonce"])
    ref = mkref(key)
    want = ref.seal(nonce, msg, aad)
    _aead_ref_audit(ctx, alg, ref, key, nonce, msg, aad, want)
    wit = {"key": key, "nonce": nonce, "aad": aad[:64], "aad_len": alen,
           "msg": msg[:128], "msg_len": mlen}
    ok, obj = call(ctx, alg, lc, factory, B(key), PY)
    if not ok:
        return
    ok, got = call(ctx, alg + ".seal", lc, obj.seal, B(nonce), B(msg), B(aad))
    if ok:
        same(ctx, alg, alg + ".seal", lc, "seal", got, want, wit)
    ok, got = call(ctx, alg + ".open", lc, obj.open, B(nonce), B(want),
                   B(aad))
    if ok:
        same(ctx, alg, alg + ".open", lc, "open_untouched", got, msg, wit)
        ctx.count("pos:" + alg)
    # the same object again with other inputs, then the first input again:
    # no state may leak between seal()/open() calls
    n2, m2, a2 = rb(rng, 12), rb(rng, rng.choice((0, 5, 16, 40))), \
        rb(rng, rng.choice((0, 13, 20)))
    w2 = ref.seal(n2, m2, a2)
    ok, got = call(ctx, alg + ".seal", lc, obj.seal, B(n2), B(m2), B(a2))
    if ok:
        same(ctx, alg, alg + ".seal", lc, "seal_reused_object", got, w2,
             {"key": key, "nonce": n2, "aad": a2, "msg": m2}, "reuse")
    if mlen <= 4097 and alen <= 13:
        ok, got = call(ctx, alg + ".seal", lc, obj.seal, B(nonce), B(msg),
                       B(aad))
        if ok:
            same(ctx, alg, alg + ".seal", lc, "seal_reused_object", got,
                 want, wit, "reuse")


def _neg(ctx, alg, lc, obj, nonce, data, aad, mut, wit):
    """open() of a touched input must return None"""
    ctx.ev()
    ctx.count("neg:" + alg)
    ctx.cell("cell", "%s.open|%s|neg:%s" % (alg, lc, mut))
    try:
        r = obj.open(B(nonce), B(data), B(aad))
    except Exception as e:   # noqa
        w = dict(wit)
        w.update({"exc": repr(e), "mutation": mut, "data": bytes(data)})
        viol(ctx, "open_raised_on_modified_input", alg + ".open", lc, w,
             "%s.open raised %r instead of returning None" % (alg, e),
             exc=type(e).__name__, mutation=mut.split(":")[0])
        return
    if r is not None:
        w = dict(wit)
        w.update({"mutation": mut, "data": bytes(data), "nonce_used": nonce,
                  "aad_used": aad, "returned": bytes(r)})
        viol(ctx, "open_accepted_modified_input", alg + ".open", lc, w,
             "%s.open returned plaintext for a modified input (%s)" % (
                 alg, mut), mutation=mut.split(":")[0])


def run_aead_neg(ctx, P):
    rng = ctx.rng
    alg, kl, mlen, alen = P["alg"], P["keylen"], P["m"], P["a"]
    _, factory, mkref, tl = AEADS[alg]
    key, nonce = rb(rng, kl), rb(rng, 12)
    msg, aad = rb(rng, mlen), rb(rng, alen)
    lc = "key=%d/m=%d/a=%d" % (kl * 8, mlen, alen)
    ref = mkref(key)
    sealed = ref.seal(nonce, msg, aad)
    wit = {"key": key, "nonce": nonce, "aad": aad, "msg": msg,
           "sealed": sealed}
    ok, obj = call(ctx, alg, lc, factory, B(key), PY)
    if not ok:
        return
    # positive control
    ok, got = call(ctx, alg + ".open", lc, obj.open, B(nonce), B(sealed),
                   B(aad))
    if not ok or not same(ctx, alg, alg + ".open", lc, "open_untouched", got,
                          msg, wit, "neg-control"):
        return
    ctx.count("pos:" + alg)
    ctx.count("negcontrol:" + alg)
    for bit in range(len(sealed) * 8):
        mut = "ct_bit" if bit < mlen * 8 else "tag_bit"
        _neg(ctx, alg, lc, obj, nonce, flip(sealed, bit), aad, mut, wit)
    for bit in range(96):
        _neg(ctx, alg, lc, obj, flip(nonce, bit), sealed, aad, "nonce_bit",
             wit)
    for bit in range(alen * 8):
        _neg(ctx, alg, lc, obj, nonce, sealed, flip(aad, bit), "aad_bit", wit)
    for k in range(len(sealed)):
        _neg(ctx, alg, lc, obj, nonce, sealed[:k], aad, "truncated_tail", wit)
    _neg(ctx, alg, lc, obj, nonce, sealed[1:], aad, "truncated_head", wit)
    _neg(ctx, alg, lc, obj, nonce, sealed + b"\x00", aad, "extended", wit)
    _neg(ctx, alg, lc, obj, nonce, sealed + sealed[-tl:], aad, "extended",
         wit)
    if alen:
        _neg(ctx, alg, lc, obj, nonce, sealed, aad[:-1], "aad_truncated", wit)
    _neg(ctx, alg, lc, obj, nonce, sealed, aad + b"\x00", "aad_extended", wit)
    if mlen:
        _neg(ctx, alg, lc, obj, nonce, sealed, aad + msg, "aad_extended",
             wit)
    # wrong key
    bits = rng.sample(range(kl * 8), ctx.pick(12, 48))
    for kb in [None] + bits:
        k2 = rb(rng, kl) if kb is None else bytes(flip(key, kb))
        ok, o2 = call(ctx, alg, lc, factory, B(k2), PY)
        if ok:
            _neg(ctx, alg, lc, o2, nonce, sealed, aad, "wrong_key", wit)
    # still opens the untouched input afterwards
    ok, got = call(ctx, alg + ".open", lc, obj.open, B(nonce), B(sealed),
                   B(aad))
    if ok:
        same(ctx, alg, alg + ".open", lc, "open_untouched_after_rejects",
             got, msg, wit, "neg-control")


# ================================================================== HMAC ===

_FALLBACK = []


def fallback_hmac():
    """tlslite/utils/tlshmac.py's own HMAC class is only defined when the
    platform refuses HMAC-MD5 (FIPS).  Load a second copy of the module from
    the repository with hmac.HMAC refusing, so that the shipped fallback
    class is exercised too."""
    if _FALLBACK:
        return _FALLBACK[0]
    mod = None
    try:
        path = os.path.join(os.path.dirname(tlshmac.__file__), "tlshmac.py")
        spec = importlib.util.spec_from_file_location(
            "tlslite.utils._vt_tlshmac_fallback", path)
        mod = importlib.util.module_from_spec(spec)
        orig = pyhmac.HMAC

        class Refuse(object):
            def __init__(self, *a, **k):
                raise ValueError("simulated FIPS: HMAC-MD5 refused")
        pyhmac.HMAC = Refuse
        try:
            spec.loader.exec_module(mod)
        finally:
            pyhmac.HMAC = orig
        if mod.HMAC is orig or mod.HMAC is Refuse:
            mod = None
    except Exception:   # noqa
        mod = None
    _FALLBACK.append(mod)
    return mod


HMAC_HASHES = ["md5", "sha1", "sha224", "sha256", "sha384", "sha512"]


def run_hmac(ctx, P):
    rng = ctx.rng
    hname, kc, mlen = P["hash"], P["keyclass"], P["n"]
    fam = "hmac"
    bs = hashlib.new(hname).block_size
    klen = {"0": 0, "1": 1, "short": bs // 3, "block-1": bs - 1, "block": bs,
            "block+1": bs + 1, "long": 2 * bs + 3}[kc]
    key, msg = rb(rng, klen), rb(rng, mlen)
    lc = "%s/key=%s/n=%d" % (hname, kc, mlen)
    want = kdf.hmac(hname, key, msg)
    refagree(ctx, "HMAC vs Python hmac", want,
             pyhmac.new(key, msg, hname).digest())
    if P.get("ossl") and klen:
        o = refcall(ctx, fam, ossl.hmac, hname, key, msg)
        if o is not None:
            refagree(ctx, "HMAC vs openssl mac", want, o)
    wit = {"hash": hname, "key": key, "msg": msg[:256]}
    impls = [("tlshmac", tlshmac)]
    fb = fallback_hmac()
    if fb is not None:
        impls.append(("tlshmac_fallback", fb))
    else:
        ctx.note("tlshmac fallback HMAC class could not be loaded")
    cut = rng.randrange(0, mlen + 1)
    for name, mod in impls:
        ok, got = call(ctx, name + ".new", lc,
                       lambda: mod.new(key, msg, hname).digest())
        if ok:
            same(ctx, fam, name + ".new", lc, "hmac", got, want, wit)
        # streaming update + copy
        def streamed():
            h = mod.HMAC(key, digestmod=hname)
            h.update(msg[:cut])
            h2 = h.copy()
            h.update(b"garbage that must not reach the copy")
            h2.update(msg[cut:])
            return h2.digest()
        ok, got = call(ctx, name + ".update", lc, streamed)
        if ok:
            same(ctx, fam, name + ".update", lc, "hmac_update_copy", got,
                 want, wit, "update+copy")
        if name == "tlshmac_fallback":
            ok, got = call(ctx, name + ".new", lc, lambda: mod.HMAC(
                key, msg, getattr(hashlib, hname)).digest())
            if ok:
                same(ctx, fam, name + ".new", lc, "hmac_callable_digestmod",
                     got, want, wit, "callable-digestmod")
    ok, got = call(ctx, "secureHMAC", lc, cryptomath.secureHMAC, B(key),
                   B(msg), hname)
    if ok:
        same(ctx, fam, "secureHMAC", lc, "hmac", got, want, wit)
    short = {"md5": cryptomath.HMAC_MD5, "sha1": cryptomath.HMAC_SHA1,
             "sha256": cryptomath.HMAC_SHA256,
             "sha384": cryptomath.HMAC_SHA384}.get(hname)
    if short:
        ok, got = call(ctx, "HMAC_" + hname.upper(), lc, short, B(key),
                       B(msg))
        if ok:
            same(ctx, fam, "HMAC_" + hname.upper(), lc, "hmac", got, want,
                 wit)
    # record-layer constructor
    def viacreate():
        h = mathtls.createHMAC(bytes(key), digestmod=getattr(hashlib, hname))
        h = h.copy()
        h.update(bytes(msg))
        return h.digest()
    ok, got = call(ctx, "createHMAC", lc, viacreate)
    if ok:
        same(ctx, fam, "createHMAC", lc, "hmac", got, want, wit)


# =================================================================== PRF ===

def _outlens(d):
    return [0, 1, d - 1, d, d + 1, 2 * d, 3 * d + 5, 255 * d, 255 * d + 1]


PRF_SECRETS = [0, 1, 2, 47, 48, 63, 64, 65, 129]
PRF_LABELS = {"empty": b"", "std": b"key expansion", "long": b"L" * 249}
PRF_SEEDS = [0, 1, 64, 300]


def run_prf(ctx, P):
    rng = ctx.rng
    which, slen, lab, seedlen = P["prf"], P["secret"], P["label"], P["seed"]
    fam = "prf"
    secret, seed = rb(rng, slen), rb(rng, seedlen)
    label = PRF_LABELS[lab]
    if lab == "long":
        label = rb(rng, 249)
    if which == "PRF":
        lens = sorted(set(_outlens(16) + _outlens(20) + [104, 136]))
        fn = lambda n: mathtls.PRF(B(secret), B(label), B(seed), n)
        rf = lambda n: kdf.prf_tls10(secret, label, seed, n)
        dg = "md5-sha1"
    elif which == "PRF_1_2":
        lens = _outlens(32) + [104, 136]
        fn = lambda n: mathtls.PRF_1_2(B(secret), B(label), B(seed), n)
        rf = lambda n: kdf.prf_tls12("sha256", secret, label, seed, n)
        dg = "sha256"
    elif which == "PRF_1_2_SHA384":
        lens = _outlens(48) + [104, 136]
        fn = lambda n: mathtls.PRF_1_2_SHA384(B(secret), B(label), B(seed),
                                              n)
        rf = lambda n: kdf.prf_tls12("sha384", secret, label, seed, n)
        dg = "sha384"
    else:
        lens = [0, 1, 15, 16, 17, 47, 48, 49, 104, 136, 415, 416]
        seed = label + seed
        fn = lambda n: mathtls.PRF_SSL(B(secret), B(seed), n)
        rf = lambda n: kdf.prf_ssl3(secret, seed, n)
        dg = None
    wit = {"secret": secret, "label": label, "seed": seed}
    for n in lens:
        lc = "secret=%d/label=%s/seed=%d/out=%d" % (slen, lab, seedlen, n)
        want = rf(n)
        ok, got = call(ctx, which, lc, fn, n)
        if ok:
            w = dict(wit)
            w["out_len"] = n
            same(ctx, fam, which, lc, "prf_output", got, want, w)
    if dg and P.get("ossl") and slen and (len(label) + len(seed)):
        n = rng.choice((12, 48, 104, 1000))
        o = refcall(ctx, fam, ossl.tls1_prf, dg, secret, label + seed, n)
        if o is not None:
            refagree(ctx, "TLS PRF vs openssl kdf TLS1-PRF", rf(n), o)
            ctx.count("refaudit_prf")
    if which == "PRF_SSL":
        # beyond 'Z' (26 rounds) RFC 6101 defines nothing: record only
        try:
            r = fn(kdf.SSL3_MAX + 1)
            ctx.count("prf_ssl_beyond_Z:returned_%s" % (
                "zero_padded" if bytes(r[-1:]) == b"\x00" else "data"))
        except Exception as e:   # noqa
            ctx.count("prf_ssl_beyond_Z:raised_" + type(e).__name__)


# ============================================================== calc_key ===

VERS = [(3, 0), (3, 1), (3, 2), (3, 3)]
VN = {(3, 0): "ssl3", (3, 1): "tls10", (3, 2): "tls11", (3, 3): "tls12",
      (3, 4): "tls13"}


def _hh(rng, transcript):
    hh = HandshakeHashes()
    p = 0
    while p < len(transcript):
        k = rng.choice((1, 4, 60, 200, 1000))
        hh.update(B(transcript[p:p + k]))
        p += k
    return hh


def run_calc_key(ctx, P):
    rng = ctx.rng
    ver, sid = tuple(P["ver"]), P["sid"]
    su = TABLE[sid]
    fam = "calc_key"
    ph = su.prf
    pm = rb(rng, rng.choice((48, 48, 32, 66, 256, 1)))
    cr, sr = rb(rng, 32), rb(rng, 32)
    tr = rb(rng, rng.choice((0, 1, 300, 3000)))
    hh = _hh(rng, tr)
    base = "%s/prf=%s" % (VN[ver], ph if ver == (3, 3) else "legacy")
    wit = {"suite": su.name, "ver": list(ver), "premaster": pm, "cr": cr,
           "sr": sr, "transcript": tr[:300], "transcript_len": len(tr)}
    ctx.cell("calc_suite", "%s/%s" % (VN[ver], su.name))

    def ck(label, **kw):
        return mathtls.calc_key(ver, B(pm), sid, label, **kw)
    # master secret
    want_ms = kdf.master_secret(ver, ph, pm, cr, sr)
    lc = base + "/master secret"
    ok, got = call(ctx, "calc_key", lc, ck, b"master secret",
                   client_random=B(cr), server_random=B(sr),
                   output_length=48)
    if ok:
        same(ctx, fam, "calc_key", lc, "master_secret", got, want_ms, wit)
    ok, got = call(ctx, "calcMasterSecret", lc, mathtls.calcMasterSecret,
                   ver, sid, B(pm), B(cr), B(sr))
    if ok:
        same(ctx, fam, "calcMasterSecret", lc, "master_secret", got, want_ms,
             wit)
    # extended master secret (RFC 7627: TLS only)
    if ver > (3, 0):
        want = kdf.extended_master_secret(ver, ph, pm, tr)
        lc = base + "/extended master secret"
        ok, got = call(ctx, "calc_key", lc, ck, b"extended master secret",
                       handshake_hashes=hh, output_length=48)
        if ok:
            same(ctx, fam, "calc_key", lc, "extended_master_secret", got,
                 want, wit)
        ok, got = call(ctx, "calcExtendedMasterSecret", lc,
                       mathtls.calcExtendedMasterSecret, ver, sid, B(pm), hh)
        if ok:
            same(ctx, fam, "calcExtendedMasterSecret", lc,
                 "extended_master_secret", got, want, wit)
    # key expansion (secret = master secret)
    ms = pm if len(pm) == 48 else want_ms
    ivl = {"cbc": su.block, "gcm": 4, "ccm": 4, "chacha": 12,
           "chacha_draft": 4}.get(su.cipher_kind, 0)
    real = 2 * (su.maclen + su.keylen + ivl)
    for n in sorted(set([real, 0, 1, 104, 136, 200])):
        lc = base + "/key expansion/out=%s" % (
            "suite" if n == real else n)
        want = kdf.key_block(ver, ph, ms, cr, sr, n)
        ok, got = call(ctx, "calc_key", lc, mathtls.calc_key, ver, B(ms),
                       sid, b"key expansion", client_random=B(cr),
                       server_random=B(sr), output_length=n)
        if ok:
            same(ctx, fam, "calc_key", lc, "key_expansion", got, want, wit)
    # Finished
    for who in ("client", "server"):
        label = who.encode() + b" finished"
        want = kdf.finished(ver, ph, ms, who, tr)
        lc = base + "/" + who + " finished"
        ok, got = call(ctx, "calc_key", lc, mathtls.calc_key, ver, B(ms),
                       sid, label, handshake_hashes=hh, output_length=12)
        if ok:
            same(ctx, fam, "calc_key", lc, "finished", got, want, wit)
        ok, got = call(ctx, "calcFinished", lc, mathtls.calcFinished, ver,
                       B(ms), sid, hh, who == "client")
        if ok:
            same(ctx, fam, "calcFinished", lc, "finished", got, want, wit)
    # the running hashes must be untouched by the calculations above
    ok, got = call(ctx, "HandshakeHashes.digest", base, hh.digest, "sha256")
    if ok:
        same(ctx, fam, "HandshakeHashes.digest", base,
             "transcript_hash_after_use", got, hashlib.sha256(tr).digest(),
             wit, "after-use")


def run_exporter(ctx, P):
    from tlslite.tlsconnection import TLSConnection
    from tlslite.session import Session
    rng = ctx.rng
    ver, sid = tuple(P["ver"]), P["sid"]
    su = TABLE[sid]
    fam = "exporter"
    ms = rb(rng, 48)
    ems = rb(rng, kdf.dlen(su.prf))
    cr, sr = rb(rng, 32), rb(rng, 32)
    conn = TLSConnection(_Sock())
    conn.version = ver
    conn.session = Session()
    conn.session.masterSecret = B(ms)
    conn.session.exporterMasterSecret = B(ems)
    conn.session.cipherSuite = sid
    conn._clientRandom = B(cr)
    conn._serverRandom = B(sr)
    for label in (b"EXPORTER-vt", b"EXPORTER_" + b"x" * 200, b"E"):
        for n in (0, 1, 20, 32, 48, 49, 200):
            lc = "%s/prf=%s/label=%d/out=%d" % (VN[ver], su.prf, len(label),
                                                n)
            if ver == (3, 4):
                want = kdf.tls13_exporter(su.prf, ems, label, b"", n)
            else:
                want = kdf.exporter(ver, su.prf, ms, label, cr, sr, n)
            ok, got = call(ctx, "keyingMaterialExporter", lc,
                           conn.keyingMaterialExporter, B(label), n)
            if ok:
                same(ctx, fam, "keyingMaterialExporter", lc, "exporter", got,
                     want, {"suite": su.name, "ms": ms, "ems": ems, "cr": cr,
                            "sr": sr, "label": label})


# ================================================================== HKDF ===

HKDF_HASHES = ["sha256", "sha384", "sha1", "sha512"]


def run_hkdf(ctx, P):
    rng = ctx.rng
    hname, sub = P["hash"], P["sub"]
    fam = "hkdf"
    d = kdf.dlen(hname)
    if sub == "extract":
        for slen in (0, 1, d, d + 1, 200):
            for ilen in (0, 1, d, 66, 300):
                salt = rb(rng, slen) if slen else bytes(d)
                ikm = rb(rng, ilen)
                lc = "%s/extract/salt=%d/ikm=%d" % (hname, slen, ilen)
                want = kdf.hkdf_extract(hname, salt, ikm)
                ok, got = call(ctx, "secureHMAC", lc, cryptomath.secureHMAC,
                               B(salt), B(ikm), hname)
                if ok:
                    same(ctx, fam, "secureHMAC", lc, "hkdf_extract", got,
                         want, {"salt": salt, "ikm": ikm})
                if ilen == 66 and slen:
                    o = refcall(ctx, fam, ossl.hkdf_extract, hname, salt,
                                ikm, d)
                    if o is not None:
                        refagree(ctx, "HKDF-Extract vs openssl", want, o)
                        ctx.count("refaudit_hkdf")
        return
    if sub == "expand":
        prk = rb(rng, P.get("prk", d))
        info = rb(rng, P["info"])
        lens = [0, 1, d - 1, d, d + 1, 2 * d, 3 * d + 5, 254 * d,
                254 * d + 1, 255 * d - 1, 255 * d]
        for n in lens:
            lc = "%s/expand/info=%d/out=%s" % (
                hname, len(info), n if n <= 3 * d + 5 else
                {254 * d: "254d", 254 * d + 1: "254d<L<=255d",
                 255 * d - 1: "254d<L<=255d", 255 * d: "254d<L<=255d"}[n])
            want = kdf.hkdf_expand(hname, prk, info, n)
            ctx.ev()
            ctx.count("cmp:" + fam)
            ctx.cell("cell", "HKDF_expand|%s|one-shot" % lc)
            try:
                got = cryptomath.HKDF_expand(B(prk), B(info), n, hname)
            except Exception as e:   # noqa
                viol(ctx, "raises_inside_rfc5869_domain", "HKDF_expand",
                     "254d<L<=255d" if n > 254 * d else "L<=254d",
                     {"hash": hname, "prk": prk, "info": info, "L": n,
                      "exc": repr(e), "want_prefix": want[:32]},
                     "HKDF_expand(L=%d, %s) raised %r although RFC 5869 "
                     "defines the output for L <= 255*HashLen = %d" % (
                         n, hname, e, 255 * d), exc=type(e).__name__)
                continue
            if bytes(got) != want:
                viol(ctx, "hkdf_expand", "HKDF_expand", lc,
                     {"hash": hname, "prk": prk, "info": info, "L": n,
                      "got": bytes(got)[:256], "want": want[:256]},
                     "HKDF_expand output differs from RFC 5869")
        for n in (255 * d + 1, 256 * d):
            try:
                r = cryptomath.HKDF_expand(B(prk), B(info), n, hname)
                ctx.count("hkdf_over_ceiling:returned_%d_of_L" % (
                    len(r) == n))
            except Exception as e:   # noqa
                ctx.count("hkdf_over_ceiling:raised_" + type(e).__name__)
        n = rng.choice((d, 3 * d + 5, 254 * d))
        o = refcall(ctx, fam, ossl.hkdf_expand, hname, prk, info, n)
        if o is not None:
            refagree(ctx, "HKDF-Expand vs openssl",
                     kdf.hkdf_expand(hname, prk, info, n), o)
            ctx.count("refaudit_hkdf")
        return
    if sub == "label":
        secret = rb(rng, d)
        for llen in (0, 1, 2, 12, 249):
            for clen in (0, 1, d, 255):
                label, hv = rb(rng, llen), rb(rng, clen)
                for n in (0, 1, 12, d - 1, d, d + 1, 3 * d + 5, 254 * d):
                    lc = "%s/label=%d/ctx=%d/out=%d" % (hname, llen, clen, n)
                    want = kdf.hkdf_expand_label(hname, secret, label, hv, n)
                    ok, got = call(ctx, "HKDF_expand_label", lc,
                                   cryptomath.HKDF_expand_label, B(secret),
                                   B(label), B(hv), n, hname)
                    if ok:
                        same(ctx, fam, "HKDF_expand_label", lc,
                             "hkdf_expand_label", got, want,
                             {"secret": secret, "label": label, "ctx": hv,
                              "L": n})
        # out-of-range HkdfLabel fields: undefined by RFC 8446, record only
        for what, args in (("label250", (rb(rng, 250), b"", d)),
                           ("ctx256", (b"k", rb(rng, 256), d)),
                           ("L65536", (b"k", b"", 65536))):
            try:
                cryptomath.HKDF_expand_label(B(secret), B(args[0]),
                                             B(args[1]), args[2], hname)
                ctx.count("hkdf_label_out_of_range:%s:returned" % what)
            except Exception as e:   # noqa
                ctx.count("hkdf_label_out_of_range:%s:raised_%s" % (
                    what, type(e).__name__))
        return
    # derive_secret
    secret = rb(rng, d)
    for tlen in (None, 0, 1, 500, 5000):
        for label in (b"derived", b"c hs traffic", b"", b"x" * 249):
            tr = b"" if tlen is None else rb(rng, tlen)
            hh = None if tlen is None else _hh(rng, tr)
            lc = "%s/derive/label=%d/transcript=%s" % (hname, len(label),
                                                       tlen)
            want = kdf.derive_secret(hname, secret, label, tr)
            ok, got = call(ctx, "derive_secret", lc, cryptomath.derive_secret,
                           B(secret), B(label), hh, hname)
            if ok:
                same(ctx, fam, "derive_secret", lc, "derive_secret", got,
                     want, {"secret": secret, "label": label,
                            "transcript": tr[:300]})


# ======================================================= SSLv3 MAC / hashes =

def run_ssl3(ctx, P):
    rng = ctx.rng
    fam = "ssl3"
    sub = P["sub"]
    if sub == "mac":
        hname = P["hash"]
        for klen in (0, 1, 16, 20, 48, 100):
            for mlen in (0, 1, 13, 64, 300, 16384 + 13):
                key, msg = rb(rng, klen), rb(rng, mlen)
                lc = "%s/key=%d/n=%d" % (hname, klen, mlen)
                want = kdf.ssl3_mac_raw(hname, key, msg)
                cut = rng.randrange(0, mlen + 1)

                def run():
                    # digestmod the way recordlayer._getMacSettings passes it
                    m = mathtls.createMAC_SSL(bytes(key), digestmod=getattr(
                        tlshashlib, hname))
                    m.update(bytes(msg[:cut]))
                    m2 = m.copy()
                    m.update(b"must not leak into the copy")
                    m2.update(bytes(msg[cut:]))
                    first = m2.digest()
                    return first if bytes(m2.digest()) == bytes(first) \
                        else b"digest() not repeatable"
                ok, got = call(ctx, "MAC_SSL", lc, run)
                if ok:
                    same(ctx, fam, "MAC_SSL", lc, "ssl3_mac", got, want,
                         {"key": key, "msg": msg[:256]})
                if hname == "md5" and mlen == 13 and klen == 16:
                    # observation only: MAC_SSL recognises MD5 by identity
                    # with tlshashlib.md5; the stdlib constructor is treated
                    # as a 20-byte hash (40 pad bytes)
                    try:
                        m = mathtls.createMAC_SSL(bytes(key),
                                                  digestmod=hashlib.md5)
                        m.update(bytes(msg))
                        ctx.count("mac_ssl_stdlib_md5_digestmod:%s" % (
                            "standard" if bytes(m.digest()) ==
                            kdf.ssl3_mac_raw("md5", key, msg)
                            else "nonstandard_pad_count"))
                    except Exception as e:   # noqa
                        ctx.count("mac_ssl_stdlib_md5_digestmod:raised")
                # the record MAC input layout of RFC 6101 5.2.3.1
                if mlen < 16384:
                    seq = rng.randrange(0, 1 << 64)
                    want = kdf.ssl3_record_mac(hname, key, seq, 23, msg)

                    def rec():
                        rl = RecordLayer(_Sock())
                        rl.version = (3, 0)
                        m = mathtls.createMAC_SSL(bytes(key), digestmod=getattr(
                            tlshashlib, hname))
                        return rl.calculateMAC(m, B(seq.to_bytes(8, "big")),
                                               23, B(msg))
                    ok, got = call(ctx, "calculateMAC(ssl3)", lc, rec)
                    if ok:
                        same(ctx, fam, "calculateMAC(ssl3)", lc,
                             "ssl3_record_mac", got, want,
                             {"key": key, "seq": seq, "msg": msg[:256]})
        return
    if sub == "digest":
        for tlen in (0, 1, 63, 64, 65, 1000, 20000):
            for mlen in (48, 0, 1):
                for sender in (b"CLNT", b"SRVR", b""):
                    tr, ms = rb(rng, tlen), rb(rng, mlen)
                    hh = _hh(rng, tr)
                    lc = "transcript=%d/master=%d/sender=%s" % (
                        tlen, mlen, sender.decode() or "none")
                    want = kdf.ssl3_handshake_digest(ms, sender, tr)
                    ok, got = call(ctx, "digestSSL", lc, hh.digestSSL, B(ms),
                                   B(sender))
                    if ok:
                        same(ctx, fam, "digestSSL", lc, "ssl3_handshake_hash",
                             got, want, {"master": ms, "transcript": tr[:256]})
                    # and the object must still produce the plain digests
                    ok, got = call(ctx, "HandshakeHashes.digest", lc,
                                   hh.digest)
                    if ok:
                        same(ctx, fam, "HandshakeHashes.digest", lc,
                             "md5_sha1_digest", got,
                             hashlib.md5(tr).digest() +
                             hashlib.sha1(tr).digest(), None, "after-use")
        return
    # HandshakeHashes.digest(name) and copy()
    for tlen in (0, 1, 55, 56, 64, 119, 128, 1000, 70000):
        tr = rb(rng, tlen)
        hh = _hh(rng, tr)
        extra = rb(rng, 33)
        cp = hh.copy()
        hh.update(B(extra))
        for name in ("md5", "sha1", "sha224", "sha256", "sha384", "sha512"):
            lc = "%s/n=%d" % (name, tlen)
            ok, got = call(ctx, "HandshakeHashes.digest", lc, cp.digest,
                           name)
            if ok:
                same(ctx, fam, "HandshakeHashes.digest", lc,
                     "transcript_hash_copy", got,
                     hashlib.new(name, tr).digest(), None, "copy")
            ok, got = call(ctx, "HandshakeHashes.digest", lc, hh.digest,
                           name)
            if ok:
                same(ctx, fam, "HandshakeHashes.digest", lc,
                     "transcript_hash", got,
                     hashlib.new(name, tr + extra).digest())
            ok, got = call(ctx, "secureHash", lc, cryptomath.secureHash,
                           B(tr), name)
            if ok:
                same(ctx, fam, "secureHash", lc, "hash", got,
                     hashlib.new(name, tr).digest())


# ========================================================== record layer ===

class _Sock(object):
    """in-memory socket object: everything sent is kept in .out, recv()
    serves .inn"""

    def __init__(self):
        self.out = bytearray()
        self.inn = bytearray()

    def send(self, data):
        self.out += data
        return len(data)

    def sendall(self, data):
        self.out += data

    def recv(self, n):
        d = bytes(self.inn[:n])
        del self.inn[:n]
        return d

    def close(self):
        pass


def _wire_records(buf):
    out = []
    p = 0
    buf = bytes(buf)
    while p + 5 <= len(buf):
        ln = int.from_bytes(buf[p + 3:p + 5], "big")
        out.append((buf[p], (buf[p + 1], buf[p + 2]), buf[p + 5:p + 5 + ln]))
        p += 5 + ln
    return out if p == len(buf) else None


MACHASH = {"md5": "md5", "sha": "sha1", "sha256": "sha256",
           "sha384": "sha384"}


class RefDir(object):
    """reference protection of one direction of a <= TLS 1.2 connection from
    independently derived keys"""

    def __init__(self, ctx, su, ver, mackey, key, iv, etm):
        self.ctx, self.su, self.ver = ctx, su, ver
        self.mackey, self.key, self.iv = mackey, key, iv
        self.etm = etm and su.cipher_kind == "cbc"
        self.seq = 0
        self.chain = iv            # CBC residue (SSLv3/TLS 1.0)
        self.stream = b""          # RC4: plaintext so far
        k = su.cipher_kind
        self.aead = None
        if k == "gcm":
            self.aead = sym.GCM(key)
        elif k == "ccm":
            self.aead = sym.CCM(key, su.taglen)
        elif k in ("chacha", "chacha_draft"):
            self.aead = sym.ChaCha20Poly1305(key)

    def mac(self, ctype, content):
        h = MACHASH[self.su.mac]
        if self.ver == (3, 0):
            return kdf.ssl3_record_mac(h, self.mackey, self.seq, ctype,
                                       content)
        return kdf.tls_record_mac(h, self.mackey, self.seq, ctype,
                                  bytes(self.ver), content)

    def _cbc(self, iv, data, decrypt=False):
        if self.su.cipher == "3des":
            return ossl.des3_cbc(self.key, iv, data, decrypt)
        return ossl.aes_cbc(self.key, iv, data, decrypt)

    def _pad(self, n, padlen):
        return bytes([padlen]) * (padlen + 1)

    def protect(self, ctype, data, iv=None, padlen=None, explicit=None):
        """-> fragment bytes as they must appear on the wire"""
        su, ver = self.su, self.ver
        data = bytes(data)
        k = su.cipher_kind
        if su.aead:
            seqb = self.seq.to_bytes(8, "big")
            aad = seqb + bytes([ctype]) + bytes(ver) + \
                len(data).to_bytes(2, "big")
            if k in ("gcm", "ccm"):
                explicit = seqb if explicit is None else explicit
                out = explicit + self.aead.seal(self.iv + explicit, data, aad)
            elif k == "chacha":
                nonce = bytes(a ^ b for a, b in zip(bytes(4) + seqb, self.iv))
                out = self.aead.seal(nonce, data, aad)
            else:
                out = self.aead.seal(self.iv + seqb, data, aad)
            self.seq += 1
            return out
        bs = su.block
        if k == "cbc" and self.etm:
            body = data
            padlen = (bs - 1 - len(body) % bs) if padlen is None else padlen
            body += self._pad(len(body), padlen)
            if ver >= (3, 2):
                enc = iv + self._cbc(iv, body)
            else:
                enc = self._cbc(self.chain, body)
                self.chain = enc[-bs:]
            out = enc + self.mac(ctype, enc)
            self.seq += 1
            return out
        body = data + self.mac(ctype, data)
        self.seq += 1
        if k == "null":
            return body
        if k == "stream":
            self.stream += body
            return ossl.rc4(self.key, self.stream)[-len(body):] if body \
                else b""
        padlen = (bs - 1 - len(body) % bs) if padlen is None else padlen
        body += self._pad(len(body), padlen)
        if ver >= (3, 2):
            return iv + self._cbc(iv, body)
        enc = self._cbc(self.chain, body)
        self.chain = enc[-bs:]
        return enc

    def observed_cbc_params(self, frag, dlen):
        """IV (TLS 1.1+) and padding length chosen by the sender; the padding
        length is recovered with the reference cipher and is then validated
        implicitly by reproducing the whole fragment"""
        bs = self.su.block
        frag = bytes(frag)
        iv = frag[:bs] if self.ver >= (3, 2) else None
        enc = frag[:-self.su.maclen] if self.etm else frag
        if len(enc) < bs or len(enc) % bs:
            return iv, None
        prev = enc[-2 * bs:-bs] if len(enc) >= 2 * bs else self.chain
        last = self._cbc(prev, enc[-bs:], True)
        return iv, last[-1]


def _ivlen(su, ver):
    return {"cbc": su.block, "gcm": 4, "ccm": 4, "chacha": 12,
            "chacha_draft": 4}.get(su.cipher_kind, 0)


REC_SIZES = [0, 1, 15, 16, 17, 31, 32, 100, 255, 256, 1000]


def run_record(ctx, P):
    rng = ctx.rng
    ver, sid, role, etm = tuple(P["ver"]), P["sid"], P["role"], P["etm"]
    su = TABLE[sid]
    fam = "record"
    prim = "record/" + su.cipher_kind
    lc = "%s/%s/%s%s" % (VN[ver], su.cipher + "-" + su.mac, role,
                         "/etm" if etm else "")
    need = {"stream": "rc4", "cbc": "des3" if su.cipher == "3des" else "aes"}
    why = ossl.probe(need.get(su.cipher_kind, "aes"))
    if why:
        ctx.inconc("record/%s: reference unavailable: %s" % (su.cipher,
                                                             why[:160]))
        return
    master, cr, sr = rb(rng, 48), rb(rng, 32), rb(rng, 32)
    ivl = _ivlen(su, ver)
    kb = kdf.key_block(ver, su.prf, master, cr, sr,
                       2 * (su.maclen + su.keylen + ivl))
    ks = kdf.split_key_block(kb, su.maclen, su.keylen, ivl)
    mine, peer = ("c", "s") if role == "client" else ("s", "c")
    wdir = RefDir(ctx, su, ver, ks[mine + "mac"], ks[mine + "key"],
                  ks[mine + "iv"], etm)
    rdir = RefDir(ctx, su, ver, ks[peer + "mac"], ks[peer + "key"],
                  ks[peer + "iv"], etm)
    wit = {"suite": su.name, "ver": list(ver), "role": role, "etm": etm,
           "master": master, "cr": cr, "sr": sr}
    sock = _Sock()

    def setup():
        rl = RecordLayer(sock)
        rl.client = role == "client"
        rl.version = ver
        if etm:
            rl.encryptThenMAC = True
        rl.calcPendingStates(sid, B(master), B(cr), B(sr), PY)
        rl.changeWriteState()
        rl.changeReadState()
        return rl
    try:
        rl = setup()
    except AssertionError:
        # the library's suite classification lists do not know this suite
        # (_getMacSettings/_getCipherSettings): C20's subject, not a key
        # derivation result
        ctx.count("record_suite_not_classified_by_library")
        ctx.note("record layer refuses suite %s (unclassified; see C20)" %
                 su.name)
        return
    except Exception:   # noqa
        ok, rl = call(ctx, "calcPendingStates", lc, setup)
        if not ok:
            return
    ctx.cell("record_suite", "%s/%s" % (VN[ver], su.name))
    big = su.cipher != "3des" and rng.random() < 0.15
    sizes = [rng.choice(REC_SIZES) for _ in range(3)] + \
        ([16384] if big else [])
    # ---- write direction: tlslite's wire bytes vs reference ciphertext
    for i, n in enumerate(sizes):
        data = rb(rng, n)
        ctype = rng.choice((23, 22, 21)) if n else 23
        del sock.out[:]

        def send():
            for _ in rl.sendRecord(Message(ctype, B(data))):
                pass
        ok, _ = call(ctx, "sendRecord", lc, send)
        if not ok:
            return
        recs = _wire_records(sock.out)
        w = dict(wit)
        w.update({"record_index": i, "plaintext": data[:300], "ctype": ctype,
                  "wire": bytes(sock.out)[:600]})
        ctx.ev()
        ctx.count("cmp:" + fam)
        if not recs or len(recs) != 1 or recs[0][0] != ctype or \
                recs[0][1] != ver:
            viol(ctx, "record_header", prim, lc, w,
                 "record header is not (type, version, length) of one record")
            return
        frag = recs[0][2]
        kw = {}
        if su.cipher_kind == "cbc":
            iv, padlen = wdir.observed_cbc_params(frag, n)
            inner = n + (0 if etm else su.maclen)
            if padlen is None or (ver == (3, 0) and padlen >= su.block) or \
                    (inner + padlen + 1) % su.block or \
                    inner + padlen + 1 + (su.block if ver >= (3, 2) else 0) \
                    != len(frag) - (su.maclen if etm else 0):
                # (also what a record protected under other keys than the
                # prescribed ones looks like to the reference)
                viol(ctx, "record_cbc_structure", prim, lc, w,
                     "CBC fragment length/padding invalid")
                return
            kw = {"iv": iv, "padlen": padlen}
        elif su.cipher_kind in ("gcm", "ccm"):
            kw = {"explicit": frag[:8]}
        want = wdir.protect(ctype, data, **kw)
        same(ctx, fam, prim, lc, "record_ciphertext", frag, want, w,
             "write#%d" % min(i, 2))
    # ---- read direction: reference ciphertext from the peer's keys
    for i, n in enumerate(sizes[:3]):
        data = rb(rng, n)
        ctype = 23
        kw = {}
        if su.cipher_kind == "cbc" and ver >= (3, 2):
            kw["iv"] = rb(rng, su.block)
        if su.cipher_kind in ("gcm", "ccm"):
            kw["explicit"] = rb(rng, 8)
        frag = rdir.protect(ctype, data, **kw)
        sock.inn += bytes([ctype]) + bytes(ver) + \
            len(frag).to_bytes(2, "big") + frag

        def recv():
            for r in rl.recvRecord():
                if r in (0, 1):
                    raise RuntimeError("record layer would block")
                return r
        ok, r = call(ctx, "recvRecord", lc, recv)
        if not ok:
            return
        w = dict(wit)
        w.update({"record_index": i, "plaintext": data[:300],
                  "fragment": frag[:600]})
        hdr, parser = r
        same(ctx, fam, prim, lc, "record_decrypt_reference_ciphertext",
             parser.bytes, data, w, "read#%d" % i)
    for d in (wdir, rdir):
        if d.aead is not None and hasattr(d.aead, "aes"):
            audit_aes(ctx, d.aead.aes, fam)


class Ref13(object):
    def __init__(self, su, secret):
        self.su = su
        self.rekey(secret)

    def rekey(self, secret):
        su = self.su
        self.secret = secret
        self.key, self.iv = kdf.tls13_traffic_keys(su.prf, secret, su.keylen)
        self.seq = 0
        k = su.cipher_kind
        self.aead = sym.GCM(self.key) if k == "gcm" else \
            sym.CCM(self.key, su.taglen) if k == "ccm" else \
            sym.ChaCha20Poly1305(self.key)

    def protect(self, ctype, data, pad=0):
        inner = bytes(data) + bytes([ctype]) + bytes(pad)
        ln = len(inner) + self.su.taglen
        hdr = b"\x17\x03\x03" + ln.to_bytes(2, "big")
        nonce = bytes(a ^ b for a, b in zip(
            bytes(4) + self.seq.to_bytes(8, "big"), self.iv))
        self.seq += 1
        return hdr + self.aead.seal(nonce, inner, hdr)


def run_record13(ctx, P):
    rng = ctx.rng
    sid, role = P["sid"], P["role"]
    su = TABLE[sid]
    fam = "record13"
    prim = "record13/" + su.cipher_kind
    lc = "tls13/%s/%s" % (su.cipher, role)
    d = kdf.dlen(su.prf)
    cl, sr = rb(rng, d), rb(rng, d)
    wit = {"suite": su.name, "role": role, "cl_secret": cl, "sr_secret": sr}
    sock = _Sock()

    def setup():
        rl = RecordLayer(sock)
        rl.client = role == "client"
        rl.version = (3, 4)
        rl.tls13record = True
        rl.calcTLS1_3PendingState(sid, B(cl), B(sr), PY)
        rl.changeWriteState()
        rl.changeReadState()
        return rl
    ok, rl = call(ctx, "calcTLS1_3PendingState", lc, setup)
    if not ok:
        return
    ctx.cell("record_suite", "tls13/" + su.name)
    mine, peer = (cl, sr) if role == "client" else (sr, cl)
    wref, rref = Ref13(su, mine), Ref13(su, peer)

    def write_phase(tag):
        for i in range(2):
            n = rng.choice(REC_SIZES + [16384] * (i == 1 and
                                                  rng.random() < 0.2))
            data = rb(rng, n)
            ctype = rng.choice((23, 22, 21))
            del sock.out[:]

            def send():
                for _ in rl.sendRecord(Message(ctype, B(data))):
                    pass
            ok, _ = call(ctx, "sendRecord", lc, send)
            if not ok:
                return False
            w = dict(wit)
            w.update({"phase": tag, "plaintext": data[:300],
                      "wire": bytes(sock.out)[:600]})
            want = wref.protect(ctype, data)
            same(ctx, fam, prim, lc, "record_ciphertext", sock.out, want, w,
                 "%s/write#%d" % (tag, i))
        return True

    def read_phase(tag):
        for i in range(2):
            n = rng.choice(REC_SIZES)
            data = rb(rng, n)
            ctype = rng.choice((23, 22))
            pad = rng.choice((0, 0, 1, 17))
            sock.inn += rref.protect(ctype, data, pad)

            def recv():
                for r in rl.recvRecord():
                    if r in (0, 1):
                        raise RuntimeError("record layer would block")
                    return r
            ok, r = call(ctx, "recvRecord", lc, recv)
            if not ok:
                return False
            hdr, parser = r
            w = dict(wit)
            w.update({"phase": tag, "plaintext": data[:300]})
            same(ctx, fam, prim, lc, "record_decrypt_reference_ciphertext",
                 bytes(parser.bytes) + bytes([hdr.type]),
                 data + bytes([ctype]), w, "%s/read#%d" % (tag, i))
        return True
    if not (write_phase("initial") and read_phase("initial")):
        return
    # KeyUpdate: "reciever" re-keys our write side, "sender" our read side
    cur_cl, cur_sr = cl, sr
    for rnd in range(2):
        ok, r = call(ctx, "calcTLS1_3KeyUpdate_reciever", lc,
                     rl.calcTLS1_3KeyUpdate_reciever, sid, B(cur_cl),
                     B(cur_sr))
        if not ok:
            return
        nxt = kdf.tls13_next_secret(su.prf, wref.secret)
        exp = (nxt, cur_sr) if role == "client" else (cur_cl, nxt)
        same(ctx, fam, "calcTLS1_3KeyUpdate", lc, "next_traffic_secret",
             bytes(r[0]) + bytes(r[1]), exp[0] + exp[1], wit, "ku-write")
        cur_cl, cur_sr = exp
        wref.rekey(nxt)
        if not write_phase("keyupdate%d" % rnd):
            return
        ok, r = call(ctx, "calcTLS1_3KeyUpdate_sender", lc,
                     rl.calcTLS1_3KeyUpdate_sender, sid, B(cur_cl),
                     B(cur_sr))
        if not ok:
            return
        nxt = kdf.tls13_next_secret(su.prf, rref.secret)
        exp = (cur_cl, nxt) if role == "client" else (nxt, cur_sr)
        same(ctx, fam, "calcTLS1_3KeyUpdate", lc, "next_traffic_secret",
             bytes(r[0]) + bytes(r[1]), exp[0] + exp[1], wit, "ku-read")
        cur_cl, cur_sr = exp
        rref.rekey(nxt)
        if not read_phase("keyupdate%d" % rnd):
            return
    for rf in (wref, rref):
        if hasattr(rf.aead, "aes"):
            audit_aes(ctx, rf.aead.aes, fam)


# ============================================== live TLS 1.3 key schedule ===

def run_ks13(ctx, P):
    """every Derive-Secret call of a live TLS 1.3 handshake uses the
    transcript RFC 8446 7.1 prescribes for its label.  The transcript is
    taken from what the two endpoints handed to their send functions (not
    from the library's running hash); the library's derive_secret is
    wrapped and each call's Transcript-Hash argument is located among the
    digests of the prefixes of that independent transcript"""
    import hashlib
    from vt import flavours, pair as _pair
    import tlslite.tlsconnection as TC
    import tlslite.handshakehelpers as HH
    sc = flavours.BY_NAME[P["sc"]]
    label = "%s/C09/ks13/%s" % (P.get("rep", 0), sc.name)
    boot.install_vclock(1_800_000_000.0)
    boot.drbg.reseed(label + "/prep")
    st = sc.prepare()
    boot.vclock.advance(5.0)
    boot.drbg.reseed(label + "/main")
    p = _pair.Pair()
    fl = sc.flavor(st)
    msgs = []                      # (side, hs type, bytes) in send order

    def tap(conn, side):
        osend, oqueue = conn._sendMsg, conn._queue_message

        def note(msg):
            if getattr(msg, "contentType", None) == 22:
                raw = bytes(msg.write())
                if raw:
                    msgs.append((side, raw[0], raw))

        def _sendMsg(msg, randomizeFirstBlock=True, update_hashes=True):
            if update_hashes:
                note(msg)
            return osend(msg, randomizeFirstBlock, update_hashes)

        def _queue_message(msg):
            note(msg)
            return oqueue(msg)
        conn._sendMsg = _sendMsg
        conn._queue_message = _queue_message
    tap(p.c, "c")
    tap(p.s, "s")
    calls = []
    real = TC.derive_secret

    def derive_secret(secret, label_, handshake_hashes, algorithm):
        out = real(secret, label_, handshake_hashes, algorithm)
        try:
            d = None if handshake_hashes is None else \
                bytes(handshake_hashes.digest(algorithm))
            calls.append((bytes(label_), algorithm, d, bytes(secret),
                          bytes(out)))
        except Exception as e:   # noqa
            calls.append(("monitor_error", repr(e)))
        return out
    TC.derive_secret = derive_secret
    try:
        tc, ts = p.handshake(fl)
    finally:
        TC.derive_secret = real
    lc = sc.name
    if tc.status != "done" or ts.status != "done":
        ctx.inconc("ks13: honest %s handshake failed: %r %r" % (
            sc.name, tc.exc, ts.exc))
        return
    if any(t == 2 and raw[6:38] == bytes.fromhex(
            "cf21ad74e59a6111be1d8c021e65b891c2a211167abb8c5e079e09e2c8a8339c")
           for _, t, raw in msgs):
        ctx.count("ks13_hrr_skipped")     # synthetic message_hash transcript
        return
    # position of the landmarks in the independent transcript
    def upto(pred):
        for i, m in enumerate(msgs):
            if pred(m):
                return i + 1
        return None
    marks = {
        "CH": upto(lambda m: m[0] == "c" and m[1] == 1),
        "SH": upto(lambda m: m[0] == "s" and m[1] == 2),
        "SF": upto(lambda m: m[0] == "s" and m[1] == 20),
        "CF": upto(lambda m: m[0] == "c" and m[1] == 20),
    }
    want = {b"c hs traffic": "SH", b"s hs traffic": "SH",
            b"c ap traffic": "SF", b"s ap traffic": "SF",
            b"exp master": "SF", b"res master": "CF",
            b"c e traffic": "CH", b"e exp master": "CH"}
    names = {v: k for k, v in marks.items() if v}
    for ent in calls:
        if ent[0] == "monitor_error":
            ctx.inconc("ks13 monitor: %s" % ent[1])
            continue
        lab, alg, d, secret, out = ent
        if lab not in want or d is None:
            continue
        pos = None
        for k in range(len(msgs) + 1):
            if hashlib.new(alg, b"".join(m[2] for m in msgs[:k])
                           ).digest() == d:
                pos = k
                break
        exp = marks[want[lab]]
        ctx.ev()
        ctx.count("cmp:ks13")
        ctx.cell("cell", "derive_secret|%s|%s" % (lab.decode(), lc))
        if pos != exp:
            last = None if not pos else "%s:%d" % (msgs[pos - 1][0],
                                                   msgs[pos - 1][1])
            viol(ctx, "key_schedule_transcript", "derive_secret",
                 lab.decode(),
                 {"scenario": sc.name, "label": lab,
                  "transcript_ends_after": last if pos is not None else
                  "(not a prefix of what was sent)",
                  "expected_end": want[lab],
                  "messages": ["%s:%d" % (a, b) for a, b, _ in msgs]},
                 "Derive-Secret(., %r, .) used the transcript up to %s; "
                 "RFC 8446 7.1 prescribes ClientHello..%s" % (
                     lab.decode(), last, want[lab]))
        else:
            # and the value is Derive-Secret of exactly that transcript
            ref = kdf.derive_secret(alg, secret, lab,
                                    b"".join(m[2] for m in msgs[:exp]))
            same(ctx, "ks13", "derive_secret", lab.decode(),
                 "derive_secret_value", out, ref, None, lc)


def run_exp12(ctx, P):
    """RFC 5705 exporters of live SSLv3-TLS 1.2 connections, first a full
    handshake and then a resumed one: both ends against the reference PRF
    fed with the master secret and the hello randoms read off the wire"""
    from vt import pair as _pair, wire as _wire, drive as _drive, suites
    from vt.pair import Flavor, ver_settings
    from tlslite.sessioncache import SessionCache
    from vt.flavours import TK, pump
    ver = tuple(P["ver"])
    mech = P["mech"]
    label = "C09/exp12/%s/%s/%d" % (_pair.VNAME[ver], mech, P.get("rep", 0))
    boot.install_vclock(1_800_000_000.0)
    boot.drbg.reseed(label)
    cache = SessionCache() if mech == "id" else None
    skw = {} if mech == "id" else {"ticketKeys": TK}
    ckw = {"cipherNames": [P["cipher"]]}
    sess = None
    for phase in ("full", "resumed"):
        fl = Flavor("cert", skey="rsa", cset=ver_settings(ver, **ckw),
                    sset=ver_settings(ver, **skw), session_cache=cache,
                    session=sess)
        p = _pair.Pair()
        tc, ts = p.handshake(fl)
        lc = "%s/%s/%s" % (_pair.VNAME[ver], mech, phase)
        if tc.status != "done" or ts.status != "done":
            ctx.inconc("exp12: honest %s handshake failed: %r %r" % (
                lc, tc.exc, ts.exc))
            return
        if phase == "resumed" and not (p.c.resumed and p.s.resumed):
            ctx.count("exp12_not_resumed")
            return
        ch = _wire.plain_handshake(p.link.records, "c2s")[0][1]
        sh = [b for t, b in _wire.plain_handshake(p.link.records, "s2c")
              if t == 2][0]
        cr, sr = bytes(ch[2:34]), bytes(sh[2:34])
        su = suites.TABLE[p.c.session.cipherSuite]
        master = bytes(p.c.session.masterSecret)
        for lab, n in ((b"EXPORTER-vt-live", 32), (b"EXPORTER: two", 77)):
            want = kdf.exporter(ver, su.prf, master, lab, cr, sr, n)
            for who, conn in (("client", p.c), ("server", p.s)):
                ok, got = call(ctx, "keyingMaterialExporter", lc,
                               conn.keyingMaterialExporter, B(lab), n)
                if ok:
                    same(ctx, "exp12", "keyingMaterialExporter", lc,
                         "exporter_live", got, want,
                         {"who": who, "label": lab}, who)
        if phase == "full":
            try:
                pump(p, p.c, p.csock)
            except Exception:   # noqa
                pass
            _drive.run([_drive.Task("cc", _drive.aclose(p.c), p.csock),
                        _drive.Task("sc", _drive.aclose(p.s), p.ssock)],
                       p.link)
            sess = p.c.session


# ================================================================= cases ===

RUNNERS = {
    "aes_block": run_aes_block, "aes_cbc": run_aes_cbc,
    "aes_ctr": run_aes_ctr, "des3": run_des3, "rc4": run_rc4,
    "chacha20": run_chacha20, "poly1305": run_poly1305,
    "aead": run_aead, "aead_neg": run_aead_neg, "hmac": run_hmac,
    "prf": run_prf, "calc_key": run_calc_key, "exporter": run_exporter,
    "hkdf": run_hkdf, "ssl3": run_ssl3, "record": run_record,
    "record13": run_record13, "ks13": run_ks13, "exp12": run_exp12,
}


def make_cases(ctx):
    """deterministic (tier, seed) case list, shuffled so that every shard
    sees every family"""
    q = ctx.quick
    rng = ctx.case_rng("plan")
    reps = 3 if q else 10
    out = []

    def add(fam, cid, **p):
        p["fam"] = fam
        out.append(("%s:%s" % (fam, cid), p))
    for scn_ in ("tls13-rsa", "tls13-ecdsa", "tls13-clientauth",
                 "tls13-clientauth-ecdsa-nocert", "tls13-psk_dhe",
                 "tls13-psk_ke", "tls13-psk-sha384", "tls13-resume-ticket",
                 "tls13-alpn-tickets", "tls13-x448-ffdhe"):
        for rep in range(1 if q else 3):
            add("ks13", "%s#%d" % (scn_, rep), sc=scn_, rep=rep)
    for ver_ in ((3, 1), (3, 2), (3, 3)):
        for mech_ in ("id", "ticket"):
            for cipher_ in (("aes128", "aes256gcm") if ver_ == (3, 3)
                            else ("aes128",)):
                add("exp12", "%d-%s-%s" % (ver_[1], mech_, cipher_),
                    ver=ver_, mech=mech_, cipher=cipher_)
    for rep in range(reps):
        r = "" if rep == 0 else "#%d" % rep
        # --- AES block / CBC / CTR
        for kl in (16, 24, 32):
            for idx in range(4 if q else 6):
                add("aes_block", "k%d-%d%s" % (kl, idx, r), keylen=kl,
                    idx=idx if rep == 0 else 9)
            for n in CBC16_LENS:
                add("aes_cbc", "k%d-n%d%s" % (kl, n, r), keylen=kl, n=n)
            for n in BYTE_LENS:
                ivs = CTR_IVS if (not q or n in (0, 17, 33, 257, 4097)) \
                    else [rng.choice(CTR_IVS), rng.choice(CTR_IVS[1:5])]
                if n >= 16384 and q:
                    ivs = ivs[:1]
                for iv in sorted(set(ivs)):
                    add("aes_ctr", "k%d-%s-n%d%s" % (kl, iv, n, r),
                        keylen=kl, iv=iv, n=n, full=(not q and rep == 0))
        # --- 3DES / RC4
        for kl in (24, 16):
            for n in CBC8_LENS:
                add("des3", "k%d-n%d%s" % (kl, n, r), keylen=kl, n=n)
        for n in ((4096,) if q else (4088, 4096, 4104)):
            add("des3", "k24-n%d%s" % (n, r), keylen=24, n=n, dec=not q)
        if rep == 0:
            add("des3", "k24-n16384", keylen=24, n=16384, dec=not q)
            if not q:
                add("des3", "k16-n16384", keylen=16, n=16384, dec=False)
        for kl in (16,):
            for n in BYTE_LENS:
                add("rc4", "k%d-n%d%s" % (kl, n, r), keylen=kl, n=n,
                    full=(not q and rep < 2))
        # --- ChaCha20 / Poly1305
        for n in CHACHA_LENS:
            for ck in (("0", "1", "max", "rand") if not q or n in (
                    0, 1, 63, 64, 65, 257) else ("1", rng.choice(
                        ("0", "max", "rand")))):
                add("chacha20", "c%s-n%d%s" % (ck, n, r), ctr=ck, n=n,
                    nonce="ff" if (n % 3 == 0 and ck == "max") else "rand")
        for n in BYTE_LENS:
            for kk in POLY_KEYS:
                for mk_ in POLY_MSGS:
                    if q and kk != "rand" and mk_ != "rand" and \
                            n not in (0, 16, 17, 257):
                        continue
                    if n > 4097 and (kk, mk_) != ("rand", "rand"):
                        continue
                    add("poly1305", "%s-%s-n%d%s" % (kk, mk_, n, r), key=kk,
                        msg=mk_, n=n)
        # --- AEAD positive
        for alg, (kls, _f, _r, _t) in sorted(AEADS.items()):
            mlens = CHACHA_LENS if alg == "chachapoly" else BYTE_LENS
            for kl in kls:
                for m in mlens:
                    for a in (0, 13):
                        add("aead", "%s%d-m%d-a%d%s" % (alg, kl * 8, m, a, r),
                            alg=alg, keylen=kl, m=m, a=a,
                            nonce=rng.choice(NONCES))
                    add("aead", "%s%d-m%d-arand%s" % (alg, kl * 8, m, r),
                        alg=alg, keylen=kl, m=m,
                        a=rng.choice((1, 5, 16, 17, 31, 100)),
                        nonce=rng.choice(NONCES))
                for a in AAD_LENS:
                    for m in ((0, 1, 16, 33) if not q or a == 65280
                              else (rng.choice((0, 1)), rng.choice((16, 33)))):
                        add("aead", "%s%d-m%d-A%d%s" % (alg, kl * 8, m, a, r),
                            alg=alg, keylen=kl, m=m, a=a,
                            nonce=rng.choice(NONCES))
                if not q and rep < 2:
                    for a in AAD_LENS[3:]:
                        add("aead", "%s%d-m4097-A%d%s" % (alg, kl * 8, a, r),
                            alg=alg, keylen=kl, m=4097, a=a, nonce="rand")
                for nk in NONCES:
                    add("aead", "%s%d-nonce-%s%s" % (alg, kl * 8, nk, r),
                        alg=alg, keylen=kl, m=4096 + 33, a=13, nonce=nk)
                # --- AEAD negative
                for m in NEG_MLENS:
                    for a in NEG_ALENS:
                        if q and (m, a) not in ((0, 0), (1, 13), (16, 13),
                                                (17, 1), (33, 13), (15, 0)):
                            continue
                        add("aead_neg", "%s%d-m%d-a%d%s" % (alg, kl * 8, m, a,
                                                           r),
                            alg=alg, keylen=kl, m=m, a=a)
        # --- HMAC
        for hname in HMAC_HASHES:
            for kc in ("0", "1", "short", "block-1", "block", "block+1",
                       "long"):
                for n in (0, 1, 63, 64, 65, 200, 16384):
                    if q and n in (63, 65) and kc not in ("block", "long"):
                        continue
                    add("hmac", "%s-%s-n%d%s" % (hname, kc, n, r), hash=hname,
                        keyclass=kc, n=n, ossl=(n == 200))
        # --- PRFs
        for which in ("PRF", "PRF_1_2", "PRF_1_2_SHA384", "PRF_SSL"):
            for s in PRF_SECRETS:
                for lab in sorted(PRF_LABELS):
                    for sd in PRF_SEEDS:
                        if q and (s, lab, sd) != (48, "std", 64) and \
                                rng.random() < 0.6:
                            continue
                        add("prf", "%s-s%d-%s-d%d%s" % (which, s, lab, sd, r),
                            prf=which, secret=s, label=lab, seed=sd,
                            ossl=(sd == 64 and lab == "std"))
        # --- calc_key: every suite the library names, every version
        for sid, su in sorted(TABLE.items()):
            for ver in VERS:
                if su.tls13 or not su.defined_for(ver):
                    continue
                add("calc_key", "%s-%04x%s" % (VN[ver], sid, r),
                    ver=list(ver), sid=sid)
        # --- exporter
        by_prf = {}
        for sid, su in sorted(TABLE.items()):
            by_prf.setdefault((su.tls13, su.prf), sid)
        for (t13, prf), sid in sorted(by_prf.items()):
            vers = [(3, 4)] if t13 else [(3, 1), (3, 2), (3, 3)]
            for ver in vers:
                add("exporter", "%s-%s%s" % (VN[ver], prf, r), ver=list(ver),
                    sid=sid)
        # --- HKDF
        for hname in HKDF_HASHES:
            add("hkdf", "%s-extract%s" % (hname, r), hash=hname,
                sub="extract")
            for info in (0, 1, 50, 300):
                add("hkdf", "%s-expand-i%d%s" % (hname, info, r), hash=hname,
                    sub="expand", info=info)
            add("hkdf", "%s-expand-shortprk%s" % (hname, r), hash=hname,
                sub="expand", info=10, prk=1)
            add("hkdf", "%s-label%s" % (hname, r), hash=hname, sub="label")
            add("hkdf", "%s-derive%s" % (hname, r), hash=hname, sub="derive")
        # --- SSLv3 MAC / digest / running hashes
        for hname in ("md5", "sha1"):
            add("ssl3", "mac-%s%s" % (hname, r), sub="mac", hash=hname)
        add("ssl3", "digest%s" % r, sub="digest")
        add("ssl3", "hashes%s" % r, sub="hashes")
        # --- record layer end to end
        for sid, su in sorted(TABLE.items()):
            if su.tls13:
                for role in ("client", "server"):
                    add("record13", "%04x-%s%s" % (sid, role, r), sid=sid,
                        role=role)
                continue
            for ver in VERS:
                if not su.defined_for(ver):
                    continue
                for role in ("client", "server"):
                    etms = [False]
                    if su.cipher_kind == "cbc" and ver > (3, 0):
                        etms = [False, True]
                        if q and su.kx not in ("RSA", "ECDHE_RSA"):
                            etms = [rng.random() < 0.5]
                    if q and su.cipher == "3des" and su.kx not in (
                            "RSA", "ECDHE_RSA") and role == "server":
                        continue
                    for etm in etms:
                        add("record", "%s-%04x-%s-e%d%s" % (
                            VN[ver], sid, role, etm, r), ver=list(ver),
                            sid=sid, role=role, etm=etm)
    rng.shuffle(out)
    return out


_SELFTEST = []
_SAMPLED = set()


def selftest(ctx):
    if _SELFTEST:
        return
    _SELFTEST.append(1)
    bad = sym.selftest() + kdf.selftest()
    for b in bad:
        ctx.inconc("harness fault: reference self-test failed: " + b)
    for name, fams in (("aes", "AES/GCM/CCM"), ("des3", "3DES"),
                       ("rc4", "RC4"),
                       ("chacha20", "ChaCha20"), ("poly1305", "Poly1305"),
                       ("gmac", "GMAC cross-check"),
                       ("tls1-prf", "TLS1-PRF cross-check"),
                       ("hkdf", "HKDF cross-check")):
        why = ossl.probe(name)
        if why:
            ctx.inconc("%s: reference unavailable: %s" % (fams, why[:160]))


def run(ctx):
    selftest(ctx)
    for cid, P in ctx.cases(make_cases(ctx)):
        try:
            RUNNERS[P["fam"]](ctx, P)
        except Exception as e:   # noqa  harness fault, never a verdict
            ctx.inconc("harness exception in a %s case (%s): %s" % (
                P["fam"], type(e).__name__,
                traceback.format_exc()[-700:]))
        ctx.count("cases:" + P["fam"])
        if P["fam"] not in _SAMPLED:
            _SAMPLED.add(P["fam"])
            ctx.sample({"case": cid, "params": P})
    ctx.count("openssl_calls", ossl.calls)
    if ctx.shard == 0:
        ctx.sample({"openssl": refcall(ctx, "version", ossl.version),
                    "fallback_hmac_loaded": fallback_hmac() is not None})


REQUIRED = ["aes_block", "aes_cbc", "aes_ctr", "des3", "rc4", "chacha20",
            "poly1305", "gcm", "ccm", "ccm8", "chachapoly", "hmac", "prf",
            "calc_key", "exporter", "hkdf", "ssl3", "record", "record13",
            "ks13", "exp12"]


def finalize(m, tier):
    out = []
    c = m["counters"]
    for fam in REQUIRED:
        if c.get("cmp:" + fam, 0) == 0:
            out.append("no comparison was made for primitive family " + fam)
    for alg in sorted(AEADS):
        if c.get("neg:" + alg, 0) == 0:
            out.append("no negative (touched-input) trial for " + alg)
        if c.get("negcontrol:" + alg, 0) == 0:
            out.append("no positive control for the negative trials of " +
                       alg)
    if c.get("refaudit", 0) == 0 or c.get("refaudit_aes_blocks", 0) == 0:
        out.append("the harness references were never audited against "
                   "OpenSSL")
    cells = m["cells"].get("cell", ())
    if not any("|parts=" in x or "+" in x.rsplit("|", 1)[-1] for x in cells):
        out.append("no multi-call (chaining state) pattern was compared")
    for kind in ("cbc", "gcm", "chacha", "stream", "ccm"):
        if not any(x.startswith("record/%s|" % kind) for x in cells):
            out.append("record layer end-to-end never compared for " + kind)
    return out
