"""C02 - a record is accepted only if it is exactly what the peer sent next."""
import copy

from vt import boot  # noqa
from vt import pair, suites, mon, drive, net
from vt.pair import Pair, outcome

from tlslite import errors as E
from tlslite.messages import Message
from tlslite.recordlayer import ConnectionState
from tlslite.constants import AlertDescription as AD

LEVEL = "exploration"
RULE = ("layer 1: after a real handshake per protection kind (cipher, MAC, "
        "version, EtM) the sender's record layer protects known (type, "
        "plaintext) records; an adversary transforms the captured byte "
        "sequence (every/strided single-bit flip incl. header, truncation, "
        "extension, splice, replay, swap, drop, reflection, other epoch / "
        "other connection, TLS 1.3 key-holder inner-plaintext forgeries); the "
        "receiver's RecordLayer.recvRecord() runs on it with its read state "
        "snapshotted/restored; oracle: accept iff byte-identical to the "
        "sender's next record, else one of the integrity/decoding errors. "
        "layer 2: same adversary as MITM between two open connections; oracle "
        "on read(): fatal alert raised+sent, no data, closed, not resumable. "
        "Directed additions: plaintext records of every type spliced "
        "into the stream and into open connections (TLS 1.3 also after "
        "HelloRetryRequest), maximal CBC padding over a length sweep, "
        "old-epoch records after KeyUpdate, forged protected records "
        "during the handshake, early_data offers (forged record after "
        "the handshake; cumulative allowance, also with "
        "ChangeCipherSpec records interleaved).   "
        "distinct_nontrivial = distinct (kind, mutation class, verdict) cells.")
ASSUMPTIONS = [
    "python cipher implementations only",
    "early_data trial decryption (RFC 8446 4.2.10) is not offered, hence not "
    "exercised",
    "flips are exhaustive for records <= 128 bytes in thorough, strided "
    "otherwise",
]
NONTRIVIAL = ["cell"]
DEADLINE = {"quick": 150, "thorough": 1200}

REJECT_OK = (E.TLSBadRecordMAC, E.TLSDecryptionFailed, E.TLSRecordOverflow,
             E.TLSIllegalParameterException, E.TLSUnexpectedMessage)
# record integrity / decoding alerts (decrypt_error is a *handshake*
# cryptography alert and is not one of them)
ALERT_OK = (AD.bad_record_mac, AD.decryption_failed, AD.record_overflow,
            AD.decode_error, AD.illegal_parameter, AD.unexpected_message)


def snap(st):
    r = ConnectionState()
    # the MAC context is never mutated by the record layer (it is copied
    # before every update), so it is shared, not copied
    r.macContext = st.macContext
    r.encContext = copy.deepcopy(st.encContext)
    r.fixedNonce = st.fixedNonce
    r.seqnum = st.seqnum
    r.encryptThenMAC = st.encryptThenMAC
    return r


def kinds(ctx):
    seen = {}
    for sid in suites.NEGOTIABLE:
        su = suites.TABLE[sid]
        for ver in pair.VERSIONS:
            if not su.defined_for(ver):
                continue
            if su.name.startswith("TLS_DHE_DSS") and su.mac == "sha256":
                continue
            etms = [False, True] if (su.cipher_kind == "cbc" and
                                     ver > (3, 0)) else [False]
            for etm in etms:
                k = (su.cipher, su.mac, ver, etm)
                # prefer cheap key exchanges
                cost = {"rsa": 0, "ecdhe_rsa": 1}.get(su.kx_setting, 2)
                if k not in seen or cost < seen[k][0]:
                    seen[k] = (cost, sid)
    out = []
    for (cipher, mac, ver, etm), (_, sid) in sorted(seen.items(),
                                                    key=lambda x: str(x)):
        out.append((sid, ver, etm))
    return out


def make_cases(ctx):
    ks = kinds(ctx)
    rng = ctx.case_rng("plan")
    if ctx.quick:
        # representative subset, every (cipher_kind, etm, version) once
        pickd = {}
        rng.shuffle(ks)
        for sid, ver, etm in ks:
            su = suites.TABLE[sid]
            pickd.setdefault((su.cipher_kind, etm, ver, su.taglen), (sid, ver, etm))
        ks = sorted(pickd.values())
    for sid, ver, etm in ks:
        for direction in ("c2s", "s2c"):
            yield "rl-%04x-%d%d-e%d-%s" % (sid, ver[0], ver[1], etm,
                                           direction), dict(
                mode="rl", sid=sid, ver=ver, etm=etm, dir=direction)
    # forged protected records during the handshake
    for sid, ver, etm in ks:
        if ctx.quick and suites.TABLE[sid].cipher_kind not in ("gcm", "cbc",
                                                                 "chacha"):
            continue
        for direction in ("c2s", "s2c"):
            for how in ("garbage", "flipped_copy", "empty"):
                yield "hs-%04x-%d%d-%s-%s" % (sid, ver[0], ver[1], direction,
                                              how), dict(
                    mode="hs", sid=sid, ver=ver, dir=direction, how=how)
    for ver in ((3, 3), (3, 4), (3, 1)):
        for api in ("read", "recv", "recv_into", "makefile"):
            yield "api-%d-%s" % (ver[1], api), dict(mode="api", ver=ver,
                                                    api=api)
    for where in ("first", "second", "budget", "budget_ccs"):
        for skey in (None, "rsa"):
            yield "early-%s-%s" % (where, skey), dict(mode="early",
                                                      where=where, skey=skey)
    # connection level, directed: unprotected records spliced into an open
    # connection of every version (TLS 1.3 with and without HelloRetryRequest)
    seen = set()
    for sid, ver, etm in ks:
        k = (tuple(ver), suites.TABLE[sid].cipher_kind in ("cbc",))
        if k in seen:
            continue
        seen.add(k)
        for hrr_ in ((False, True) if tuple(ver) == (3, 4) else (False,)):
            for direction in ("c2s", "s2c"):
                for mut in ("ins_plain_ccs", "ins_plain_alert",
                            "ins_plain_app", "ins_first_plain_alert",
                            "ins_first_plain_fatal", "ins_first_plain_ccs"):
                    yield "connd-%04x-%d%d-%s-%s-%d" % (
                        sid, ver[0], ver[1], direction, mut, hrr_), dict(
                        mode="conn", sid=sid, ver=ver, etm=etm, i=1,
                        mut=mut, dir=direction, hrr=hrr_)
                    if not hrr_ and tuple(ver) >= (3, 1):
                        yield "connd-%04x-%d%d-%s-%s-res" % (
                            sid, ver[0], ver[1], direction, mut), dict(
                            mode="conn", sid=sid, ver=ver, etm=etm, i=1,
                            mut=mut, dir=direction, hrr=False, resume=True)
    # connection level
    n = ctx.pick(40, 600)
    for i in range(n):
        sid, ver, etm = ks[i % len(ks)]
        yield "conn-%d-%04x-%d%d-e%d" % (i, sid, ver[0], ver[1], etm), dict(
            mode="conn", sid=sid, ver=ver, etm=etm, i=i)


def split_records(data):
    """harness framing: cut presented bytes into records by the 5-byte
    header; returns list of byte strings (last may be partial)"""
    out = []
    i = 0
    while i < len(data):
        if len(data) - i < 5:
            out.append(data[i:])
            break
        ln = (data[i + 3] << 8) | data[i + 4]
        out.append(data[i:i + 5 + ln])
        i += 5 + ln
    return out


class Rig(object):
    """sender/receiver record layers of an established pair"""

    def __init__(self, p, direction):
        self.p = p
        self.dir = direction
        if direction == "c2s":
            self.snd, self.rcv, self.rsock = p.c, p.s, p.ssock
        else:
            self.snd, self.rcv, self.rsock = p.s, p.c, p.csock
        self.q = p.link.dirs[direction].queue
        self.back = p.link.dirs["s2c" if direction == "c2s" else "c2s"].queue
        self.rl = self.rcv._recordLayer
        self.sl = self.snd._recordLayer

    def drain_receiver(self):
        """let the receiver consume post-handshake flights (tickets)"""
        while len(self.q):
            t = drive.Task("r", drive.aread(self.rcv, None, 0), self.rsock)
            drive.run([t], self.p.link)
            if t.status != "done":
                return False
        return True

    def protect(self, ctype, data, rl=None, q=None):
        rl = rl or self.sl
        q = self.q if q is None else q
        assert len(q) == 0
        for r in rl.sendRecord(Message(ctype, bytearray(data))):
            pass
        wire = bytes(q)
        del q[:]
        return wire

    def present(self, data, saved):
        """run the receiver on presented bytes from a restored state;
        returns list of ('ok', type, plaintext) / ('exc', exception)"""
        self.rl._readState = snap(saved)
        self.rcv.sock._read_buffer = bytearray()
        del self.q[:]
        self.q += data
        d = self.p.link.dirs[self.dir]
        d.closed = True     # EOF after the presented bytes
        res = []
        try:
            while True:
                got = None
                try:
                    for r in self.rl.recvRecord():
                        if isinstance(r, tuple):
                            got = r
                            break
                        # would block cannot happen: EOF is signalled
                        got = "block"
                        break
                except Exception as e:   # noqa
                    res.append(("exc", e))
                    break
                if got == "block" or got is None:
                    res.append(("block", None))
                    break
                hdr, parser = got
                res.append(("ok", hdr.type, bytes(parser.bytes[parser.index:])))
                if len(res) > 16:
                    break
        finally:
            d.closed = False
            del self.q[:]
            self.rcv.sock._read_buffer = bytearray()
        return res


def judge(ctx, kind, mclass, presented, honest, res, witness):
    """honest: list of (wire, type, plaintext) the sender produced in order.
    presented: bytes.  res: receiver outputs."""
    recs = split_records(presented)
    h = 0
    ri = 0
    verdict = "?"
    for pr in recs:
        if ri >= len(res):
            # receiver stopped earlier than we presented: only OK if it had
            # already rejected
            break
        out = res[ri]
        ri += 1
        identical = h < len(honest) and pr == honest[h][0]
        if identical:
            if out[0] != "ok":
                ctx.violation({"clause": "rejected_honest_record",
                               "kind": kind[0], "fam": kind[1],
                               "exc": type(out[1]).__name__ if out[1] else
                               out[0]}, witness,
                              "honest next record rejected: %r" % (out,))
                return "bad"
            if (out[1], out[2]) != (honest[h][1], honest[h][2]):
                ctx.violation({"clause": "wrong_plaintext", "kind": kind[0],
                               "fam": kind[1]}, witness,
                              "accepted but yielded different content")
                return "bad"
            h += 1
            verdict = "accept"
            continue
        # not what the peer sent next: must be rejected
        if out[0] == "ok":
            same = h < len(honest) and (out[1], out[2]) == (honest[h][1],
                                                            honest[h][2])
            ctx.violation({"clause": "accepted_nonidentical", "mut": mclass,
                           "fam": kind[1], "ckind": kind[2],
                           "same_plaintext": same}, witness,
                          "record differing from the sender's next record "
                          "was accepted (type %s, %d bytes)" % (
                              out[1], len(out[2])))
            return "bad"
        if out[0] == "block":
            verdict = "reject:incomplete"
            break
        e = out[1]
        if isinstance(e, REJECT_OK):
            verdict = "reject:" + type(e).__name__
        elif isinstance(e, E.TLSAbruptCloseError):
            verdict = "reject:incomplete"
        else:
            ctx.violation({"clause": "reject_wrong_exception", "mut": mclass,
                           "fam": kind[1], "ckind": kind[2],
                           "exc": type(e).__name__}, witness,
                          "rejected with %r" % (e,))
            return "bad"
        break
    return verdict


def flips(n, stride):
    for i in range(0, n * 8, stride):
        yield i // 8, 1 << (i % 8)


def region(i, n):
    if i == 0:
        return "hdr_type"
    if i in (1, 2):
        return "hdr_version"
    if i in (3, 4):
        return "hdr_length"
    return "body"


def run_rl(ctx, cid, P):
    su = suites.TABLE[P["sid"]]
    ver = tuple(P["ver"])
    fam = "tls13" if ver == (3, 4) else ("ssl3" if ver == (3, 0) else "le12")
    kind = ("%s/%s/%s/etm%d" % (su.cipher, su.mac, pair.VNAME[ver],
                                P["etm"]), fam, su.cipher_kind)
    fl = suites.flavor_for(P["sid"], ver,
                           cset_kw=dict(useEncryptThenMAC=P["etm"]),
                           sset_kw=dict(useEncryptThenMAC=P["etm"]))
    p = Pair()
    tc, ts = p.handshake(fl)
    p2 = Pair()
    tc2, ts2 = p2.handshake(fl)
    if not all(t.status == "done" for t in (tc, ts, tc2, ts2)):
        ctx.inconc("control handshake failed for %s" % cid)
        return
    if p.c.session.cipherSuite != P["sid"] or \
            (su.cipher_kind == "cbc" and ver > (3, 0) and
             bool(p.c.encryptThenMAC) != P["etm"]):
        ctx.inconc("forced kind not negotiated: %s" % cid)
        return
    rig = Rig(p, P["dir"])
    rig2 = Rig(p2, P["dir"])
    if not rig.drain_receiver() or not rig2.drain_receiver():
        ctx.inconc("drain failed for %s" % cid)
        return
    # the receiver also drains what it got in the other direction
    other = Rig(p, "s2c" if P["dir"] == "c2s" else "c2s")
    other.drain_receiver()
    rng = ctx.rng
    lens = [0, 1, 15, 16, 17, 31, 32, 33, 255, 256, 257, 2 ** 14]
    if ctx.quick:
        lens = [rng.choice([0, 1]), rng.choice([15, 16, 17, 31, 32, 33]),
                rng.choice([255, 256, 257])]
    saved_r = snap(rig.rl._readState)
    saved_w = snap(rig.sl._writeState)
    W = {"case": cid}
    block = su.block or 16

    def trial(mclass, presented, honest):
        res = rig.present(presented, saved_r)
        v = judge(ctx, kind, mclass, presented, honest, res,
                  dict(W, mut=mclass, presented=presented[:600],
                       honest=[h[0][:300] for h in honest[:3]]))
        ctx.ev()
        ctx.count("trials")
        ctx.count("v:" + v.split(":")[0])
        if v.startswith("reject:"):
            ctx.count("rej:" + v[7:])
        ctx.cell("cell", "%s|%s|%s" % (kind[0], mclass, v))
        return v

    for n in lens:
        if ctx.expired():
            break
        rig.sl._writeState = snap(saved_w)
        pt = mon.keystream("%s/%d" % (cid, n), n)
        ctype = 23
        wire = rig.protect(ctype, pt)
        honest = [(wire, ctype, pt)]
        # control: honest record accepted (also self-check of the snapshot)
        v = trial("identity", wire, honest)
        if v != "accept":
            ctx.inconc("snapshot self-check failed in %s: %s" % (cid, v))
            return
        ctx.count("honest_accept")
        L = len(wire)
        if ctx.quick:
            stride = 3 if L <= 128 else 29
        else:
            stride = 1 if L <= 128 else (7 if L <= 400 else 241)
        for i, mask in flips(L, stride):
            b = bytearray(wire)
            b[i] ^= mask
            trial("flip:" + region(i, L), bytes(b), honest)
        # header flips always exhaustive
        for i in range(5):
            for bit in range(8):
                b = bytearray(wire)
                b[i] ^= 1 << bit
                trial("flip:" + region(i, L), bytes(b), honest)
        # truncations (header length adjusted and not)
        body = wire[5:]
        cuts = sorted(set([0, 1, 2, len(body) - 1, len(body) - 2,
                           len(body) - block, len(body) - block - 1,
                           len(body) // 2] + ([] if ctx.quick else
                                              list(range(0, min(len(body), 80))))))
        for k in cuts:
            if 0 <= k < len(body):
                trial("trunc_adj", wire[:3] + bytes([k >> 8, k & 255]) +
                      body[:k], honest)
                trial("trunc_raw", wire[:5] + body[:k], honest)
        # extensions
        for k in ([1, block, block + 1] if ctx.quick else
                  list(range(1, block + 2))):
            ext = mon.keystream("ext", k)
            ln = len(body) + k
            if ln < 65536:
                trial("extend_adj", wire[:3] + bytes([ln >> 8, ln & 255]) +
                      body + ext, honest)
        # header-only adjust of the length
        for dl in (-1, 1):
            ln = len(body) + dl
            if 0 <= ln:
                trial("len_field", wire[:3] + bytes([ln >> 8, ln & 255]) +
                      body, honest)

    # --- CBC records padded far beyond the minimum (legal from TLS 1.0 on:
    # up to 255 bytes; tlslite never sends them but must verify them) ---
    if su.cipher_kind == "cbc" and ver > (3, 0):
        sl = rig.sl
        want = {"k": 0}

        def long_pad(data):
            bl = sl.blockSize
            base = bl - 1 - (len(data) % bl)
            kmax = (255 - base) // bl
            k = kmax if want["k"] == "max" else min(kmax, want["k"])
            pl = base + k * bl
            data += bytearray([pl] * (pl + 1))
            return data
        sl.addPadding = long_pad
        try:
            plan = [(0, "max"), (5, "max"), (37, "max"),
                    (rng.randrange(1, 60), rng.randrange(1, 15)),
                    (rng.randrange(1, 60), rng.randrange(8, 15))]
            for n, k in plan:
                if ctx.expired():
                    break
                want["k"] = k
                rig.sl._writeState = snap(saved_w)
                pt = mon.keystream("%s/lp%d" % (cid, n), n)
                wire = rig.protect(23, pt)
                honest = [(wire, 23, pt)]
                v = trial("longpad_identity", wire, honest)
                if v != "accept":
                    continue      # already reported by judge()
                ctx.count("longpad_accept")
                L = len(wire)
                stride = (5 if ctx.quick else 1)
                for i, mask in flips(L, stride * 8 + 1):
                    b = bytearray(wire)
                    b[i] ^= mask
                    trial("longpad_flip:" + region(i, L), bytes(b), honest)
                # the last byte (padding length) and the MAC area
                for i in (L - 1, L - 2, L - 256 if L > 261 else 5):
                    b = bytearray(wire)
                    b[i] ^= 1
                    trial("longpad_flip:" + region(i, L), bytes(b), honest)
            # where the MAC sits relative to the hash-block-aligned scan
            # window depends on (length, padding): sweep the lengths with
            # maximal padding, two early flips each
            want["k"] = "max"
            for n in range(0, ctx.pick(70, 200)):
                if ctx.expired():
                    break
                rig.sl._writeState = snap(saved_w)
                pt = mon.keystream("%s/lq%d" % (cid, n), n)
                wire = rig.protect(23, pt)
                honest = [(wire, 23, pt)]
                if trial("longpad_identity", wire, honest) != "accept":
                    continue
                for i in (5, 5 + sl.blockSize, 5 + 2 * sl.blockSize):
                    if i < len(wire):
                        b = bytearray(wire)
                        b[i] ^= 0x10
                        trial("longpad_sweep_flip", bytes(b), honest)
        finally:
            del sl.addPadding

    # --- records nobody protected: plaintext spliced into the stream ---
    rig.sl._writeState = snap(saved_w)
    first_pt = mon.keystream("%s/pl" % cid, 12)
    first = rig.protect(23, first_pt)
    hv = bytes(ver if ver < (3, 4) else (3, 3))
    for nm, ct, body in (("alert_close_notify", 21, b"\x01\x00"),
                         ("alert_fatal", 21, b"\x02\x28"),
                         ("alert_1byte", 21, b"\x01"),
                         ("appdata", 23, b"abc"),
                         ("handshake", 22, b"\x00\x00\x00\x00"),
                         ("empty_appdata", 23, b"")):
        rec = bytes([ct]) + hv + len(body).to_bytes(2, "big") + body
        # in place of the first record of the epoch, and after one record
        trial("plaintext_first:" + nm, rec, [(first, 23, first_pt)])
        trial("plaintext_later:" + nm, first + rec, [(first, 23, first_pt)])

    # --- sequences ---
    rig.sl._writeState = snap(saved_w)
    hon = []
    for j, n in enumerate((20, 33, 7)):
        pt = mon.keystream("%s/seq%d" % (cid, j), n)
        hon.append((rig.protect(23, pt), 23, pt))
    R = [h[0] for h in hon]
    v = trial("seq_identity", R[0] + R[1] + R[2], hon)
    if v != "accept":
        ctx.inconc("sequence control failed in %s" % cid)
        return
    trial("replay", R[0] + R[0], hon)
    trial("drop_first", R[1], hon)
    trial("swap", R[1] + R[0], hon)
    trial("drop_middle", R[0] + R[2], hon)
    trial("splice", R[0][:5 + (len(R[0]) - 5) // 2] +
          R[1][5 + (len(R[1]) - 5) // 2:], hon)
    trial("splice_hdr", R[0][:5] + R[1][5:5 + len(R[0]) - 5] if
          len(R[1]) >= len(R[0]) else R[1][:5] + R[0][5:5 + len(R[1]) - 5],
          hon)
    # the same record far away in the sequence: a receiver at number
    # n + k*2^32 (2^48, 2^63) must refuse what was protected as number n
    pt0 = mon.keystream("%s/far" % cid, 21)
    rig.sl._writeState = snap(saved_w)
    near = rig.protect(23, pt0)
    for kname, k in (("2^32", 1 << 32), ("5*2^32", 5 << 32),
                     ("2^48", 1 << 48), ("2^63", 1 << 63), ("2^8", 1 << 8)):
        r2, w2 = snap(saved_r), snap(saved_w)
        if r2.seqnum + k >= 1 << 64:
            continue
        r2.seqnum += k
        w2.seqnum += k
        rig.sl._writeState = w2
        far = rig.protect(23, pt0)
        if far == near and kind[0].split("/")[0] not in ("null",):
            # (a sender and a receiver sharing the mistake agree with each
            # other: what gives it away is that position n and position
            # n + k produce the very same protected record)
            ctx.ev()
            ctx.violation({"clause": "record_independent_of_sequence_number",
                           "kind": kind[0], "fam": kind[1],
                           "distance": kname},
                          dict(W, record=near[:200]),
                          "the same plaintext protected as record n and as "
                          "record n + %s gives identical bytes: either one "
                          "is accepted in place of the other" % kname)
            continue
        for mclass, presented in (("far_identity", far),
                                  ("replay_far:" + kname, near)):
            res = rig.present(presented, r2)
            v = judge(ctx, kind, mclass, presented, [(far, 23, pt0)], res,
                      dict(W, mut=mclass, presented=presented[:300],
                           distance=kname))
            ctx.ev()
            ctx.count("trials")
            ctx.count("v:" + v.split(":")[0])
            ctx.cell("cell", "%s|%s|%s" % (kind[0], mclass, v))
            if mclass == "far_identity" and v != "accept":
                ctx.inconc("far sequence control failed in %s (%s): %s" % (
                    cid, kname, v))
    rig.sl._writeState = snap(saved_w)
    # reflection: a record the receiver itself would send
    rsaved = snap(rig.rl._writeState)
    refl = other.protect(23, mon.keystream("refl", 20), rl=rig.rl)
    rig.rl._writeState = rsaved
    trial("reflect", refl, hon)
    # other connection, same suite
    foreign = rig2.protect(23, mon.keystream("%s/seq0" % cid, 20))
    trial("other_connection", foreign, hon)
    # other epoch: wrong sequence number (record from later in the stream)
    rig.sl._writeState = snap(saved_w)
    for _ in range(3):
        rig.protect(23, b"skip")
    late = rig.protect(23, hon[0][2])
    trial("other_seqnum", late, hon)
    # TLS 1.3: other key epoch via KeyUpdate on the sender only
    if ver == (3, 4):
        run_tls13_forgeries(ctx, rig, saved_r, saved_w, kind, su, trial, W)
        run_tls13_epochs(ctx, cid, rig, saved_r, saved_w, kind, W)
    # SSLv2-style framing presented on an established connection
    for k in (0, 1, 16, 32, 48):
        trial("ssl2_frame2", bytes([0x80 | (k >> 8), k & 255]) +
              mon.keystream("s2", k), hon)
        trial("ssl2_frame3", bytes([(k >> 8) & 0x3f, k & 255, 0]) +
              mon.keystream("s3", k), hon)
    ctx.count("rl_cases")
    ctx.cell("kind", kind[0])
    ctx.cell("ckind", "%s/%s" % (su.cipher_kind, fam))
    ctx.sample({"case": cid, "kind": kind[0], "dir": P["dir"],
                "lens": lens, "example_record": hon[0][0]})


def run_tls13_forgeries(ctx, rig, saved_r, saved_w, kind, su, trial, W):
    """records built by a key holder with unusual inner plaintext"""
    sl = rig.sl

    def seal(inner, outer_type=23, outer_ver=(3, 3)):
        sl._writeState = snap(saved_w)
        st = sl._writeState
        seq = st.getSeqNumBytes()
        nonce = sl._getNonce(st, seq)
        out_len = len(inner) + st.encContext.tagLength
        hdr = bytes([outer_type, outer_ver[0], outer_ver[1],
                     out_len >> 8, out_len & 255])
        ct = st.encContext.seal(nonce, bytearray(inner), bytearray(hdr))
        return hdr + bytes(ct)

    # control: normal construction equals the library's own output
    sl._writeState = snap(saved_w)
    ref = rig.protect(23, b"abc")
    mine = seal(b"abc\x17")
    if ref != mine:
        ctx.inconc("tls13 key-holder construction mismatch")
        return
    lim = 2 ** 14
    cases = [
        ("tls13_all_zero", seal(b"\x00" * 8), []),
        ("tls13_empty_inner", seal(b""), []),
        ("tls13_outer_type", seal(b"abc\x17", outer_type=22), []),
        ("tls13_outer_version", seal(b"abc\x17", outer_ver=(3, 4)), []),
        ("tls13_outer_version", seal(b"abc\x17", outer_ver=(3, 1)), []),
        ("tls13_inner_limit+2", seal(b"a" * (lim + 1) + b"\x17"), []),
        ("tls13_pad_limit+2", seal(b"a" + b"\x17" + b"\x00" * lim), []),
    ]
    for mclass, wire, hon in cases:
        trial(mclass, wire, hon)
    # accepted-by-definition forms: these ARE what the sender protected
    ok_cases = [
        ("tls13_padded", b"abc", 23, 50),
        ("tls13_pad_to_limit+1", b"a" * 10, 23, lim - 10),
        ("tls13_type0x63", b"xyz", 0x63, 0),
    ]
    for mclass, pt, ityp, pad in ok_cases:
        w = seal(pt + bytes([ityp]) + b"\x00" * pad)
        trial(mclass, w, [(w, ityp, pt)])


def run_tls13_epochs(ctx, cid, rig, saved_r, saved_w, kind, W):
    """both ends move this direction to the next key generation (what a
    KeyUpdate does); records of the previous generation, taken at the same
    sequence numbers, must not be accepted by the new one"""
    cs, rs = rig.snd.session, rig.rcv.session
    suite = cs.cipherSuite
    olds = []
    for seq in (0, 1, 2):
        st = snap(saved_w)
        st.seqnum = seq
        rig.sl._writeState = st
        pt = mon.keystream("%s/old%d" % (cid, seq), 24)
        olds.append((rig.protect(23, pt), 23, pt))
    try:
        for gen in (1, 2):
            rig.sl._writeState = snap(saved_w) if gen == 1 else new_w
            if gen == 1:
                c_s, s_s = cs.cl_app_secret, cs.sr_app_secret
                c_r, s_r = rs.cl_app_secret, rs.sr_app_secret
            c_s, s_s = rig.sl.calcTLS1_3KeyUpdate_reciever(suite, c_s, s_s)
            new_w = snap(rig.sl._writeState)
            rig.rl._readState = snap(saved_r) if gen == 1 else new_r
            c_r, s_r = rig.rl.calcTLS1_3KeyUpdate_sender(suite, c_r, s_r)
            new_r = snap(rig.rl._readState)

            def trial2(mclass, presented, honest):
                res = rig.present(presented, new_r)
                v = judge(ctx, kind, mclass, presented, honest, res,
                          dict(W, mut=mclass, presented=presented[:600],
                               honest=[h[0][:300] for h in honest[:3]]))
                ctx.ev()
                ctx.count("trials")
                ctx.count("v:" + v.split(":")[0])
                ctx.cell("cell", "%s|%s|%s" % (kind[0], mclass, v))
                return v
            hon = []
            rig.sl._writeState = snap(new_w)
            for j in range(3):
                pt = mon.keystream("%s/gen%d/%d" % (cid, gen, j), 24)
                hon.append((rig.protect(23, pt), 23, pt))
            if trial2("keyupdate_identity", hon[0][0] + hon[1][0] + hon[2][0],
                      hon) != "accept":
                ctx.inconc("key update control failed in %s" % cid)
                return
            ctx.count("keyupdate_generations")
            # previous generation's records at the same positions
            trial2("previous_epoch_seq0", olds[0][0], hon)
            trial2("previous_epoch_seq1", hon[0][0] + olds[1][0], hon)
            trial2("previous_epoch_seq2", hon[0][0] + hon[1][0] + olds[2][0],
                   hon)
            olds = hon
    finally:
        rig.sl._writeState = snap(saved_w)
        rig.rl._readState = snap(saved_r)


def run_hs_inject(ctx, cid, P):
    """a forged protected record arrives while the handshake is still
    running but the receiver already has a read cipher: TLS 1.3 server
    before the client's first protected record, TLS 1.3 client before the
    server's, <= 1.2 between ChangeCipherSpec and Finished"""
    su = suites.TABLE[P["sid"]]
    ver = tuple(P["ver"])
    fam = "tls13" if ver == (3, 4) else ("ssl3" if ver == (3, 0) else "le12")
    direction = P["dir"]
    rng = ctx.rng
    st = {"done": False, "ccs": False}
    how = P["how"]

    def mitm(rec, idx):
        if rec.dir != direction or st["done"]:
            return None
        if ver == (3, 4):
            hit = rec.type == 23
        else:
            if rec.type == 20:
                st["ccs"] = True
                return None
            hit = st["ccs"]
        if not hit:
            return None
        st["done"] = True
        if how == "garbage":
            body = mon.keystream(cid, max(24, min(len(rec.body), 64)))
        elif how == "flipped_copy":
            body = bytearray(rec.body)
            body[rng.randrange(len(body))] ^= 1 << rng.randrange(8)
        else:                       # zero-length protected record
            body = b""
        forged = bytes([rec.type if ver != (3, 4) else 23]) + \
            bytes(rec.raw[1:3]) + len(body).to_bytes(2, "big") + bytes(body)
        return forged + rec.raw

    fl = suites.flavor_for(P["sid"], ver)
    p = Pair(mitm=mitm)
    tc, ts = p.handshake(fl)
    ctx.ev()
    ctx.count("hs_inject_trials")
    if not st["done"]:
        ctx.count("hs_inject_not_reached")
        return
    vt = ts if direction == "c2s" else tc
    vname = "server" if direction == "c2s" else "client"
    vconn = p.s if direction == "c2s" else p.c
    key = {"layer": "handshake", "mut": "inject_" + how, "fam": fam,
           "ckind": su.cipher_kind, "victim": vname}
    W = {"case": cid, "outcome": [outcome(tc), outcome(ts)],
         "records": [r.brief() for r in p.link.records[-10:]]}
    if vt.status == "done":
        ctx.violation(dict(key, clause="accepted_nonidentical",
                           same_plaintext=False), W,
                      "%s completed the handshake although a forged "
                      "protected record preceded the peer's first one" %
                      vname)
    elif not (vt.status == "exc" and isinstance(vt.exc, E.TLSLocalAlert) and
              vt.exc.description in ALERT_OK and vt.exc.level == 2):
        ctx.violation(dict(key, clause="conn_wrong_exception",
                           exc=str(outcome(vt))), W,
                      "forged record during the handshake: %r" % (vt.exc,))
    else:
        ctx.count("hs_inject_rejected")
        if not vconn.closed:
            ctx.violation(dict(key, clause="not_closed"), W, "")
    ctx.cell("cell", "hs|%s|%s|%s|%s|%s" % (fam, su.cipher_kind, vname, how,
                                           outcome(vt)))


def run_early(ctx, cid, P):
    """the client's ClientHello advertises early_data (with a PSK), which
    entitles the server to skip undecryptable records *until the client's
    first protected handshake record* (RFC 8446 4.2.10) - not afterwards:
    a forged record after the handshake must be fatal as ever"""
    from vt import creds
    from vt.pair import Flavor, ver_settings
    from tlslite.messages import ClientHello
    from tlslite.extensions import TLSExtension
    from tlslite.constants import ExtensionType
    rng = ctx.rng
    psk = (creds.PSK_ID, creds.PSK_SECRET, "sha256")
    cs = ver_settings((3, 4), pskConfigs=[psk])
    ss = ver_settings((3, 4), pskConfigs=[psk])
    fl = Flavor("psk", skey=P["skey"], cset=cs, sset=ss)
    st = {"armed": False, "done": False, "n": 0}
    where = P["where"]
    ccs = where == "budget_ccs"
    if ccs:
        where = "budget"
    if where == "budget":
        # what may be skipped before the client's first protected record is
        # bounded by max_early_data *in total* - also when compatibility
        # ChangeCipherSpec records are interleaved with the junk
        ss.max_early_data = 1024

    def mitm(rec, idx):
        if where == "budget":
            if rec.dir == "c2s" and rec.type == 23 and not st["done"]:
                st["done"] = True
                junk = b""
                for j in range(9):      # 9 x 400 bytes, each below the limit
                    junk += bytes(rec.raw[:3]) + (400).to_bytes(2, "big") + \
                        mon.keystream("%s/%d" % (cid, j), 400)
                    if ccs:
                        junk += b"\x14\x03\x03\x00\x01\x01"
                return junk + rec.raw
            return None
        if not st["armed"] or rec.dir != "c2s" or rec.type != 23:
            return None
        st["n"] += 1
        if st["n"] == (1 if where == "first" else 2) and not st["done"]:
            st["done"] = True
            forged = bytes(rec.raw[:3]) + (40).to_bytes(2, "big") + \
                mon.keystream(cid, 40)
            return forged + rec.raw
        return None
    orig = ClientHello.create

    def create(self, *a, **kw):
        ret = orig(self, *a, **kw)
        if self.extensions is not None:
            ext = TLSExtension(extType=ExtensionType.early_data).create(
                bytearray(0))
            # pre_shared_key has to stay last
            self.extensions.insert(max(0, len(self.extensions) - 1), ext)
        return ret
    ClientHello.create = create
    try:
        p = Pair(mitm=mitm)
        tc, ts = p.handshake(fl)
    finally:
        ClientHello.create = orig
    ctx.ev()
    if where == "budget":
        ctx.count("conn_trials")
        key = {"layer": "handshake", "mut": "early_data_budget_exceeded" +
               ("_with_ccs" if ccs else ""), "fam": "tls13", "ckind": "gcm"}
        W = {"case": cid, "outcome": [outcome(tc), outcome(ts)]}
        if not st["done"]:
            ctx.count("conn_not_armed")
        elif ts.status == "done":
            ctx.violation(dict(key, clause="tamper_not_detected",
                               status="handshake_completed"), W,
                          "3600 undecryptable bytes were skipped although "
                          "max_early_data is 1024")
        elif not (ts.status == "exc" and isinstance(ts.exc, E.TLSLocalAlert)
                  and ts.exc.description in ALERT_OK):
            ctx.violation(dict(key, clause="conn_wrong_exception",
                               exc=str(outcome(ts))), W, repr(ts.exc))
        else:
            ctx.count("conn_rejected")
        ctx.cell("cell", "hs|tls13|early_budget|%s" % (outcome(ts),))
        return
    if tc.status != "done" or ts.status != "done":
        ctx.inconc("early_data-offering PSK handshake failed in %s: %r %r" % (
            cid, tc.exc, ts.exc))
        return
    ctx.count("early_offer_handshakes")
    st["armed"] = True
    f = mon.Fifo(cid)
    for n in (20, 300, 5):
        tw = drive.Task("w", drive.awrite(p.c, f.next_write(n)), p.csock)
        drive.run([tw], p.link)
    got = bytearray()
    exc = None
    for _ in range(8):
        tr = drive.Task("r", drive.aread(p.s, None, 1), p.ssock)
        drive.run([tr], p.link)
        if tr.status != "done":
            exc = tr
            break
        if not tr.result:
            break
        got += tr.result
    key = {"layer": "conn", "mut": "forged_after_early_data_offer",
           "fam": "tls13", "ckind": "gcm"}
    W = {"case": cid, "where": where, "got": bytes(got)[:80],
         "records": [r.brief() for r in p.link.records[-8:]]}
    ctx.count("conn_trials")
    if not st["done"]:
        ctx.count("conn_not_armed")
        return
    bad = f.check_read(bytes(got))
    if bad is not None:
        ctx.violation(dict(key, clause="tampered_data_delivered",
                           fifo=bad["kind"]), W, "")
    elif exc is None or not (exc.status == "exc" and
                             isinstance(exc.exc, E.TLSLocalAlert)):
        ctx.violation(dict(key, clause="tamper_not_detected",
                           status=str(outcome(exc)) if exc else "delivered"),
                      W, "a forged record after the handshake was skipped: "
                      "the server read %d bytes and %r" % (
                          len(got), exc and exc.exc))
    else:
        ctx.count("conn_rejected")
        if not p.s.closed:
            ctx.violation(dict(key, clause="not_closed"), W, "")
    ctx.cell("cell", "conn|tls13|early_offer|%s|%s" % (
        where, outcome(exc) if exc else "delivered"))


def run_conn(ctx, cid, P):
    """MITM tampers with one application record between open connections"""
    su = suites.TABLE[P["sid"]]
    ver = tuple(P["ver"])
    fam = "tls13" if ver == (3, 4) else ("ssl3" if ver == (3, 0) else "le12")
    rng = ctx.rng
    state = {"armed": False, "mut": None, "done": False, "target": None}
    direction = rng.choice(["c2s", "s2c"])
    mut = rng.choice(["flip_body", "flip_body", "flip_type", "flip_len",
                      "trunc", "extend", "replay", "drop", "swap",
                      "flip_version", "ins_plain_ccs", "ins_plain_alert",
                      "ins_plain_app"])
    if P.get("mut"):
        mut, direction = P["mut"], P["dir"]
    held = []
    # TLS 1.3: every third case reaches the connection through a
    # HelloRetryRequest (the compatibility ChangeCipherSpec is then sent
    # earlier, and tolerance for it must end with the handshake all the same)
    hrr = ver == (3, 4) and P.get("i", 0) % 3 == 0
    if "hrr" in P:
        hrr = P["hrr"]

    def mitm(rec, idx):
        if not state["armed"] or rec.dir != direction or rec.type != 23:
            return None
        n = state.setdefault("n", 0)
        state["n"] = n + 1
        raw = bytearray(rec.raw)
        if n == 0 and mut.startswith("ins_first_"):
            # in front of the very first record of the application epoch
            state["done"] = True
            body = {"ins_first_plain_alert": (21, b"\x01\x00"),
                    "ins_first_plain_fatal": (21, b"\x02\x28"),
                    "ins_first_plain_ccs": (20, b"\x01")}[mut]
            return bytes([body[0]]) + bytes(raw[1:3]) + \
                len(body[1]).to_bytes(2, "big") + body[1] + bytes(raw)
        if n == 0:
            # first record passes (baseline delivery)
            state["first"] = bytes(raw)
            return None
        if n == 1:
            state["done"] = True
            if mut.startswith("ins_plain_"):
                body = {"ins_plain_ccs": (20, b"\x01"),
                        "ins_plain_alert": (21, b"\x01\x00"),
                        "ins_plain_app": (23, b"spliced")}[mut]
                return bytes([body[0]]) + bytes(raw[1:3]) + \
                    len(body[1]).to_bytes(2, "big") + body[1] + bytes(raw)
            if mut == "flip_body" and len(raw) > 5:
                raw[5 + rng.randrange(len(raw) - 5)] ^= 1 << rng.randrange(8)
            elif mut == "flip_type":
                raw[0] ^= rng.choice([1, 2, 4])   # 23 -> 22 / 21 / 19
            elif mut == "flip_version":
                raw[rng.choice([1, 2])] ^= rng.choice([1, 2])
            elif mut == "flip_len":
                ln = len(raw) - 5 + rng.choice([-1, 1])
                raw[3], raw[4] = ln >> 8, ln & 255
                return bytes(raw) + b"\x00" * 4
            elif mut == "trunc" and len(raw) > 6:
                k = rng.randrange(0, len(raw) - 5)
                raw = raw[:3] + bytes([k >> 8, k & 255]) + raw[5:5 + k]
            elif mut == "extend":
                k = rng.randrange(1, 18)
                ln = len(raw) - 5 + k
                raw = raw[:3] + bytes([ln >> 8, ln & 255]) + raw[5:] + \
                    mon.keystream("x", k)
            elif mut == "replay":
                return state["first"]
            elif mut == "drop":
                held.append(bytes(raw))
                return b""
            elif mut == "swap":
                held.append(bytes(raw))
                return b""
            return bytes(raw)
        if n == 2 and mut == "swap":
            return bytes(raw) + held[0]
        return None

    ckw = dict(useEncryptThenMAC=P["etm"])
    if hrr:
        ckw["keyShares"] = []
    skw = dict(useEncryptThenMAC=P["etm"])
    if P.get("resume"):
        from vt.flavours import TK, pump as _pump
        skw["ticketKeys"] = TK
    fl = suites.flavor_for(P["sid"], ver, cset_kw=ckw, sset_kw=skw)
    if P.get("resume"):
        # the connection under attack is a resumed one
        p0 = Pair()
        t0c, t0s = p0.handshake(fl)
        if t0c.status != "done" or t0s.status != "done":
            ctx.inconc("resumption source failed for %s" % cid)
            return
        _pump(p0, p0.c, p0.csock)
        drive.run([drive.Task("cc", drive.aclose(p0.c), p0.csock),
                   drive.Task("sc", drive.aclose(p0.s), p0.ssock)], p0.link)
        fl.session = p0.c.session
    p = Pair(mitm=mitm)
    tc, ts = p.handshake(fl)
    if tc.status != "done" or ts.status != "done":
        ctx.inconc("control handshake failed for %s" % cid)
        return
    if hrr:
        ctx.count("conn_after_hello_retry")
    if P.get("resume"):
        if not (p.c.resumed and p.s.resumed):
            ctx.count("conn_resumption_declined")
        else:
            ctx.count("conn_on_resumed_connection")
    snd, rcv = (p.c, p.s) if direction == "c2s" else (p.s, p.c)
    ssock, rsock = (p.csock, p.ssock) if direction == "c2s" else \
        (p.ssock, p.csock)
    # drain tickets on both ends
    for conn, sock in ((p.c, p.csock), (p.s, p.ssock)):
        if p.link.in_flight("s2c" if conn is p.c else "c2s"):
            t = drive.Task("d", drive.aread(conn, None, 0), sock)
            drive.run([t], p.link)
    state["armed"] = True
    rcv_session = rcv.session
    f = mon.Fifo(cid)
    chunks = [f.next_write(rng.choice([1, 20, 300])) for _ in range(4)]
    # avoid the 1/n-1 split confusing the record count: records are counted
    # on the wire by the MITM, whatever their number
    got = bytearray()
    exc = None
    wrote = 0
    for ch in chunks:
        tw = drive.Task("w", drive.awrite(snd, ch), ssock)
        drive.run([tw], p.link)
        if tw.status != "done":
            break
        wrote += len(ch)
    # reader reads until error / all data
    want = sum(len(c) for c in chunks)
    while len(got) < want:
        tr = drive.Task("r", drive.aread(rcv, None, 1), rsock)
        drive.run([tr], p.link)
        if tr.status == "done":
            if not tr.result:
                break
            got += tr.result
        else:
            exc = tr
            break
    ctx.ev()
    ctx.count("conn_trials")
    if not state["done"]:
        ctx.count("conn_not_armed")
        return
    key = {"layer": "conn", "mut": mut, "fam": fam, "ckind": su.cipher_kind}
    W = {"case": cid, "mut": mut, "dir": direction,
         "records": [r.brief() for r in p.link.records[-12:]]}
    # data delivered must be a prefix of what was written, and must stop
    # before the tampered record's content
    bad = f.check_read(bytes(got))
    if bad is not None:
        ctx.violation(dict(key, clause="tampered_data_delivered",
                           fifo=bad["kind"]), dict(W, detail=bad),
                      "reader got bytes that are not a prefix of the stream")
        return
    if exc is None:
        # all data delivered although a record was tampered with
        if len(got) == want and mut in ("flip_version",) and fam != "tls13":
            ctx.violation({"clause": "accepted_nonidentical",
                           "mut": "hdr_version", "fam": fam,
                           "ckind": su.cipher_kind, "same_plaintext": True,
                           "layer": "conn"}, W,
                          "record with altered header version delivered")
        else:
            ctx.violation(dict(key, clause="tamper_not_detected",
                               status="all_delivered" if len(got) == want
                               else "short"), W,
                          "read() did not fail after tampering")
        return
    e = exc.exc
    if exc.status != "exc":
        # stalled: e.g. dropped record and nothing else arrives - the next
        # record would fail; or truncated record waiting for bytes
        ctx.count("conn_stalled")
        ctx.cell("cell", "conn|%s|%s|stalled" % (fam, mut))
        return
    if not isinstance(e, E.TLSLocalAlert):
        ctx.violation(dict(key, clause="conn_wrong_exception",
                           exc=type(e).__name__), W,
                      "read raised %r" % (e,))
        return
    if e.description not in ALERT_OK or e.level != 2:
        ctx.violation(dict(key, clause="conn_wrong_alert",
                           alert=e.description), W, "alert %r" % (e,))
        return
    # alert on the wire from the reader
    back = "s2c" if direction == "c2s" else "c2s"
    lastb = [r for r in p.link.recs(back)]
    if not lastb or (lastb[-1].type not in (21, 23)):
        ctx.violation(dict(key, clause="no_alert_on_wire"), W,
                      "no alert record after failure")
        return
    if not rcv.closed:
        ctx.violation(dict(key, clause="not_closed"), W, "reader not closed")
    if rcv_session is not None and (rcv_session.resumable or
                                    rcv_session.valid()):
        ctx.violation(dict(key, clause="still_resumable"), W,
                      "session resumable after integrity failure")
    try:
        r = rcv.read(10, 1)
        if r != b"":
            ctx.violation(dict(key, clause="read_after_failure"), W,
                          "read after failure returned %r" % (r,))
    except Exception as e2:   # noqa
        ctx.violation(dict(key, clause="read_after_failure",
                           exc=type(e2).__name__), W, repr(e2))
    try:
        rcv.write(b"x")
        ctx.violation(dict(key, clause="write_after_failure"), W,
                      "write after failure succeeded")
    except E.TLSClosedConnectionError:
        pass
    except Exception as e2:   # noqa
        ctx.violation(dict(key, clause="write_after_failure",
                           exc=type(e2).__name__), W, repr(e2))
    # peer surfaces the alert
    tp = drive.Task("p", drive.aread(snd, None, 1), ssock)
    drive.run([tp], p.link)
    if tp.status == "exc" and isinstance(tp.exc, E.TLSRemoteAlert):
        ctx.count("peer_saw_alert")
    elif tp.status == "exc" and isinstance(tp.exc, (E.TLSAbruptCloseError,
                                                    E.TLSLocalAlert)):
        ctx.count("peer_other:" + type(tp.exc).__name__)
    else:
        ctx.violation(dict(key, clause="peer_did_not_see_alert",
                           st=tp.status), W, "peer: %r %r" % (tp.status,
                                                              tp.exc))
    ctx.cell("cell", "conn|%s|%s|%s|alert%d" % (fam, su.cipher_kind, mut,
                                               e.description))
    ctx.count("conn_rejected")


def run_api(ctx, cid, P):
    """a forged record after some honest data, read through each of the
    reading entry points of the socket emulation (read, recv, recv_into,
    makefile): every one of them must report the integrity failure, none
    may turn it into an end of stream"""
    import socket
    import threading
    from tlslite import TLSConnection
    from vt import creds
    from vt.pair import ver_settings
    ver, api = tuple(P["ver"]), P["api"]
    a, b = socket.socketpair()
    a.settimeout(30)
    b.settimeout(30)
    res = {}

    def server():
        try:
            conn = TLSConnection(b)
            chain, key_ = creds.server("rsa")
            conn.handshakeServer(certChain=chain, privateKey=key_,
                                 settings=ver_settings(ver))
            conn.write(b"honest-data-")
            # a record nobody protected with the connection's keys
            junk = mon.keystream(cid, 48)
            b.sendall(b"\x17\x03\x03" + len(junk).to_bytes(2, "big") + junk)
            res["server"] = "ok"
            try:
                conn.read(max=10, min=1)      # the peer's alert
            except Exception as e:   # noqa
                res["server_saw"] = type(e).__name__
        except Exception as e:   # noqa
            res["server"] = repr(e)
    t = threading.Thread(target=server)
    t.daemon = True
    t.start()
    got = bytearray()
    exc = None
    c = TLSConnection(a)
    try:
        c.handshakeClientCert(settings=ver_settings(ver))
        if api == "makefile":
            f = c.makefile("rb")
            while True:
                r = f.read(12)
                if not r:
                    break
                got += r
        else:
            for _ in range(6):
                if api == "read":
                    r = c.read(max=12, min=1)
                elif api == "recv":
                    r = c.recv(12)
                else:
                    buf = bytearray(12)
                    n = c.recv_into(buf)
                    r = bytes(buf[:n]) if n else b""
                if not r:
                    break
                got += r
    except Exception as e:   # noqa
        exc = e
    try:
        a.close()
    except Exception:   # noqa
        pass
    t.join(30)
    try:
        b.close()
    except Exception:   # noqa
        pass
    ctx.ev()
    ctx.count("api_trials")
    key = {"layer": "api", "api": api,
           "fam": "tls13" if ver == (3, 4) else "le12"}
    W = {"case": cid, "got": bytes(got), "exc": repr(exc),
         "server": res}
    if res.get("server") != "ok":
        ctx.inconc("api harness server failed: %r" % (res.get("server"),))
        return
    if bytes(got) not in (b"honest-data-", b""):
        ctx.violation(dict(key, clause="tampered_data_delivered"), W,
                      "reader got %r" % bytes(got))
    elif not isinstance(exc, (E.TLSLocalAlert, E.TLSBadRecordMAC)):
        ctx.violation(dict(key, clause="tamper_not_detected",
                           status="end_of_stream" if exc is None
                           else type(exc).__name__), W,
                      "%s() after a forged record: %r (data so far %r)" % (
                          api, exc, bytes(got)))
    else:
        ctx.count("api_rejected")
    ctx.cell("cell", "api|%s|%s|%s" % (key["fam"], api,
                                      type(exc).__name__ if exc else "eof"))


def run(ctx):
    for cid, P in ctx.cases(make_cases(ctx)):
        if P["mode"] == "api":
            run_api(ctx, cid, P)
        elif P["mode"] == "rl":
            run_rl(ctx, cid, P)
        elif P["mode"] == "hs":
            run_hs_inject(ctx, cid, P)
        elif P["mode"] == "early":
            run_early(ctx, cid, P)
        else:
            run_conn(ctx, cid, P)


def finalize(m, tier):
    out = []
    c = m["counters"]
    if c.get("honest_accept", 0) == 0:
        out.append("no honest acceptance observed")
    if c.get("v:reject", 0) == 0:
        out.append("no rejection observed")
    if c.get("api_rejected", 0) < 8:
        out.append("fewer than 8 forged records reported through the "
                   "socket emulation entry points")
    if c.get("conn_rejected", 0) == 0:
        out.append("connection-level oracle never reached a rejection")
    ks = m["cells"].get("ckind", set())
    for need in ("gcm/le12", "gcm/tls13", "chacha/", "cbc/le12", "cbc/ssl3",
                 "stream/", "null/", "ccm/"):
        if not any(k.startswith(need) for k in ks):
            out.append("no record-layer case for kind " + need)
    return out
