"""C04 - tampering in flight cannot yield two endpoints that disagree."""
from vt import boot  # noqa
from vt import pair, flavours, scn, wire, mon, drive
from vt.pair import outcome, Flavor, settings

from tlslite import errors as E
from tlslite.constants import AlertDescription as AD

LEVEL = "exploration"
RULE = ("per scenario (version x key-exchange family, HRR, PSK, resumption) "
        "an honest run records the flights; then one MITM edit per run with "
        "the same DRBG seed: byte position x mask over every plaintext "
        "handshake record incl. headers (strided in quick, every byte in "
        "thorough), sampled flips of protected records, whole-record drop / "
        "duplicate / swap / insert (CCS, warning alert, empty record), and "
        "parse-edit-reserialise rewrites of ClientHello / ServerHello / HRR "
        "(versions, suites, groups, key shares, EMS, EtM, renegotiation_info, "
        "record_size_limit, ALPN, PSK binders, downgrade sentinel); plus "
        "FALLBACK_SCSV for every version pair. Oracle: both handshakes "
        "complete => identical views (secrets, exporter, parameters) and the "
        "baseline's parameters; sentinel-bearing ServerHello => client's next "
        "record is an alert; SCSV => inappropriate_fallback. "
        "Directed additions: every (client maximum, forced version) "
        "downgrade, with the sentinel written by a capable server after "
        "a ClientHello rewrite or spliced into an honest older server's "
        "hello; SCSV together with an offered session.   "
        "distinct_nontrivial = distinct (scenario, mutation class, outcome).")
ASSUMPTIONS = [
    "a removed second line of defence that Finished still covers is "
    "invisible to the outcome clauses (only the sentinel and SCSV have their "
    "own wire-order/alert clause)",
]
NONTRIVIAL = ["cell"]
DEADLINE = {"quick": 150, "thorough": 1500}

QUICK_SC = ["ssl3-rsa", "tls10-dhe_rsa", "tls11-ecdhe_rsa", "tls12-rsa",
            "tls12-ecdhe_ecdsa", "tls12-dhe_dsa", "tls12-srp",
            "tls12-srp_rsa", "tls12-dh_anon", "tls12-ecdhe_rsa-clientauth",
            "tls12-resume-id", "tls12-resume-ticket", "tls12-ecdhe_rsa-alpn",
            "tls12-tickets-issue",
            "tls13-rsa", "tls13-hrr", "tls13-psk_dhe", "tls13-resume-ticket",
            "tls13-clientauth", "default-default", "default-vs-tls12server"]

HELLO_EDITS = ["rm_supported_versions", "lower_client_version",
               "rm_tls13_suites", "rm_first_suites", "reverse_suites",
               "rm_groups_head", "rm_key_shares", "rm_ems", "rm_etm",
               "rm_reneg", "rm_rsl", "rm_alpn", "rm_sigalgs_head",
               "rm_psk_modes", "flip_binder", "obf_age", "rm_sni",
               "session_id_flip", "random_flip", "add_unknown_ext"]
SH_EDITS = ["sh_suite_next", "sh_version_lower", "sh_rm_ems", "sh_rm_etm",
            "sh_add_ems", "sh_rm_exts", "sh_random_flip", "sh_sentinel12",
            "sh_sentinel11", "sh_keyshare_flip", "sh_cookie_flip",
            "sh_sessid_flip", "sh_rm_alpn", "sh_alpn_other", "sh_rsl_change"]


def edit_client_hello(body, how):
    h = wire.parse_client_hello(body)
    ex = h.exts or []

    def rm(t):
        h.exts = [(a, b) for a, b in ex if a != t]
    if how == "rm_supported_versions":
        if wire.ext(h, 43) is None:
            return None
        rm(43)
    elif how == "lower_client_version":
        if h.version <= (3, 0):
            return None
        h.version = (3, h.version[1] - 1)
    elif how == "rm_tls13_suites":
        n = [s for s in h.suites if (s >> 8) != 0x13]
        if n == h.suites:
            return None
        h.suites = n
    elif how == "rm_first_suites":
        if len(h.suites) < 4:
            return None
        h.suites = h.suites[len(h.suites) // 2:]
    elif how == "reverse_suites":
        h.suites = list(reversed(h.suites))
    elif how == "rm_groups_head":
        d = wire.ext(h, 10)
        if d is None or len(d) < 6:
            return None
        g = d[2:]
        g = g[2:]
        h.exts = [(a, (wire.p16(len(g)) + g) if a == 10 else b)
                  for a, b in ex]
    elif how == "rm_key_shares":
        d = wire.ext(h, 51)
        if d is None or len(d) <= 2:
            return None
        h.exts = [(a, b"\x00\x00" if a == 51 else b) for a, b in ex]
    elif how in ("rm_ems", "rm_etm", "rm_reneg", "rm_rsl", "rm_alpn",
                 "rm_psk_modes", "rm_sni"):
        t = {"rm_ems": 23, "rm_etm": 22, "rm_reneg": 0xff01, "rm_rsl": 28,
             "rm_alpn": 16, "rm_psk_modes": 45, "rm_sni": 0}[how]
        if how == "rm_reneg":
            n = [s for s in h.suites if s != 0xff]
            if n == h.suites and wire.ext(h, t) is None:
                return None
            h.suites = n
            rm(t)
        else:
            if wire.ext(h, t) is None:
                return None
            rm(t)
    elif how == "rm_sigalgs_head":
        d = wire.ext(h, 13)
        if d is None or len(d) < 6:
            return None
        g = d[4:]
        h.exts = [(a, (wire.p16(len(g)) + g) if a == 13 else b)
                  for a, b in ex]
    elif how in ("flip_binder", "obf_age"):
        d = wire.ext(h, 41)
        if d is None:
            return None
        d = bytearray(d)
        if how == "flip_binder":
            d[-1] ^= 1
        else:
            il = wire.u16(d, 0)
            # identities: len(2) id... age(4)
            idl = wire.u16(d, 2)
            d[4 + idl + 3] ^= 1
        h.exts = [(a, bytes(d) if a == 41 else b) for a, b in ex]
    elif how == "session_id_flip":
        if not h.session_id:
            return None
        s = bytearray(h.session_id)
        s[0] ^= 1
        h.session_id = bytes(s)
    elif how == "random_flip":
        r = bytearray(h.random)
        r[5] ^= 0x10
        h.random = bytes(r)
    elif how == "add_unknown_ext":
        if h.exts is None:
            return None
        if h.exts and h.exts[-1][0] == 41:
            h.exts = h.exts[:-1] + [(0xfe01, b"zz")] + h.exts[-1:]
            return None   # would need binder recomputation; skip
        h.exts = list(h.exts) + [(0xfe01, b"zz")]
    else:
        raise ValueError(how)
    return wire.ser_client_hello(h)


def edit_server_hello(body, how, offered):
    h = wire.parse_server_hello(body)
    ex = h.exts or []

    def rm(t):
        h.exts = [(a, b) for a, b in ex if a != t]
    if how == "sh_suite_next":
        cands = [s for s in offered if s != h.suite and s not in (0xff,
                                                                   0x5600)]
        if not cands:
            return None
        h.suite = cands[0]
    elif how == "sh_version_lower":
        sv = wire.ext(h, 43)
        if sv is not None:
            h.exts = [(a, b"\x03\x03" if a == 43 else b) for a, b in ex]
        else:
            if h.version <= (3, 0):
                return None
            h.version = (3, h.version[1] - 1)
    elif how in ("sh_rm_ems", "sh_rm_etm", "sh_rm_alpn"):
        t = {"sh_rm_ems": 23, "sh_rm_etm": 22, "sh_rm_alpn": 16}[how]
        if wire.ext(h, t) is None:
            return None
        rm(t)
    elif how == "sh_add_ems":
        if wire.ext(h, 23) is not None or h.exts is None or h.is_hrr or \
                wire.ext(h, 43) is not None:
            return None
        h.exts = list(ex) + [(23, b"")]
    elif how == "sh_rm_exts":
        if not h.exts:
            return None
        h.exts = None
    elif how == "sh_random_flip":
        if h.is_hrr:
            return None
        r = bytearray(h.random)
        r[3] ^= 4
        h.random = bytes(r)
    elif how in ("sh_sentinel12", "sh_sentinel11"):
        if h.is_hrr:
            return None
        r = bytearray(h.random)
        r[24:] = b"DOWNGRD" + (b"\x01" if how == "sh_sentinel12" else b"\x00")
        h.random = bytes(r)
    elif how == "sh_keyshare_flip":
        d = wire.ext(h, 51)
        if d is None:
            return None
        d = bytearray(d)
        d[-1] ^= 1
        h.exts = [(a, bytes(d) if a == 51 else b) for a, b in ex]
    elif how == "sh_cookie_flip":
        d = wire.ext(h, 44)
        if d is None:
            return None
        d = bytearray(d)
        d[-1] ^= 1
        h.exts = [(a, bytes(d) if a == 44 else b) for a, b in ex]
    elif how == "sh_sessid_flip":
        if not h.session_id:
            return None
        s = bytearray(h.session_id)
        s[-1] ^= 1
        h.session_id = bytes(s)
    elif how == "sh_alpn_other":
        d = wire.ext(h, 16)
        if d is None:
            return None
        h.exts = [(a, b"\x00\x02\x01x" if a == 16 else b) for a, b in ex]
    elif how == "sh_rsl_change":
        d = wire.ext(h, 28)
        if d is None:
            return None
        h.exts = [(a, b"\x01\x00" if a == 28 else b) for a, b in ex]
    else:
        raise ValueError(how)
    return wire.ser_server_hello(h)


class Mitm(object):
    """applies exactly one edit described by `mut`"""

    def __init__(self, mut, offered=None):
        self.mut = mut
        self.applied = False
        self.held = None
        self.offered = offered or []

    def __call__(self, rec, idx):
        m = self.mut
        k = m[0]
        if k == "none":
            return None
        d, ri = m[1], m[2]
        if rec.dir != d:
            return None
        if k == "swap":
            if idx == ri:
                self.held = rec.raw
                return b""
            if idx == ri + 1 and self.held is not None:
                self.applied = True
                h, self.held = self.held, None
                return rec.raw + h
            return None
        if idx != ri:
            return None
        self.applied = True
        if k == "flip":
            b = bytearray(rec.raw)
            if m[3] >= len(b):
                self.applied = False
                return None
            b[m[3]] ^= m[4]
            return bytes(b)
        if k == "drop":
            return b""
        if k == "dup":
            return rec.raw + rec.raw
        if k == "insert":
            what = m[3]
            ver = rec.version or (3, 3)
            ins = {"ccs": wire.record(20, ver, b"\x01"),
                   "warn": wire.record(21, ver, b"\x01\x64"),
                   "empty_hs": wire.record(22, ver, b""),
                   "empty_app": wire.record(23, ver, b"")}[what]
            return ins + rec.raw
        if k in ("ch", "sh"):
            if rec.type != 22 or len(rec.body) < 4:
                self.applied = False
                return None
            t = rec.body[0]
            ln = wire.u24(rec.body, 1)
            if ln + 4 != len(rec.body) or t != (1 if k == "ch" else 2):
                self.applied = False
                return None
            try:
                if k == "ch":
                    nb = edit_client_hello(rec.body[4:], m[3])
                else:
                    nb = edit_server_hello(rec.body[4:], m[3], self.offered)
            except (IndexError, ValueError):
                nb = None
            if nb is None:
                self.applied = False
                return None
            return wire.record(22, rec.version, wire.hs_msg(t, nb))
        raise ValueError(k)


def plan_mutations(ctx, sc, base):
    """list of mutation tuples for one scenario from its honest records"""
    recs = base.p.link.records
    out = []
    per_dir = {"c2s": [], "s2c": []}
    for r in recs:
        per_dir[r.dir].append(r)
    hs_done_at = getattr(base, "c_hs_records", len(recs))
    stride = ctx.pick(37, 1)
    masks = ctx.pick([0x01, 0x80], [0x01, 0x80, 0xFF])
    rng = ctx.case_rng("plan/" + sc.name)
    for d in ("c2s", "s2c"):
        seen_ccs = False
        for i, r in enumerate(per_dir[d]):
            if r.seq >= hs_done_at:
                break
            plain = (r.type == 22 and not seen_ccs) and not \
                (sc.ver == (3, 4) and i > (1 if "hrr" in sc.tags else 0)
                 and r.type != 22)
            if r.type == 20:
                seen_ccs = True
            n = len(r.raw)
            if plain:
                off0 = rng.randrange(stride)
                for off in list(range(5)) + list(range(5 + off0, n, stride)):
                    for mk in masks:
                        out.append(("flip", d, i, off, mk))
            else:
                for off in sorted(set([0, 1, 3, 4, 5, n // 2, n - 1])):
                    if off < n:
                        out.append(("flip", d, i, off, 0x01))
            out.append(("drop", d, i))
            out.append(("dup", d, i))
            out.append(("swap", d, i))
            for what in ("ccs", "warn", "empty_hs", "empty_app"):
                out.append(("insert", d, i, what))
    for how in HELLO_EDITS:
        out.append(("ch", "c2s", 0, how))
        if "hrr" in sc.tags:
            # second ClientHello follows the client's compat CCS
            for i, r in enumerate(per_dir["c2s"][:4]):
                if i > 0 and r.type == 22:
                    out.append(("ch", "c2s", i, how))
                    break
    for how in SH_EDITS:
        out.append(("sh", "s2c", 0, how))
        if "hrr" in sc.tags:
            for i, r in enumerate(per_dir["s2c"][:4]):
                if i > 0 and r.type == 22:
                    out.append(("sh", "s2c", i, how))
                    break
    return out


def mclass(m):
    if m[0] == "flip":
        return "flip"
    if m[0] in ("ch", "sh"):
        return m[0] + ":" + m[3]
    if m[0] == "insert":
        return "insert:" + m[3]
    return m[0]


_base_cache = {}


def baseline(sc, label):
    k = (sc.name, label)
    if k not in _base_cache:
        _base_cache.clear()
        _base_cache[k] = scn.run(sc, label)
    return _base_cache[k]


def make_cases(ctx):
    # FALLBACK_SCSV
    vers = [(3, 0), (3, 1), (3, 2), (3, 3), (3, 4)]
    for cmax in vers[:-1]:
        for smax in vers:
            for scsv in (True, False):
                yield "scsv-%d-%d-%d" % (cmax[1], smax[1], scsv), dict(
                    scsv=(cmax, smax, scsv))
                # the falling-back client also offers a cached session
                for how in ("id", "ticket"):
                    yield "scsv-%d-%d-%d-%s" % (cmax[1], smax[1], scsv,
                                                how), dict(
                        scsv=(cmax, smax, scsv), sess=how)
    # downgrade protection, every (client maximum, forced version) pair:
    # "natural" = the attacker rewrites the ClientHello and a server that
    # could do better writes the sentinel itself; "spliced" = an honest
    # older server, the attacker (or a test) puts either sentinel value in
    # the ServerHello random
    for cmax in ((3, 4), (3, 3)):
        for v in ((3, 3), (3, 2), (3, 1)):
            if v >= cmax:
                continue
            for smax in ((3, 4), (3, 3)):
                if smax > v:
                    yield "dg-nat-%d-%d-%d" % (cmax[1], v[1], smax[1]), dict(
                        downgrade=["natural", cmax, v, smax])
            for byte in (0, 1):
                yield "dg-spl-%d-%d-%d" % (cmax[1], v[1], byte), dict(
                    downgrade=["spliced", cmax, v, byte])
    names = QUICK_SC if ctx.quick else [s.name for s in flavours.ALL]
    for name in names:
        sc = flavours.BY_NAME[name]
        # the plan depends on the honest transcript, which depends only on
        # (seed, scenario): computed identically in every shard
        label = "%s/C04/%s" % (ctx.seed, name)
        boot_label = label
        base = baseline(sc, boot_label)
        if not (base.c_hs and base.s_hs):
            yield "ctl-" + name, dict(sc=name, mut=("none",), label=label,
                                      control_failed=True)
            continue
        yield "ctl-" + name, dict(sc=name, mut=("none",), label=label)
        for j, m in enumerate(plan_mutations(ctx, sc, base)):
            yield "%s-%d" % (name, j), dict(sc=name, mut=m, label=label)


VIEW_KEYS = ("version", "suite", "master", "ems", "etm", "appProto",
             "cl_app_secret", "sr_app_secret", "exporterMasterSecret",
             "resumptionMasterSecret", "ems_conn", "etm_conn", "next_proto",
             "exporter", "serverName")


def run_scsv(ctx, cid, P):
    cmax, smax, scsv = P["scsv"]
    cs = settings(minVersion=(3, 0), maxVersion=tuple(cmax),
                  sendFallbackSCSV=scsv)
    ss = settings(minVersion=(3, 0), maxVersion=tuple(smax))
    sess = None
    cache = None
    if P.get("sess"):
        from tlslite.sessioncache import SessionCache
        from vt.flavours import TK, pump
        if P["sess"] == "id":
            cache = SessionCache()
        else:
            ss.ticketKeys = TK
        cs0 = settings(minVersion=(3, 0), maxVersion=tuple(cmax))
        p0 = pair.Pair()
        t0c, t0s = p0.handshake(Flavor("cert", skey="rsa", cset=cs0, sset=ss,
                                       session_cache=cache))
        if t0c.status != "done" or t0s.status != "done":
            if tuple(smax) >= tuple(cmax) or True:
                ctx.count("scsv_session_source_failed")
            return
        pump(p0, p0.c, p0.csock)
        drive.run([drive.Task("cc", drive.aclose(p0.c), p0.csock),
                   drive.Task("sc", drive.aclose(p0.s), p0.ssock)], p0.link)
        sess = p0.c.session
        if sess is None or not sess.valid():
            ctx.count("scsv_session_source_failed")
            return
    p = pair.Pair()
    tc, ts = p.handshake(Flavor("cert", skey="rsa", cset=cs, sset=ss,
                                session=sess, session_cache=cache))
    ctx.ev()
    if sess is not None:
        ctx.count("scsv_with_session")
    higher = tuple(smax) > tuple(cmax)
    W = {"case": cid, "outcome": [outcome(tc), outcome(ts)]}
    both = tc.status == "done" and ts.status == "done"
    if scsv and higher:
        if both:
            ctx.violation({"clause": "scsv_ignored"}, W,
                          "server supporting a higher version completed a "
                          "handshake carrying TLS_FALLBACK_SCSV")
        elif not (isinstance(ts.exc, E.TLSLocalAlert) and
                  ts.exc.description == AD.inappropriate_fallback):
            ctx.violation({"clause": "scsv_wrong_alert",
                           "got": str(outcome(ts))}, W, "%r" % (ts.exc,))
        else:
            ctx.count("scsv_rejected")
    else:
        if not both:
            ctx.violation({"clause": "scsv_false_reject", "scsv": scsv}, W,
                          "honest handshake failed: %r %r" % (tc.exc, ts.exc))
        else:
            ctx.count("scsv_ok")
    ctx.cell("cell", "scsv|%s|%s|%s|%s" % (cmax, smax, scsv, both))


def run_downgrade(ctx, cid, P):
    how, cmax, v, x = P["downgrade"]
    cmax, v = tuple(cmax), tuple(v)
    st = {"applied": False}

    def hello_edit(rec, idx):
        if rec.type != 22 or len(rec.body) < 4 or st["applied"]:
            return None
        if how == "natural" and rec.dir == "c2s" and rec.body[0] == 1:
            h = wire.parse_client_hello(rec.body[4:])
            h.version = min(v, h.version)
            h.exts = [(a, b) for a, b in (h.exts or []) if a != 43]
            st["applied"] = True
            return wire.record(22, rec.version,
                               wire.hs_msg(1, wire.ser_client_hello(h)))
        if how == "spliced" and rec.dir == "s2c" and rec.body[0] == 2:
            b = bytearray(rec.raw)
            # record header 5 + handshake header 4 + version 2 + 24
            b[5 + 4 + 2 + 24:5 + 4 + 2 + 32] = b"DOWNGRD" + bytes([x])
            st["applied"] = True
            return bytes(b)
        return None
    smax = tuple(x) if how == "natural" else v
    cs = settings(minVersion=(3, 0), maxVersion=cmax)
    ss = settings(minVersion=(3, 0), maxVersion=smax)
    p = pair.Pair(mitm=hello_edit)
    tc, ts = p.handshake(Flavor("cert", skey="rsa", cset=cs, sset=ss))
    ctx.ev()
    ctx.count("downgrade_runs")
    W = {"case": cid, "params": P["downgrade"],
         "outcome": [outcome(tc), outcome(ts)]}
    key = {"downgrade": how, "client_max": pair.VNAME[cmax],
           "forced": pair.VNAME[v]}
    if not st["applied"]:
        ctx.inconc("downgrade edit not applied in %s" % cid)
        return
    recs = p.link.records
    sh = [r for r in recs if r.dir == "s2c" and r.type == 22 and
          r.body[:1] == b"\x02"]
    if not sh:
        ctx.count("downgrade_no_server_hello")
        return
    rnd = bytes(sh[0].body[4 + 2:4 + 2 + 32])
    shver = (sh[0].body[4], sh[0].body[5])
    if how == "natural":
        # RFC 8446 4.1.3: what a 1.3 / 1.2 server writes when it negotiates
        # less than it could
        want = None
        if smax == (3, 4) and shver <= (3, 3):
            want = b"DOWNGRD\x01" if shver == (3, 3) else b"DOWNGRD\x00"
        elif smax == (3, 3) and shver <= (3, 2):
            want = b"DOWNGRD\x00"
        if want is not None and rnd[24:] != want:
            ctx.violation(dict(key, clause="sentinel_not_written",
                               server_max=pair.VNAME[smax]), W,
                          "server (max %s) negotiated %s with random tail "
                          "%r" % (pair.VNAME[smax], pair.VNAME.get(shver),
                                  rnd[24:]))
            return
        ctx.count("sentinel_written")
    # must the client refuse?  a 1.3 client: either value below 1.3;
    # a 1.2 client: the 1.1 value below 1.2 (RFC 8446 4.1.3)
    tail = rnd[24:] if how == "natural" else b"DOWNGRD" + bytes([x])
    must = (cmax == (3, 4) and shver <= (3, 3) and
            tail in (b"DOWNGRD\x00", b"DOWNGRD\x01")) or \
        (cmax == (3, 3) and shver <= (3, 2) and tail == b"DOWNGRD\x00")
    if not must:
        ctx.count("downgrade_not_judged")
        return
    ctx.count("sentinel_seen_by_higher_client")
    nxt = [r for r in recs if r.dir == "c2s" and r.seq > sh[0].seq]
    if tc.status == "done":
        ctx.violation(dict(key, clause="sentinel_ignored"), W,
                      "client completed after a sentinel-bearing ServerHello")
    elif not nxt or nxt[0].type != 21:
        ctx.violation(dict(key, clause="sentinel_wire_order",
                           got=str(nxt[0].type if nxt else None)), W,
                      "a client able to do %s was answered %s with %r: its "
                      "next record is %s, not an alert (it went on with the "
                      "key exchange)" % (pair.VNAME[cmax], pair.VNAME[shver],
                                         tail, nxt[0].type if nxt else None))
    else:
        ctx.count("sentinel_rejected")
    ctx.cell("cell", "downgrade|%s|%s|%s|%s" % (how, cmax, v, x))


def run_case(ctx, cid, P):
    if "scsv" in P:
        return run_scsv(ctx, cid, P)
    if "downgrade" in P:
        return run_downgrade(ctx, cid, P)
    sc = flavours.BY_NAME[P["sc"]]
    label = P["label"]
    base = baseline(sc, label)
    if P.get("control_failed") or not (base.c_hs and base.s_hs):
        ctx.inconc("honest control failed for scenario %s: %r %r" % (
            sc.name, base.tc.exc, base.ts.exc))
        return
    m = tuple(P["mut"])
    if m[0] == "none":
        # control: deterministic replay gives the same views
        r2 = scn.run(sc, label)
        if not (r2.c_hs and r2.s_hs) or r2.c_view != base.c_view:
            ctx.inconc("replay of %s is not deterministic" % sc.name)
        if base.c_data is None or base.s_data is None:
            ctx.inconc("control data exchange failed in %s" % sc.name)
        for k in VIEW_KEYS:
            if base.c_view.get(k) != base.s_view.get(k):
                ctx.violation({"clause": "honest_view_mismatch", "field": k,
                               "sc": sc.name}, {"case": cid}, "")
        ctx.count("controls")
        ctx.ev()
        return
    offered = []
    try:
        ch = wire.plain_handshake(base.p.link.records, "c2s")
        offered = wire.parse_client_hello(ch[0][1]).suites
    except Exception:   # noqa
        pass
    mitm = Mitm(m, offered)
    r = scn.run(sc, label, mitm=mitm)
    if not mitm.applied:
        ctx.count("not_applicable")
        return
    ctx.ev()
    ctx.count("runs")
    mc = mclass(m)
    W = {"case": cid, "scenario": sc.name, "mutation": list(m),
         "outcome": [outcome(r.tc), outcome(r.ts)],
         "hs": [r.c_hs, r.s_hs]}
    key = {"mclass": mc, "fam": "tls13" if sc.ver == (3, 4) else "le12"}
    if r.c_hs and r.s_hs:
        diff = [k for k in VIEW_KEYS
                if r.c_view.get(k) != r.s_view.get(k)]
        if diff:
            ctx.violation(dict(key, clause="both_complete_views_differ",
                               field=diff[0]), dict(W, diff=diff),
                          "both completed with different %s" % diff)
            return
        bdiff = [k for k in ("version", "suite", "ems", "etm", "appProto")
                 if r.c_view.get(k) != base.c_view.get(k)]
        if bdiff:
            ctx.violation(dict(key, clause="both_complete_not_baseline",
                               field=bdiff[0]), dict(W, diff=bdiff,
                                                     got=[r.c_view.get(k) for k in bdiff],
                                                     base=[base.c_view.get(k) for k in bdiff]),
                          "MITM changed negotiated %s and both completed" %
                          bdiff)
            return
        # what the handshake handed over must be what the peer sent: the
        # <= 1.2 session ticket the client now holds is one the server issued
        if sc.ver < (3, 4) and r.p.c.session is not None:
            issued = []
            for t, body in wire.plain_handshake(r.p.link.records, "s2c"):
                if t == 4 and len(body) >= 6:
                    issued.append(bytes(body[6:]))
            held = [bytes(t.ticket) for t in
                    (r.p.c.session.tls_1_0_tickets or [])
                    if getattr(t, "ticket", None) is not None]
            if issued:
                ctx.count("tickets_compared")
            if issued and held and held[-1] not in issued:
                ctx.violation(dict(key, clause="both_complete_views_differ",
                                   field="session_ticket"),
                              dict(W, held=held[-1][:80],
                                   issued=issued[-1][:80]),
                              "both completed; the client stored a session "
                              "ticket the server did not issue")
                return
        out = "both_complete_harmless"
        ctx.count("harmless")
        rt = [x for x in base.p.link.records if x.dir == m[1]][m[2]].type
        ctx.cell("harmless", "%s|%s" % (sc.name, (mc + "@%s/rec%d/type%d" % (
            m[1], m[2], rt)) if m[0] != "flip" else
            "flip@rec%d/%s/type%d/off%s" % (
                m[2], m[1], rt, ("hdr%d" % m[3]) if m[3] < 5 else "body")))
    elif r.c_hs or r.s_hs:
        out = "one_complete"
        ctx.count("one_complete")
    else:
        out = "both_fail"
        ctx.count("both_fail")
    # nobody may fail with an undocumented exception or hang (reported
    # here by mechanism; C08 hunts these systematically)
    for who, t in (("client", r.tc), ("server", r.ts)):
        if t.status == "exc" and mon.classify_exc(t.exc).startswith(
                "undocumented"):
            ctx.violation(dict(key, clause="undocumented_exception",
                               role=who, exc=type(t.exc).__name__,
                               frame=t.frame()), W, repr(t.exc))
        if t.status == "budget":
            ctx.violation(dict(key, clause="spin", role=who), W, "budget")
    # sentinel clause
    if m[0] == "sh" and m[3] in ("sh_sentinel12", "sh_sentinel11"):
        judge_sentinel(ctx, sc, m, r, key, W)
    if m[0] == "ch" and m[3] == "rm_supported_versions" and \
            sc.name == "default-default":
        # 1.3-capable server now negotiates 1.2 and must write the sentinel;
        # the 1.3-capable client must answer with an alert
        judge_sentinel(ctx, sc, m, r, key, W, natural=True)
    ctx.cell("cell", "%s|%s|%s" % (sc.name, mc, out))


def judge_sentinel(ctx, sc, m, r, key, W, natural=False):
    recs = r.p.link.records
    sh_seq = None
    sent = False
    for rec in recs:
        if rec.dir == "s2c" and rec.type == 22 and rec.body[:1] == b"\x02":
            sh_seq = rec.seq
            try:
                sh = wire.parse_server_hello(rec.body[4:])
                sent = bytes(sh.random[24:31]) == b"DOWNGRD"
            except Exception:   # noqa
                pass
            break
    if natural:
        ctx.ev()
        if not sent:
            ctx.violation(dict(key, clause="sentinel_not_written"), W,
                          "1.3-capable server negotiated a lower version "
                          "without the downgrade sentinel")
            return
        ctx.count("sentinel_written")
    # does the client support a higher version than negotiated?
    client_max_13 = sc.name.startswith("default") or sc.ver == (3, 4)
    if not client_max_13 and not natural:
        ctx.count("sentinel_not_relevant")
        return
    if sc.ver == (3, 4) and not natural:
        return     # ServerHello already selects 1.3: sentinel not meaningful
    nxt = [x for x in recs if x.dir == "c2s" and sh_seq is not None and
           x.seq > sh_seq]
    ctx.ev()
    ctx.count("sentinel_seen_by_higher_client")
    if r.c_hs:
        ctx.violation(dict(key, clause="sentinel_ignored"), W,
                      "client completed after sentinel-bearing ServerHello")
    elif nxt and nxt[0].type != 21:
        ctx.violation(dict(key, clause="sentinel_wire_order"), W,
                      "client's next record after the sentinel ServerHello "
                      "is type %d, not an alert" % nxt[0].type)
    elif not nxt:
        ctx.violation(dict(key, clause="sentinel_no_alert"), W,
                      "client sent nothing after sentinel ServerHello")
    else:
        ctx.count("sentinel_rejected")


def run(ctx):
    for cid, P in ctx.cases(make_cases(ctx)):
        run_case(ctx, cid, P)


def finalize(m, tier):
    out = []
    c = m["counters"]
    if c.get("controls", 0) < 10:
        out.append("fewer than 10 scenario controls ran")
    if c.get("both_fail", 0) + c.get("one_complete", 0) == 0:
        out.append("no tampered run failed: MITM not effective")
    if c.get("scsv_rejected", 0) == 0:
        out.append("SCSV oracle never fired")
    if c.get("sentinel_seen_by_higher_client", 0) == 0:
        out.append("no sentinel-bearing ServerHello reached a higher-capable "
                   "client")
    return out
