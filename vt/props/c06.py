"""C06 - handshake messages are accepted only in the permitted order."""
import re

from vt import boot  # noqa
from vt import pair, flavours, scn, wire, mon, drive, adv
from vt.pair import outcome

from tlslite import errors as E

LEVEL = "exploration"
RULE = ("per (scenario, victim role): the peer is a key-holding deviant "
        "endpoint that skips (consistently: also absent from its own "
        "transcript), duplicates, swaps, moves, inserts or replaces its own "
        "handshake / ChangeCipherSpec messages (edit distance 1 in quick, "
        "<= 2 in thorough), so deviations reach the protected phases of every "
        "version; the emitted token sequence is judged by an explicit grammar "
        "written from RFC 5246 / 8446 per (role, version family, key "
        "exchange, options); oracle on the victim: handshake completes only "
        "if the received sequence is in the language; out-of-language => no "
        "completion, no application data delivered, failure is a fatal alert "
        "(or the victim is still waiting for a mandatory message). Also: "
        "Deviations also include: a message straddling a key change, "
        "messages appended after the handshake, extra messages kept out "
        "of the deviant's own transcript (repeated hello, ticket, "
        "HelloRequest), a *protected* ChangeCipherSpec, a "
        "no_certificate warning in place of a message; the first "
        "message after which the sequence cannot be completed legally "
        "must be answered by the victim's own alert, readable by the "
        "peer.   "
        "renegotiation attempts after completion. distinct_nontrivial = "
        "distinct (scenario, role, deviation, verdict) cells + distinct "
        "received sequences.")
ASSUMPTIONS = [
    "deviations are applied by wrapping the *adversary* endpoint's send "
    "functions; the victim is pristine repository code",
    "a skipped final message leaves the victim legitimately waiting",
]
NONTRIVIAL = ["cell", "sequence"]
DEADLINE = {"quick": 150, "thorough": 1200}

QUICK_SC = ["ssl3-rsa", "tls10-dhe_rsa", "tls11-ecdhe_ecdsa", "tls12-rsa",
            "tls12-ecdhe_rsa-clientauth", "tls12-rsa-clientauth-ecdsa",
            "tls12-dhe_dsa", "tls12-srp", "tls12-srp_rsa", "tls12-dh_anon",
            "tls10-ecdh_anon", "tls10-ecdhe_rsa-clientauth",
            "tls10-rsa-reqcert-nocert", "tls12-rsa-reqcert-nocert",
            "ssl3-rsa-reqcert-nocert",
            "tls12-resume-id", "tls12-resume-ticket", "tls12-ecdhe_rsa-npn",
            "tls12-tickets-issue", "tls13-rsa", "tls13-hrr", "tls13-psk_dhe",
            "tls13-resume-ticket", "tls13-clientauth", "tls13-alpn-tickets"]

NAMES = dict(wire.HS)


def tname(t):
    return t if isinstance(t, str) else NAMES.get(t, "hs%d" % t)


# ------------------------------------------------------------ grammar
# tokens are joined with spaces; regexes written from the RFCs.
def grammar(role_sender, ver, tags, kind):
    """language of what `role_sender` may send in a handshake of this
    (version family, key exchange, options), as a compiled regex"""
    t13 = ver == (3, 4)
    if role_sender == "server":
        if t13:
            ccs = "(ccs )*"
            auth = "(CertificateRequest )?(Certificate|CompressedCertificate) " \
                   "CertificateVerify "
            body = "EncryptedExtensions (%s)?Finished" % auth
            g = "(ServerHello %s)?ServerHello %s%s( NewSessionTicket)*" % (
                ccs, ccs, body)
        else:
            full = "ServerHello (Certificate )?(CertificateStatus )?" \
                   "(ServerKeyExchange )?(CertificateRequest )?" \
                   "ServerHelloDone (NewSessionTicket )?ccs Finished"
            abbr = "ServerHello (NewSessionTicket )?ccs Finished"
            g = "(HelloRequest )*(%s|%s)" % (full, abbr)
    else:
        if t13:
            ccs = "(ccs )*"
            g = "ClientHello (%sClientHello )?%s((Certificate|" \
                "CompressedCertificate) (CertificateVerify )?)?Finished" % (
                    ccs, ccs)
        else:
            full = "ClientHello (Certificate )?ClientKeyExchange " \
                   "(CertificateVerify )?ccs (NextProtocol )?Finished"
            abbr = "ClientHello ccs (NextProtocol )?Finished"
            g = "(%s|%s)" % (full, abbr)
    return re.compile("^" + g + "$")


LEGAL_POST = {True: {"NewSessionTicket", "KeyUpdate", "app"},
              False: {"HelloRequest", "app"}}


def _norm(x, ver, sender):
    out = [tname(t) for t in x]
    if ver == (3, 4):
        # RFC 8446 section 5: CCS may arrive at any time before Finished
        out = [t for t in out if t != "ccs"]
    else:
        out = [t for t in out if t != "HelloRequest"]
    return out


def _complete(seq, honest, sender, ver):
    """is `seq` (tokens) exactly one complete legal handshake flight set
    for this scenario, from the receiver's point of view?"""
    return _norm(seq, ver, sender) in variants(honest, sender, ver)


def split_language(seq, honest, sender, ver):
    """-> (k, post) where seq[:k] is the shortest complete legal handshake
    and post the tokens after it; (None, None) if no prefix is legal"""
    names = [tname(t) for t in seq]
    for k in range(1, len(seq) + 1):
        if names[k - 1] != "Finished":
            continue
        if _complete(seq[:k], honest, sender, ver):
            return k, names[k:]
    return None, None


def variants(honest, sender, ver):
    """normalised complete sequences the receiver may accept in place of
    the honest one"""
    h = _norm(honest, ver, sender)
    while h and h[-1] == "NewSessionTicket" and ver == (3, 4):
        h.pop()
    out = [h]
    if sender == "server":
        # CertificateRequest is the server's free choice wherever it
        # authenticates with a certificate (not anon, not PSK; tlslite also
        # refuses it for SRP suites, which is recorded, not required)
        out.append([t for t in h if t != "CertificateRequest"])
        if "CertificateRequest" not in h and "ServerKeyExchange(srp)" not in h:
            for anchor, before in (("ServerHelloDone", True),
                                   ("EncryptedExtensions", False)):
                if anchor in h and ("Certificate" in h or
                                    "CompressedCertificate" in h):
                    i = h.index(anchor) + (0 if before else 1)
                    out.append(h[:i] + ["CertificateRequest"] + h[i:])
    else:
        e = [t for t in h if t != "CertificateVerify"]
        e = [("Certificate(empty)" if t in ("Certificate",
                                            "CompressedCertificate") else t)
             for t in e]
        out.append(e)
    return out


def first_offending(seq, honest, sender, ver):
    """index (into seq) of the first message after which the received
    sequence can no longer be extended to a legal one; None if every prefix
    is still viable (the receiver may legitimately be waiting)"""
    vs = variants(honest, sender, ver)
    idx = []
    n = []
    for i, t in enumerate(seq):
        x = _norm([t], ver, sender)
        if x:
            idx.append(i)
            n.append(x[0])
    for k in range(1, len(n) + 1):
        if not any(v[:k] == n[:k] for v in vs):
            return idx[k - 1]
    return None


def in_language(seq, honest, role_sender, ver, tags, kind):
    k, post = split_language(seq, honest, role_sender, ver)
    return k is not None


# ------------------------------------------------------------ deviations
INSERTS = {
    "HelloRequest": (22, wire.hs_msg(0, b"")),
    "ServerHelloDone": (22, wire.hs_msg(14, b"")),
    "Finished12": (22, wire.hs_msg(20, b"\x00" * 12)),
    "Finished32": (22, wire.hs_msg(20, b"\x00" * 32)),
    "KeyUpdate": (22, wire.hs_msg(24, b"\x00")),
    "NewSessionTicket13": (22, wire.hs_msg(
        4, b"\x00\x00\x0e\x10" + b"\x00\x00\x00\x00" + b"\x01\x00" +
        b"\x00\x04abcd" + b"\x00\x00")),
    "NewSessionTicket12": (22, wire.hs_msg(4, b"\x00\x00\x0e\x10\x00\x04abcd")),
    # the SSLv3 way of declining client authentication: not a substitute
    # for the Certificate message from TLS 1.0 on
    "warn_no_certificate": (21, b"\x01\x29"),
    "ccs": (20, b"\x01"),
    # RFC 8446 5: a *protected* change_cipher_spec record must be refused
    "ccs_protected": (20, b"\x01"),
    "EmptyCertificate": (22, wire.hs_msg(11, b"\x00\x00\x00")),
    "EmptyCertificate13": (22, wire.hs_msg(11, b"\x00\x00\x00\x00")),
    "CertificateRequest12": (22, wire.hs_msg(
        13, b"\x01\x01\x00\x02\x04\x01\x00\x00")),
    "CertificateRequest10": (22, wire.hs_msg(13, b"\x01\x01\x00\x00")),
    "appdata": (23, b"early data"),
    "appdata_empty": (23, b""),
    # a heartbeat request although the extension was not negotiated (the
    # deviant's own settings have it switched off for this run)
    "heartbeat": (24, b"\x01\x00\x04abcd" + b"\x00" * 16),
    "EndOfEarlyData": (22, wire.hs_msg(5, b"")),
}


TOKNAME = {"CertificateRequest10": "CertificateRequest",
           "CertificateRequest12": "CertificateRequest",
           "NewSessionTicket12": "NewSessionTicket", "NewSessionTicket13": "NewSessionTicket",
           "EmptyCertificate": "Certificate(empty)",
           "EmptyCertificate13": "Certificate(empty)",
           "appdata": "app", "appdata_empty": "app", "heartbeat": "hb",
           "ccs_protected": "ccs(protected)",
           "warn_no_certificate": "alert(no_certificate)",
           "Finished12": "Finished(bad)",
           "Finished32": "Finished(bad)"}


def deviations(n, thorough, ver=None):
    """single deviations over a trace of n adversary messages"""
    out = []
    for i in range(n):
        if ver is not None and ver > (3, 0):
            out.append(("replace", i, "warn_no_certificate"))
        out.append(("skip", i))
        out.append(("dup", i))
        if i + 1 < n:
            out.append(("swap", i))
        for name in INSERTS:
            if name != "warn_no_certificate":
                out.append(("insert", i, name))
        for name in ("HelloRequest", "ServerHelloDone", "Finished12",
                     "KeyUpdate", "EmptyCertificate"):
            out.append(("replace", i, name))
        # extra messages that the deviant keeps out of its *own* transcript:
        # if the victim drops them silently everything else still verifies
        # (a repetition of the deviant's hello, a ticket, a HelloRequest)
        if i > 0:
            for name in ("OwnHello", "HelloRequest", "NewSessionTicket12"):
                out.append(("insert_quiet", i, name))
        out.append(("straddle", i))
        if i == n - 1:
            # after the adversary's last handshake message, i.e. once the
            # handshake is over (sent just before its first application data)
            for name in ("ccs", "HelloRequest", "Finished32", "ServerHelloDone",
                         "EmptyCertificate13", "appdata_empty"):
                out.append(("append", i, name))
        if thorough:
            for j in range(n):
                if j not in (i, i + 1) and abs(i - j) <= 4:
                    out.append(("move", i, j))
    return out


KU = wire.hs_msg(24, b"\x00")


class Rewriter(object):
    def __init__(self, devs, hon_log=None):
        self.devs = devs
        self.held = {}
        self.hon_log = hon_log or []
        self.dev = None        # the adv.Deviant, set by run_dev
        self.appended = None

    def __call__(self, i, t, msg, raw):
        out = [msg]
        touched = False
        for d in self.devs:
            k = d[0]
            if k == "skip" and d[1] == i:
                out = []
                touched = True
            elif k == "dup" and d[1] == i:
                out = [msg, adv.Raw(msg.contentType, raw)]
                touched = True
            elif k == "swap":
                if d[1] == i:
                    self.held["swap"] = adv.Raw(msg.contentType, raw)
                    out = []
                    touched = True
                elif d[1] + 1 == i and "swap" in self.held:
                    out = out + [self.held.pop("swap")]
                    touched = True
            elif k == "move":
                if d[1] == i:
                    self.held["move"] = adv.Raw(msg.contentType, raw)
                    out = []
                    touched = True
                elif d[2] == i and "move" in self.held:
                    out = [self.held.pop("move")] + out
                    touched = True
            elif k == "straddle":
                # RFC 8446 5.1: a handshake message must not span a key
                # change.  The first two bytes of the following message
                # travel in the same record as message i (old keys), the
                # rest under the new keys.  The byte stream, hence the
                # transcript, is unchanged.
                if d[1] == i:
                    if i + 1 < len(self.hon_log):
                        pre = self.hon_log[i + 1][2][:2]
                    else:
                        pre = KU[:2]
                        self.dev.after.append(adv.Raw(22, KU[2:],
                                                      "frag+KeyUpdate"))
                    self.held["straddle"] = pre
                    out = [adv.Raw(msg.contentType, raw + pre,
                                   tname(t) + "+frag")]
                    touched = True
                elif d[1] + 1 == i and "straddle" in self.held:
                    pre = self.held.pop("straddle")
                    if raw[:2] == pre and msg.contentType == 22:
                        out = [adv.Raw(22, raw[2:], "frag+" + tname(t))]
                    else:
                        out = [adv.Raw(22, b"", "frag-mismatch")]
                    touched = True
            elif k == "append" and d[1] == i:
                ct, b = INSERTS[d[2]]
                self.dev.after.append(adv.Raw(ct, b, TOKNAME.get(d[2])))
                self.appended = TOKNAME.get(d[2], d[2])
                out = [msg]
                touched = True
            elif k == "insert" and d[1] == i:
                ct, b = INSERTS[d[2]]
                m = adv.Raw(ct, b, TOKNAME.get(d[2]))
                if d[2] == "ccs_protected":
                    rl = self.dev.conn._recordLayer
                    if not (rl._is_tls13_plus() and rl._writeState and
                            rl._writeState.encContext):
                        continue      # nothing to protect it with yet
                    m.force_inner = 20
                out = [m] + out
                touched = True
            elif k == "insert_quiet" and d[1] == i:
                if d[2] == "OwnHello":
                    ct, b = 22, self.hon_log[0][2]
                else:
                    ct, b = INSERTS[d[2]]
                m = adv.Raw(ct, b, TOKNAME.get(d[2]))
                m.nohash = True
                out = [m] + out
                touched = True
            elif k == "replace" and d[1] == i:
                ct, b = INSERTS[d[2]]
                out = [adv.Raw(ct, b, TOKNAME.get(d[2]))]
                touched = True
        return out if touched else None


def run_dev(sc, label, role, devs, hon_log=None):
    """role: who deviates.  returns (R, Deviant)"""
    holder = {}

    def tweak(p, fl):
        conn = p.c if role == "client" else p.s
        # writes into the void succeed here: what the deviant peer *reads*
        # after the victim's alert is part of the observation
        p.link.peer_gone_errno = None
        if devs and any(x[0] in ("insert", "replace") and x[2] == "heartbeat"
                        for x in devs):
            from tlslite.handshakesettings import HandshakeSettings
            if role == "client":
                fl.cset = fl.cset or HandshakeSettings()
                fl.cset.use_heartbeat_extension = False
            else:
                fl.sset = fl.sset or HandshakeSettings()
                fl.sset.use_heartbeat_extension = False
        rw = Rewriter(devs, hon_log) if devs else None
        holder["d"] = adv.Deviant(conn, rw)
        if rw is not None:
            rw.dev = holder["d"]
    R = scn.run(sc, label, tweak=tweak, max_steps=20000)
    return R, holder["d"]


_cache = {}


def honest(sc, label, role):
    k = (sc.name, label, role)
    if k not in _cache:
        _cache.clear()
        _cache[k] = run_dev(sc, label, role, None)
    return _cache[k]


def hs_len(R, d, role):
    """number of adversary messages that belong to the handshake"""
    return len(d.log)


def make_cases(ctx):
    names = QUICK_SC if ctx.quick else [s.name for s in flavours.ALL]
    rng = ctx.case_rng("plan")
    for name in names:
        sc = flavours.BY_NAME[name]
        for role in ("client", "server"):
            label = "%s/C06/%s/%s" % (ctx.seed, name, role)
            R, d = honest(sc, label, role)
            yield "ctl-%s-%s" % (name, role), dict(sc=name, role=role,
                                                   label=label, ctl=True)
            if not (R.c_hs and R.s_hs):
                continue
            n = len([x for x in d.log])
            devs = deviations(n, not ctx.quick, sc.ver)
            toks = [tname(t) for (_, t, _) in d.log]

            def keychange(i):
                # messages after which the sender switches keys (TLS 1.3)
                if sc.ver != (3, 4):
                    return False
                if toks[i] == "Finished":
                    return True
                return toks[i] == "ServerHello" and \
                    "ServerHello" not in toks[i + 1:]
            devs = [x for x in devs if x[0] != "straddle" or keychange(x[1])]
            if ctx.quick:
                rng.shuffle(devs)

                def always(x):
                    if x[0] in ("skip", "dup", "swap", "straddle", "append"):
                        return True
                    if x[0] == "insert" and x[2] == "ccs_protected":
                        return True
                    if x[0] == "insert_quiet" and x[2] == "OwnHello":
                        return True
                    if x[0] == "replace" and x[2] == "warn_no_certificate" \
                            and toks[x[1]].startswith("Certificate"):
                        return True
                    # an unsolicited CertificateRequest where the key
                    # exchange has no place for one
                    if x[0] == "insert" and x[2] == "heartbeat" and \
                            x[1] in (1, len(toks) - 1):
                        return True
                    return x[0] == "insert" and x[2] == (
                        "CertificateRequest12" if sc.ver >= (3, 3) else
                        "CertificateRequest10") \
                        and toks[x[1]] == "ServerHelloDone" \
                        and "CertificateRequest" not in toks
                keep = [x for x in devs if always(x)]
                rest = [x for x in devs if not always(x)]
                devs = keep + rest[:18]
            for j, dv in enumerate(devs):
                yield "%s-%s-%d" % (name, role, j), dict(
                    sc=name, role=role, label=label, devs=[dv])
            if not ctx.quick:
                # distance 2: random pairs
                for j in range(60):
                    a, b = rng.choice(devs), rng.choice(devs)
                    if a != b:
                        yield "%s-%s-p%d" % (name, role, j), dict(
                            sc=name, role=role, label=label, devs=[a, b])
            for kind in ("reneg_hello", "second_handshake_call"):
                yield "%s-%s-%s" % (name, role, kind), dict(
                    sc=name, role=role, label=label, post=kind)


def run_post(ctx, cid, P, sc):
    """renegotiation attempts after a completed handshake"""
    role = P["role"]            # who attempts
    label = P["label"]
    boot.install_vclock(1_800_000_000.0)
    boot.drbg.reseed(label + "/prep")
    st = sc.prepare()
    boot.drbg.reseed(label + "/main")
    p = pair.Pair()
    fl = sc.flavor(st)
    tc, ts = p.handshake(fl)
    if tc.status != "done" or ts.status != "done":
        ctx.inconc("control failed in %s" % cid)
        return
    att = p.c if role == "client" else p.s
    vic = p.s if role == "client" else p.c
    asock = p.csock if role == "client" else p.ssock
    vsock = p.ssock if role == "client" else p.csock
    vdir = "s2c" if role == "client" else "c2s"
    vsess = vic.session
    vrole = "server" if role == "client" else "client"
    key = {"clause": None, "victim": vrole,
           "fam": "tls13" if sc.ver == (3, 4) else "le12", "post": P["post"]}
    W = {"case": cid, "scenario": sc.name}
    ctx.ev()
    if P["post"] == "second_handshake_call":
        n0 = len(p.link.records)
        try:
            g = fl.client_gen(vic) if vrole == "client" else \
                fl.server_gen(vic)
            t = drive.Task("again", g, vsock)
            drive.run([t], p.link, max_steps=2000)
            res = t.status, type(t.exc).__name__ if t.exc else None
        except Exception as e:   # noqa
            res = ("exc", type(e).__name__)
        sent = [r for r in p.link.records[n0:] if r.dir == vdir]
        if res[0] == "done" or (sent and res[1] != "ValueError"):
            ctx.violation(dict(key, clause="second_handshake_started"),
                          dict(W, res=res, sent=[r.brief() for r in sent]),
                          "handshake call on an open connection was not "
                          "refused: %r" % (res,))
        elif vic.session is not vsess and vic.session is not None and \
                not vic.closed:
            ctx.violation(dict(key, clause="session_replaced"), W, "")
        else:
            ctx.count("second_call_refused")
        ctx.cell("cell", "%s|%s|second_call|%s" % (sc.name, vrole, res))
        return
    # the attacker sends a hello under the connection's keys
    hello = wire.hs_msg(1, b"\x03\x03" + b"\x11" * 32 + b"\x00" +
                        b"\x00\x02\x00\x2f\x01\x00") if role == "client" \
        else wire.hs_msg(0, b"")
    n0 = len(p.link.recs(vdir))
    t1 = drive.Task("att", att._sendMsg(adv.Raw(22, hello)), asock)
    drive.run([t1], p.link)
    t2 = drive.Task("vic", drive.aread(vic, None, 1), vsock)
    t3 = drive.Task("att2", drive.awrite(att, b"data-after-reneg"), asock)
    drive.run([t2, t3], p.link, max_steps=5000)
    newrecs = p.link.recs(vdir)[n0:]
    W["victim_records"] = [r.brief() for r in newrecs]
    W["read"] = (t2.status, repr(t2.exc), repr(t2.result)[:60])
    # a second handshake would make the victim emit a hello flight: in the
    # plaintext-visible case type 22 records; under encryption more than
    # one record.  A refusal is one alert record (or none).
    if vic.session is not vsess and not vic.closed:
        ctx.violation(dict(key, clause="session_replaced"), W,
                      "session object changed after renegotiation attempt")
    if len(newrecs) > 1:
        ctx.violation(dict(key, clause="renegotiation_flight"), W,
                      "victim emitted %d records in response to a "
                      "renegotiation attempt" % len(newrecs))
    if t2.status == "exc" and mon.classify_exc(t2.exc).startswith(
            "undocumented"):
        ctx.violation(dict(key, clause="undocumented_exception",
                           exc=type(t2.exc).__name__, frame=t2.frame()), W,
                      repr(t2.exc))
    if t2.status == "done" and t2.result == b"data-after-reneg":
        ctx.count("reneg_refused_connection_continues")
    elif t2.status == "exc":
        ctx.count("reneg_refused_with_" + mon.classify_exc(t2.exc))
    ctx.cell("cell", "%s|%s|reneg|%s|%d" % (sc.name, vrole, t2.status,
                                           len(newrecs)))


def run_case(ctx, cid, P):
    sc = flavours.BY_NAME[P["sc"]]
    role = P["role"]
    if "post" in P:
        return run_post(ctx, cid, P, sc)
    label = P["label"]
    R0, d0 = honest(sc, label, role)
    vrole = "server" if role == "client" else "client"
    hon_seq = [t for (_, t, _) in d0.log]
    kind = None
    if P.get("ctl"):
        ctx.ev()
        if not (R0.c_hs and R0.s_hs):
            ctx.inconc("honest control failed: %s/%s" % (sc.name, role))
            return
        if not in_language(hon_seq, hon_seq, role, sc.ver, sc.tags, kind):
            ctx.inconc("grammar rejects the honest trace of %s/%s: %s" % (
                sc.name, role, " ".join(tname(t) for t in hon_seq)))
            return
        ctx.count("controls")
        ctx.cell("sequence", "%s:%s" % (role, " ".join(tname(t)
                                                       for t in hon_seq)))
        return
    if not (R0.c_hs and R0.s_hs):
        return
    devs = [tuple(x) for x in P["devs"]]
    R, d = run_dev(sc, label, role, devs, d0.log)
    if not d.applied:
        ctx.count("not_applied")
        return
    ctx.ev()
    ctx.count("runs")
    seq = list(d.emitted)
    if d.rewrite is not None and getattr(d.rewrite, "appended", None) and \
            not d.after:
        seq.append(d.rewrite.appended)     # it went out after the handshake
    k, post = split_language(seq, hon_seq, role, sc.ver)
    legal = k is not None
    vt = R.ts if role == "client" else R.tc
    v_hs = R.s_hs if role == "client" else R.c_hs
    v_data = R.s_data if role == "client" else R.c_data
    dclass = "+".join(x[0] + (":" + x[2] if x[0] in ("insert", "replace",
                                                     "append",
                                                     "insert_quiet")
                              else "") for x in devs)
    fam = "tls13" if sc.ver == (3, 4) else ("ssl3" if sc.ver == (3, 0)
                                            else "le12")
    def what(x):
        if x[0] in ("insert", "replace", "append", "insert_quiet"):
            return TOKNAME.get(x[2], x[2])
        return tname(hon_seq[x[1]]) if x[1] < len(hon_seq) else None
    key = {"victim": vrole, "fam": fam, "dev": dclass,
           "what": "+".join(str(what(x)) for x in devs)}
    W = {"case": cid, "scenario": sc.name, "deviations": [list(x) for x in devs],
         "emitted": [tname(t) for t in seq],
         "honest": [tname(t) for t in hon_seq],
         "outcome": [outcome(R.tc), outcome(R.ts)], "victim_hs_done": v_hs}
    ctx.cell("sequence", "%s:%s" % (role, " ".join(tname(t) for t in seq)))
    verdict = "?"
    cls = mon.classify_exc(vt.exc) if vt.exc else vt.status
    if legal:
        ctx.count("in_language")
        verdict = "legal:" + ("done" if v_hs else "rejected")
        bad_post = [t for t in post
                    if t not in LEGAL_POST[sc.ver == (3, 4)]]
        if bad_post and v_hs:
            ctx.count("illegal_after_completion")
            # the handshake was complete; what follows must be refused
            if vt.status == "done":
                ctx.violation(dict(key, clause="post_handshake_junk_accepted",
                                   junk=bad_post[0]), W,
                              "victim processed %s after the handshake "
                              "without error" % bad_post)
            verdict = "legal+junk:" + cls
    else:
        ctx.count("out_of_language")
        if v_hs:
            # which message was affected?
            aff = [tname(hon_seq[x[1]]) for x in devs if x[1] < len(hon_seq)]
            # would the sequence be legal if NewSessionTicket were optional
            # and position-free before ChangeCipherSpec?
            tol = None
            if sc.ver < (3, 4) and vrole == "client":
                s2 = [t for t in seq if tname(t) != "NewSessionTicket"]
                h2 = [t for t in hon_seq if tname(t) != "NewSessionTicket"]
                if split_language(s2, h2, role, sc.ver)[0] is not None:
                    tol = "NewSessionTicket"
            ctx.violation(dict(key, clause="completed_out_of_language",
                               tolerates=tol,
                               affected=aff[0] if aff else None), W,
                          "victim %s completed the handshake after "
                          "receiving: %s" % (vrole, " ".join(W["emitted"])))
            verdict = "VIOLATION:completed"
        else:
            verdict = "rejected:" + cls
            if cls == "local_alert":
                ctx.cell("alert", "%s:%d" % (vrole, vt.exc.description))
                # the alert has to be readable by the peer: sent under the
                # keys the peer expects at that point (TLS 1.3 has three
                # epochs per direction around the Finished messages)
                at2 = R.tc if role == "client" else R.ts
                a_out = outcome(at2)
                if a_out[0] == "exc" and isinstance(at2.exc, OSError) and \
                        not d.conn.closed:
                    # its write hit the closed socket first: let it read
                    asock = R.p.csock if role == "client" else R.p.ssock
                    t3 = drive.Task("peer-read", drive.aread(d.conn, None, 1),
                                    asock)
                    drive.run([t3], R.p.link, max_steps=2000)
                    a_out = outcome(t3)
                if fam == "tls13":
                    ctx.cell("peer_saw", "%s|%s" % (
                        a_out[0], a_out[1] if len(a_out) > 1 else ""))
                    hn = [tname(t) for t in hon_seq]
                    last_hello = max([i for i, t in enumerate(hn)
                                      if t in ("ClientHello", "ServerHello")]
                                     or [0])
                    # only deviations after the hello messages keep both
                    # transcripts (hence the traffic keys) in step
                    keys_in_step = all(x[1] > last_hello for x in devs)
                    if a_out[0] == "local_alert" and a_out[1] in (20, 21, 50) \
                            and "straddle" not in dclass and keys_in_step:
                        ctx.violation(dict(key,
                                           clause="alert_unreadable_by_peer",
                                           peer=str(a_out)), W,
                                      "victim %s sent alert %d but the peer "
                                      "could not decrypt it (%s)" % (
                                          vrole, vt.exc.description, a_out))
            off = first_offending(seq, hon_seq, role, sc.ver)
            at = R.tc if role == "client" else R.ts
            acls = mon.classify_exc(at.exc) if at.exc else at.status
            delivered = not d.conn._buffer and not d.pending and \
                not acls.startswith("undocumented")
            names = [tname(t) for t in seq]
            garbage = (sc.ver < (3, 4) and cls == "stalled" and
                       off is not None and "ccs" not in names[:off] and
                       "ccs" in [tname(t) for t in hon_seq])
            if acls.startswith("undocumented"):
                ctx.count("adversary_crashed:" + acls)
            if garbage:
                # the adversary switched its write keys where it would have
                # sent ChangeCipherSpec; the victim, still without a read
                # cipher, sees ciphertext as an incomplete handshake message
                # and waits for the rest of it
                ctx.count("ciphertext_in_plaintext_epoch_victim_waits")
            elif off is not None and cls == "remote_alert" and \
                    any(x.startswith("alert(") for x in names[off:]):
                # the deviant itself sent an alert at or after the offending
                # message: surfacing it is how the victim stopped, whether
                # or not it would have objected on its own a message later
                # the offending record is itself an alert: surfacing it to
                # the caller is the victim's way of stopping
                ctx.count("alert_in_place_of_message_surfaced")
            elif off is not None and delivered and cls != "local_alert" \
                    and not cls.startswith("undocumented") \
                    and not cls.startswith("tls:"):
                # the offending message reached the victim (ordered
                # stream) and it did not answer with its own fatal alert:
                # it went on with the handshake and the failure came from
                # elsewhere (the peer's alert, a close, a stall)
                ctx.count("continued_past_offending")
                ctx.violation(dict(key, clause="continued_past_illegal_message",
                                   offending=tname(seq[off]), how=cls), W,
                              "victim %s did not reject %s (position %d of "
                              "%s); it ended with %s" % (
                                  vrole, tname(seq[off]), off,
                                  " ".join(W["emitted"]), cls))
            elif off is not None and cls == "local_alert":
                ctx.count("offending_answered_with_alert")
            elif off is None:
                ctx.count("truncated_sequence_victim_waits")
    if not (legal and vt.status == "done"):
        if cls.startswith("undocumented"):
            ctx.violation(dict(key, clause="undocumented_exception",
                               exc=type(vt.exc).__name__,
                               frame=vt.frame()), W, repr(vt.exc))
        elif cls.startswith("tls:"):
            ctx.violation(dict(key, clause="no_alert_before_close",
                               exc=type(vt.exc).__name__,
                               frame=vt.frame()), W, repr(vt.exc))
        elif vt.status == "budget":
            ctx.violation(dict(key, clause="spin"), W, "step budget")
    if not v_hs and v_data:
        ctx.violation(dict(key, clause="data_before_completion"), W,
                      "application data delivered without a handshake")
    ctx.cell("cell", "%s|%s|%s|%s" % (sc.name, vrole, dclass, verdict))
    for x in devs:
        if x[0] in ("insert_quiet",) or (x[0] == "insert" and
                                         x[2] == "ccs_protected"):
            ctx.count("delivered:%s:%s" % (x[0], x[2]))
    if len(ctx.samples) < 5:
        ctx.sample({"case": cid, "victim": vrole, "scenario": sc.name,
                    "deviation": dclass, "received": W["emitted"],
                    "in_language": legal, "verdict": verdict})


def run(ctx):
    for cid, P in ctx.cases(make_cases(ctx)):
        run_case(ctx, cid, P)


def finalize(m, tier):
    out = []
    c = m["counters"]
    if c.get("controls", 0) < 20:
        out.append("fewer than 20 honest controls passed the grammar")
    if c.get("out_of_language", 0) < 300:
        out.append("fewer than 300 out-of-language sequences delivered")
    if not m["cells"].get("alert"):
        out.append("no deviation was answered with an alert")
    if c.get("delivered:insert:ccs_protected", 0) < 5:
        out.append("fewer than 5 protected ChangeCipherSpec records "
                   "delivered")
    if c.get("delivered:insert_quiet:OwnHello", 0) < 5:
        out.append("fewer than 5 repeated hellos delivered outside the "
                   "deviant's transcript")
    if c.get("second_call_refused", 0) == 0:
        out.append("second handshake call never exercised")
    return out
