"""C11 - RSA key transport gives an attacker no padding oracle."""
from vt import boot  # noqa
import json

from vt import creds, pair, suites, mon
from vt.pair import Pair
from vt.refs import implicit_rejection as IR

from tlslite.utils.python_rsakey import Python_RSAKey
from tlslite.utils.keyfactory import generateRSAKey, parsePEMKey
from tlslite.utils.cryptomath import getRandomPrime

LEVEL = "exploration"
RULE = ("(a) one case = (key, ciphertext class batch): every ciphertext is "
        "EM^e mod n for a chosen EM (or a chosen integer / byte length); the "
        "expected return value of RSAKey.decrypt is computed exactly by an "
        "independent implicit-rejection implementation (real message, "
        "synthetic message, or None for publicly invalid input) and compared "
        "byte for byte, twice on the same object and once on a fresh key "
        "object.  (b) one case = (version, RSA-kx suite): a record-level "
        "MITM replaces the encrypted premaster in ClientKeyExchange by each "
        "class re-encrypted under the server key; the server-behaviour "
        "signature (record types consumed after CKE, (type, length, "
        "plaintext alert) of records emitted, handshake outcome, where the "
        "failure surfaced) must equal that of 'valid padding, wrong "
        "version' and 'valid padding, random premaster'.  "
        "distinct_nontrivial = (key, class) decrypt cells + "
        "(version, suite, class) handshake cells.")
ASSUMPTIONS = [
    "pure-python RSA only; timing is not an observable of this check "
    "(CPython is not constant time; the property text is about values and "
    "wire behaviour)",
    "the reference follows the construction with max_sep_offset = k - 10 "
    "and mask = 2^bitlen(k-10) - 1 (as OpenSSL 3.2+ and the draft test "
    "vectors); key sizes with k - 10 a power of two are not generated",
    "keys without CRT parameters cannot be built with Python_RSAKey "
    "(p = q = 0 is unusable) and are out of the domain",
    "a ClientKeyExchange whose own framing is broken (length prefix "
    "inconsistent) is a decode error, not a malformed encrypted premaster; "
    "it is used only as the sensitivity control of the monitor",
]
NONTRIVIAL = ["deccell", "hscell"]
DEADLINE = {"quick": 90, "thorough": 600}

KEYS = {   # name -> (source, arg, tiers)
    "srv2048": ("S", "rsa", "qt"),
    "cli1024": ("C", "rsa", "qt"),
    "pss_sig2048": ("S", "rsapss_sig", "t"),
    "nonca2048": ("S", "rsa_nonca", "t"),
    "gen1024": ("gen", 1024, "qt"),
    "gen1536": ("gen", 1536, "t"),
    "gen2048": ("gen", 2048, "t"),
    "odd1025": ("odd", 1025, "qt"),
    "odd1027": ("odd", 1027, "qt"),
}
_keys = {}
_seed = [0]


def _tbl(src):
    return creds.SERVER if src == "S" else creds.CLIENT


def build(name):
    """-> (key object, factory for a fresh object from the same material)"""
    src, arg, _ = KEYS[name]
    if src in ("S", "C"):
        pem = creds.key_pem(_tbl(src), arg)

        def fresh():
            return parsePEMKey(pem, private=True, implementations=["python"])
        return fresh(), fresh
    saved = (boot.drbg.key, boot.drbg.ctr)
    boot.drbg.reseed("c11-key/%s/%d" % (name, _seed[0]))
    if src == "gen":
        k = generateRSAKey(arg, implementations=["python"])
        p, q = int(k.p), int(k.q)
    else:
        while True:
            p = getRandomPrime(arg - 512, False)
            q = getRandomPrime(512, False)
            if (p * q).bit_length() == arg and (p - 1) % 65537 and \
                    (q - 1) % 65537 and p != q:
                break
        if p < q:
            p, q = q, p
    boot.drbg.key, boot.drbg.ctr = saved
    n, e = p * q, 65537
    d = int(k.d) if src == "gen" else pow(e, -1, (p - 1) * (q - 1))

    def fresh():
        return Python_RSAKey(n, e, d, p, q)
    # a generated key is used as the object generate() returned (populated
    # after construction); the fresh twin is built from the numbers
    return (k if src == "gen" else fresh()), fresh


def getkey(name):
    if name not in _keys:
        _keys[name] = build(name)
    return _keys[name]


def nz(rng, n):
    return bytes(rng.randrange(1, 256) for _ in range(n))


def em_valid(rng, k, msg):
    return b"\x00\x02" + nz(rng, k - 3 - len(msg)) + b"\x00" + bytes(msg)


def em_classes(rng, k, ver=(3, 3), quick=True, full_lengths=False):
    """[(class name, EM bytes)] - every padding class of the design;
    the message after a (would-be) separator is 48 bytes where possible so a
    sloppy parser would find a plausible premaster"""
    pm = bytes(ver) + rng.randbytes(46)
    good = bytearray(em_valid(rng, k, pm))
    out = []
    if full_lengths:
        lens = range(0, k - 10)
    else:
        lens = sorted({0, 1, 2, 47, 48, 49, k - 12, k - 11} |
                      {rng.randrange(0, k - 10) for _ in range(6)})
    for ln in lens:
        out.append(("valid/len=%d" % ln if full_lengths or ln in
                    (0, 1, 47, 48, 49, k - 12, k - 11) else "valid/len=rand",
                    em_valid(rng, k, rng.randbytes(ln))))
    for b in (1, 2, 0x80, 0xff):
        x = bytearray(good)
        x[0] = b
        out.append(("first_byte_%02x" % b, bytes(x)))
    for b in (0, 1, 3, 0xff):
        x = bytearray(good)
        x[1] = b
        out.append(("second_byte_%02x" % b, bytes(x)))
    for i in range(8):
        x = bytearray(good)
        x[2 + i] = 0
        out.append(("ps_zero_at_%d" % i, bytes(x)))
    out.append(("no_separator", b"\x00\x02" + nz(rng, k - 2)))
    out.append(("separator_last_byte", b"\x00\x02" + nz(rng, k - 3) + b"\0"))
    out.append(("ps_exactly_8", em_valid(rng, k, rng.randbytes(k - 11))))
    out.append(("ps_7_then_sep", b"\x00\x02" + nz(rng, 7) + b"\0" +
                nz(rng, k - 10)))
    out.append(("two_separators", bytes(good[:k - 60]) + b"\0" +
                bytes(good[k - 59:])))
    out.append(("all_zero_after_header", b"\x00\x02" + bytes(k - 2)))
    for v in ((3, 0), (3, 1), (3, 2), (3, 3), (3, 4), (0, 0), (2, 0),
              (255, 255)):
        out.append(("valid48/version_%d_%d" % v,
                    em_valid(rng, k, bytes(v) + rng.randbytes(46))))
    out.append(("valid/len=47_premaster", em_valid(rng, k, pm[:47])))
    out.append(("valid/len=49_premaster", em_valid(rng, k, pm + b"\0")))
    return out


def to_ct(key, em):
    """EM^e mod n as k bytes, or None if EM >= n"""
    n = int(key.n)
    k = IR.modulus_len(n)
    m = int.from_bytes(em, "big")
    if m >= n:
        return None
    return pow(m, int(key.e), n).to_bytes(k, "big")


def raw_classes(rng, key, nrand):
    """[(class, ciphertext bytes)] chosen as integers / lengths"""
    n = int(key.n)
    k = IR.modulus_len(n)
    out = [("value_0", 0), ("value_1", 1), ("value_2", 2),
           ("value_n-1", n - 1), ("value_n", n), ("value_n+1", n + 1),
           ("value_all_ff", 256 ** k - 1)]
    out = [(c, v.to_bytes(k, "big")) for c, v in out
           if v.bit_length() <= 8 * k]
    for _ in range(nrand):
        out.append(("random_lt_n", rng.randrange(2, n).to_bytes(k, "big")))
    r = rng.randrange(2, n).to_bytes(k, "big")
    out += [("len_k-1", r[1:]), ("len_k+1_leading_zero", b"\0" + r),
            ("len_k+1_trailing", r + b"\0"), ("len_0", b""),
            ("len_2k", r + r), ("len_1", b"\x02")]
    return out


def cls_family(c):
    return c.split("=")[0] if c.startswith("valid/len") else c


# ---------------------------------------------------------------- (a)

def check_decrypt(ctx, kname, key, fresh, cls, ct):
    n, d = int(key.n), int(key.d)
    kind, want = IR.decrypt(n, d, ct, crt=(int(key.p), int(key.q)))
    ctx.ev()
    ctx.count("dec/" + kind)
    ctx.count("dec_class/" + cls_family(cls))
    fam = cls_family(cls)
    ctx.cell("deccell", "%s/%s/%s" % (kname, fam, kind))
    res = []
    for obj in (key, key, fresh):
        try:
            r = obj.decrypt(bytearray(ct))
            res.append(("none", None) if r is None else ("bytes", bytes(r)))
        except Exception as e:   # noqa
            res.append(("exception:" + type(e).__name__, repr(e)[:200]))
    wit = {"key": kname, "class": cls, "ciphertext": ct,
           "expected_kind": kind, "expected": want,
           "got": [r[1] for r in res]}

    def bad(got, extra=""):
        ctx.violation({"clause": "decrypt", "class": fam,
                       "expected": kind, "got": got}, wit,
                      "%s %s: expected %s, got %s %s" % (
                          kname, cls, kind, got, extra))
    first = res[0]
    if first[0].startswith("exception"):
        return bad(first[0])
    if kind == "public_invalid":
        if first[0] != "none":
            return bad("bytes")
    else:
        if first[0] == "none":
            return bad("none")
        if first[1] != want:
            other = "synthetic" if kind == "real" else "other"
            if kind == "synthetic" and len(first[1]) != len(want):
                other = "synthetic_of_other_length"
            return bad("wrong_bytes:" + other)
    if res[1] != first:
        return bad("nondeterministic_same_object")
    if res[2] != first:
        return bad("differs_on_fresh_key_object")
    if len(ctx.samples) < 3 and kind == "synthetic":
        ctx.sample({"key": kname, "class": cls, "kind": kind,
                    "len": len(want)})


def run_dec(ctx, P):
    key, fresh_f = getkey(P["key"])
    fresh = fresh_f()
    rng = ctx.rng
    k = IR.modulus_len(int(key.n))
    if P["part"] == "em":
        for cls, em in em_classes(rng, k, quick=ctx.quick,
                                  full_lengths=P.get("full", False)):
            ct = to_ct(key, em)
            if ct is None:
                ctx.count("skipped_em_ge_n")
                continue
            check_decrypt(ctx, P["key"], key, fresh, cls, ct)
    elif P["part"] == "raw":
        for cls, ct in raw_classes(rng, key, P["nrand"]):
            check_decrypt(ctx, P["key"], key, fresh, cls, ct)
    else:
        # tlslite's own encrypt -> decrypt (positive control of the API)
        for ln in (0, 1, 48, k - 11):
            m = rng.randbytes(ln)
            ct = bytes(key.encrypt(bytearray(m)))
            ctx.ev()
            ctx.count("dec_encrypt_roundtrip")
            r = key.decrypt(bytearray(ct))
            if r is None or bytes(r) != m:
                ctx.violation({"clause": "encrypt_decrypt_roundtrip"},
                              {"key": P["key"], "msg": m, "ct": ct,
                               "got": r}, "")
            check_decrypt(ctx, P["key"], key, fresh, "valid/len=own_encrypt",
                          ct)
        st = None
        try:
            key.encrypt(bytearray(k - 10))
        except Exception as e:   # noqa
            st = type(e).__name__
        ctx.cell("api", "encrypt(k-10 bytes) -> %s" % st)


# ---------------------------------------------------------------- (b)

def cke_record(rec, ver, enc, broken=False):
    """re-frame a ClientKeyExchange record around `enc`"""
    if ver == (3, 0):
        body = bytes(enc)
    else:
        ln = len(enc) + (7 if broken else 0)
        body = ln.to_bytes(2, "big") + bytes(enc)
    hs = b"\x10" + len(body).to_bytes(3, "big") + body
    return rec.raw[:3] + len(hs).to_bytes(2, "big") + hs


def one_handshake(ctx, sid, ver, make_enc, broken=False, client_pm=None,
                  client_max=None):
    """-> behaviour signature dict of the server.  With client_pm the
    *client* is the deviant: it encrypts that premaster (any length, any
    version bytes) and derives its keys from it, so a server that failed to
    replace a malformed premaster would complete the handshake."""
    st = {"idx": None, "orig": None, "s2c_at": None}
    holder = {}
    from tlslite.keyexchange import RSAKeyExchange
    orig_psk = RSAKeyExchange.processServerKeyExchange
    if client_pm is not None:
        def psk(self, srvPublicKey, serverKeyExchange):
            kk = IR.modulus_len(int(srvPublicKey.n))
            em = em_valid(ctx.rng, kk, client_pm)
            self.encPremasterSecret = bytearray(to_ct(srvPublicKey, em))
            holder["used"] = True
            return bytearray(client_pm)
        RSAKeyExchange.processServerKeyExchange = psk

    def mitm(rec, idx):
        if rec.dir == "c2s" and rec.type == 22 and st["idx"] is None and \
                rec.body[:1] == b"\x10":
            st["idx"] = idx
            st["s2c_at"] = len(holder["p"].link.recs("s2c"))
            body = rec.body[4:]
            st["orig"] = body if ver == (3, 0) else body[2:]
            enc = make_enc(st["orig"])
            return cke_record(rec, ver, enc, broken)
        return None
    p = Pair(mitm=mitm)
    holder["p"] = p
    rx = mon.tap_recv(p.s, [])
    fl = suites.flavor_for(sid, ver, fresh_keys=False)
    if client_max is not None:
        # the client offers more than the server will negotiate
        fl.cset.maxVersion = client_max
    try:
        tc, ts = p.handshake(fl)
    finally:
        RSAKeyExchange.processServerKeyExchange = orig_psk
    if client_pm is not None and not holder.get("used"):
        return None, tc, ts
    if st["idx"] is None:
        return None, tc, ts
    # records the server's record layer accepted from the CKE on
    consumed = [t for (t, ln) in rx[st["idx"]:]]
    emitted = []
    for r in p.link.recs("s2c")[st["s2c_at"]:]:
        item = [r.type, r.length]
        if r.type == 21 and r.length == 2:
            item.append(list(r.body))
        emitted.append(item)
    e = ts.exc
    sig = {
        "consumed_types": consumed,
        "emitted": emitted,
        "outcome": list(pair.outcome(ts)),
        "exc_type": type(e).__name__ if e is not None else None,
        "exc_frame": ts.frame(),
        "surfaced_at": "none" if ts.status != "exc" else
        "finished" if consumed == [22, 20] else
        "cke" if consumed in ([], [22]) else "later",
        "server_done": ts.status == "done",
    }
    return sig, tc, ts


def run_hs(ctx, P):
    sid, ver = P["sid"], tuple(P["ver"])
    su = suites.TABLE[sid]
    chain, skey = creds.server("rsa")
    pub = chain.getEndEntityPublicKey()
    k = IR.modulus_len(int(pub.n))
    rng = ctx.rng
    group = "%s/%s" % (pair.VNAME[ver], su.name)
    base = {}      # version / suite are configuration: in the witness

    def enc_em(em):
        return lambda orig: to_ct(pub, em)

    # control 0: pass-through re-framing must complete
    sig, tc, ts = one_handshake(ctx, sid, ver, lambda orig: orig)
    ctx.ev()
    if sig is None or tc.status != "done" or ts.status != "done":
        ctx.inconc("C11(b) pass-through control failed for %s: %r %r" % (
            group, tc.exc, ts.exc))
        return
    ctx.count("hs_control_passthrough")
    # reference signatures
    wrong_v = (3, 9)
    ref_em = em_valid(rng, k, bytes(wrong_v) + rng.randbytes(46))
    ref, _, _ = one_handshake(ctx, sid, ver, enc_em(ref_em))
    ctx.ev()
    ctx.count("hs_reference")
    if ref is None or ref["server_done"]:
        ctx.violation(dict(base, clause="server_accepts_wrong_premaster"),
                      {"group": group, "sig": ref}, "")
        return
    # sensitivity control: broken framing must look different
    brk, _, _ = one_handshake(ctx, sid, ver, lambda orig: orig,
                              broken=(ver != (3, 0)))
    if ver != (3, 0):
        ctx.ev()
        if brk == ref:
            ctx.inconc("behaviour signature insensitive (framing error "
                       "looks like bad premaster) in %s" % group)
            return
        ctx.count("hs_sensitivity_control")
    classes = [("valid48_random_premaster_right_version",
                em_valid(rng, k, bytes(ver) + rng.randbytes(46)))]
    for cls, em in em_classes(rng, k, ver=ver, quick=ctx.quick):
        if cls.startswith("valid48/version_"):
            v = tuple(int(x) for x in cls.split("_")[1:])
            if v == ver:
                continue       # that one is a correct-version premaster
        if cls == "valid/len=rand":
            continue
        classes.append((cls, em))
    cts = [(c, to_ct(pub, em)) for c, em in classes]
    cts += raw_classes(rng, pub, 2)
    seen = {}
    results = [("valid48_wrong_version_reference", None, ref)]
    for cls, ct in cts:
        if ct is None:
            ctx.count("skipped_em_ge_n")
            continue
        if ctx.expired():
            break
        sig, tc, ts = one_handshake(ctx, sid, ver, lambda orig, c=ct: c)
        ctx.ev()
        fam = cls_family(cls)
        ctx.count("hs/" + fam)
        ctx.cell("hscell", "%s/%s" % (group, fam))
        results.append((cls, ct, sig))
    # the same malformations from a client that knows what it sent
    cmax = max(ver, (3, 3))
    kc = []
    for ln in (0, 1, 2, 46, 47, 49, 50, 64, k - 11):
        kc.append(("known/len=%d" % ln, (bytes(cmax) + rng.randbytes(
            max(0, ln - 2)))[:ln]))
    for v in ((3, 0), (3, 1), (3, 2), (3, 3), (3, 4), (2, 0), (0, 0),
              (255, 255)):
        if v in (cmax, ver):
            continue    # client_version, and the tolerated negotiated one
        kc.append(("known/version_%d_%d" % v, bytes(v) + rng.randbytes(46)))
    ok, tc, ts = one_handshake(ctx, sid, ver, lambda orig: orig,
                               client_pm=bytes(cmax) + rng.randbytes(46),
                               client_max=cmax)
    ctx.ev()
    if ok is None or not ok["server_done"] or tc.status != "done":
        ctx.inconc("C11(b) deviant-client control (well-formed premaster) "
                   "failed for %s: %r %r" % (group, tc.exc, ts.exc))
    else:
        ctx.count("hs_control_known_premaster")
        for cls, pm in kc:
            if ctx.expired():
                break
            sig, tc, ts = one_handshake(ctx, sid, ver, lambda orig: orig,
                                        client_pm=pm, client_max=cmax)
            ctx.ev()
            fam = cls_family(cls)
            ctx.count("hs/" + fam)
            ctx.cell("hscell", "%s/%s" % (group, fam))
            results.append((cls, pm, sig))
    for cls, ct, sig in results:
        seen.setdefault(json.dumps(sig, sort_keys=True), []).append(cls)
    # the behaviour shared by most classes is the norm; every class that
    # deviates from it (the two valid-padding controls included) is reported
    norm = json.loads(max(seen, key=lambda kk: len(seen[kk])))
    for cls, ct, sig in results:
        if sig != norm:
            fam = cls_family(cls)
            diff = sorted(kk for kk in norm if sig is None or
                          sig.get(kk) != norm[kk])
            ctx.violation(dict(base, clause="server_behaviour_differs",
                               **{"class": fam, "differs_in": diff}),
                          {"group": group, "class": cls, "ciphertext": ct,
                           "got": sig, "norm": norm,
                           "classes_with_norm": len(seen[json.dumps(
                               norm, sort_keys=True)])},
                          "%s class %s: %s differ from the behaviour of the "
                          "other malformed premasters" % (group, cls, diff))
    ctx.maxi("distinct_signatures/" + group, len(seen))
    ctx.cell("hsgroup", group)
    ctx.cell("refsig", json.dumps({k2: ref[k2] for k2 in
                                   ("emitted", "outcome", "surfaced_at")},
                                  sort_keys=True))
    if len(ctx.samples) < 3:
        ctx.sample({"group": group, "reference_signature": ref,
                    "classes_tried": len(cts)})


# ------------------------------------------------------------ planning

def rsa_suites():
    out = []
    for sid in suites.NEGOTIABLE:
        su = suites.TABLE[sid]
        if su.kx == "RSA":
            out.append(sid)
    return out


QUICK_SUITES = ["TLS_RSA_WITH_AES_128_CBC_SHA", "TLS_RSA_WITH_RC4_128_SHA",
                "TLS_RSA_WITH_AES_128_GCM_SHA256",
                "TLS_RSA_WITH_3DES_EDE_CBC_SHA",
                "TLS_RSA_WITH_AES_256_CBC_SHA256"]


def make_cases(ctx):
    t = "q" if ctx.quick else "t"
    for kn, spec in KEYS.items():
        if t not in spec[2]:
            continue
        for rep in range(ctx.pick(8, 30)):
            yield "dec/%s/em/%d" % (kn, rep), dict(f="dec", key=kn, part="em")
            yield "dec/%s/raw/%d" % (kn, rep), dict(
                f="dec", key=kn, part="raw", nrand=ctx.pick(24, 60))
        yield "dec/%s/own" % kn, dict(f="dec", key=kn, part="own")
        if not ctx.quick or kn in ("cli1024",):
            yield "dec/%s/full" % kn, dict(f="dec", key=kn, part="em",
                                           full=True)
    rng = ctx.case_rng("plan")
    for sid in rsa_suites():
        su = suites.TABLE[sid]
        for ver in pair.VERSIONS[:4]:
            if not su.defined_for(ver):
                continue
            if ctx.quick:
                if su.name not in QUICK_SUITES:
                    continue
                if su.name not in QUICK_SUITES[:2] and ver not in (
                        (3, 3), rng.choice([(3, 0), (3, 1), (3, 2)])):
                    continue
            for rep in range(ctx.pick(1, 3)):
                yield "hs/%04x/%d%d/%d" % (sid, ver[0], ver[1], rep), dict(
                    f="hs", sid=sid, ver=ver)


def run(ctx):
    _seed[0] = ctx.seed
    for cid, P in ctx.cases(make_cases(ctx)):
        if P["f"] == "dec":
            run_dec(ctx, P)
        else:
            run_hs(ctx, P)
        ctx.count("cases/" + P["f"])


def finalize(m, tier):
    out = []
    c = m["counters"]
    if m.get("truncated"):
        out.append("soft deadline hit before all cells ran")
    for kind in ("real", "synthetic", "public_invalid"):
        if not c.get("dec/" + kind):
            out.append("no decrypt with expected kind " + kind)
    for fam in ("valid/len", "first_byte_01", "second_byte_00",
                "second_byte_01", "second_byte_03", "second_byte_ff",
                "no_separator", "separator_last_byte", "random_lt_n",
                "value_n", "value_n-1", "value_0", "len_k-1", "len_k+1_"
                "leading_zero", "len_0") + tuple(
                    "ps_zero_at_%d" % i for i in range(8)):
        if not c.get("dec_class/" + fam):
            out.append("no decrypt trial for class " + fam)
    if not c.get("dec_encrypt_roundtrip"):
        out.append("no encrypt/decrypt round trip")
    vs = {g.split("/")[0] for g in m["cells"].get("hsgroup", ())}
    for v in ("SSLv3", "TLS1.0", "TLS1.1", "TLS1.2"):
        if v not in vs:
            out.append("no RSA-kx handshake group completed for " + v)
    if not c.get("hs_reference") or not c.get("hs_control_passthrough"):
        out.append("no handshake reference/control")
    if not c.get("hs_sensitivity_control"):
        out.append("behaviour-signature sensitivity control never ran")
    for fam in ("no_separator", "second_byte_01", "ps_zero_at_0",
                "value_n", "len_k-1", "len_0", "valid/len",
                "valid48/version_0_0"):
        if not c.get("hs/" + fam):
            out.append("no handshake for class " + fam)
    return out
