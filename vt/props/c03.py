"""C03 - both ends of a completed handshake agree, within both policies."""
from vt import boot  # noqa
from vt import pair, suites, mon, drive, policy, wire, creds
from vt.pair import Pair, Flavor, outcome

from tlslite import errors as E

LEVEL = "exploration"
RULE = ("one case = a (client settings, server settings, credential flavour, "
        "client-auth, ALPN/NPN/SNI) pair, settings drawn independently from "
        "the lattice of restrictions of the defaults (keep / reorder / random "
        "subset per dimension; many disjoint or one-element overlaps); both "
        "endpoints run in lock step; if both complete, the two views are "
        "compared field by field (version, suite, secrets, exporter output, "
        "EMS/EtM, ALPN/NPN, SNI, record limits, certificate chains) and every "
        "negotiated parameter is checked against each side's settings by an "
        "independent oracle working from the IANA suite name and registry "
        "code points seen on the wire; if not, a fatal alert must explain it. "
        "Directed additions: one signature hash per family and side, "
        "the product of features a resumed connection carries over (and "
        "ALPN changed between the two connections), multi-certificate "
        "chains with a delegated credential, the integration "
        "ClientHelper entry point, server names of every valid shape, "
        "clients that offer no group against servers allowing one, "
        "client certificates nobody asks for; every pair is followed by "
        "a second connection offering the session.   "
        "distinct_nontrivial = distinct negotiated (version, suite, group, "
        "scheme) tuples + distinct (flavour, outcome) cells + binding "
        "restriction dimensions.")
ASSUMPTIONS = [
    "ML-KEM / ML-DSA / TACK back ends are not installed",
    "one-sided completion (TLS 1.3 client returns before the server judged "
    "the client's last flight) is recorded, not judged",
]
NONTRIVIAL = ["negotiated", "outcome", "binding"]
DEADLINE = {"quick": 120, "thorough": 900}

SKEYS = ["rsa", "rsa", "rsapss", "ecdsa256", "ecdsa384", "ecdsa521", "bp256",
         "ed25519", "ed448", "dsa"]
CKEYS = ["rsa", "ecdsa", "ed25519", "dsa"]
KEYTYPE = {"rsa": "rsa", "rsapss": "rsa-pss", "ecdsa256": "ecdsa",
           "ecdsa384": "ecdsa", "ecdsa521": "ecdsa", "bp256": "ecdsa",
           "bp384": "ecdsa", "bp512": "ecdsa", "ed25519": "eddsa",
           "ed448": "eddsa", "dsa": "dsa", "ecdsa": "ecdsa"}
PROTOS = [b"h2", b"http/1.1", b"spdy/3", b"x"]


def make_cases(ctx):
    n = ctx.pick(4000, 60000)
    for i in range(n):
        yield "p%d" % i, {"i": i}
    # certificate chains of more than one certificate, both directions, with
    # and without a delegated credential (TLS 1.3)
    for ver in pair.VERSIONS:
        for dc in ((False, True) if ver == (3, 4) else (False,)):
            for n in (2, 3):
                yield "dchain-%d-%d-%d" % (ver[1], dc, n), {
                    "dchain": [ver, dc, n]}
    # one hash only for the signature family of the server's key, on either
    # side, for every family and hash
    for fam, keys in (("rsa", ["rsa", "rsapss"]),
                      ("ecdsa", ["ecdsa256", "ecdsa384", "ecdsa521"]),
                      ("dsa", ["dsa"])):
        for h in ("sha512", "sha384", "sha256", "sha224", "sha1"):
            for side in ("client", "server"):
                for dver in ((3, 3), (3, 4)):
                    if dver == (3, 4) and (fam == "dsa" or
                                           h in ("sha1", "sha224")):
                        continue
                    skey = keys[(len(h) + len(side) + dver[1]) % len(keys)]
                    yield "dsig-%s-%s-%s-%d" % (fam, h, side, dver[1]), {
                        "dsig": [fam, h, side, dver, skey]}
    # a client that cannot say which groups it supports (SSLv3: no
    # extensions; or simply no ECC/FFDHE groups on offer below TLS 1.3)
    # against a server that allows a single group: whatever is negotiated
    # lies inside the server's own lists
    for cver in ((3, 0), (3, 1), (3, 3)):
        for kx, kind_ in (("ecdhe_rsa", "cert"), ("ecdh_anon", "anon"),
                          ("dhe_rsa", "cert"), ("dh_anon", "anon")):
            groups = ["secp384r1", "secp521r1", "x25519",
                      "brainpoolP256r1"] if "ec" in kx else \
                ["ffdhe3072", "ffdhe4096"]
            for g in groups:
                yield "dnoext-%d-%s-%s" % (cver[1], kx, g), {
                    "dnoext": [cver, kx, kind_, g]}
    for ck in ("rsa", "ecdsa", None):
        yield "dreq13-%s" % ck, {"dreq13": ck}
    # finite-field parameters of the server's own (no RFC 7919 group in
    # common) whose prime is not a whole number of bytes long, against the
    # client's key size bounds one bit either side of it
    for cver in ((3, 1), (3, 3)):
        for kx, kind_ in (("dhe_rsa", "cert"), ("dh_anon", "anon")):
            for lo, hi in ((1031, 8193), (1032, 8193), (1023, 1031),
                           (1023, 1030)):
                yield "ddh-%d-%s-%d-%d" % (cver[1], kx, lo, hi), {
                    "ddh": [cver, kx, kind_, lo, hi]}
    # the same negotiation started through the integration helper that the
    # stdlib-client wrappers (HTTP, SMTP, POP3, IMAP, XML-RPC) share
    for flav in ("cert", "srp", "anon", "cert_clientauth"):
        for j in range(3):
            yield "helper-%s-%d" % (flav, j), {"helper": [flav, j]}
    # full product of the features that a resumed connection has to carry
    # over: two connections each, the second offering the first's session
    for ver in pair.VERSIONS[:4]:
        for mech in ("id", "ticket"):
            for cauth in (False, True):
                for ems in (True, False):
                    for etm in (True, False):
                        for cipher in ("aes128", "aes128gcm"):
                            if cipher == "aes128gcm" and ver < (3, 3):
                                continue
                            if ver == (3, 0) and ems:
                                continue
                            yield "dres-%d-%s-%d%d%d-%s" % (
                                ver[1], mech, cauth, ems, etm, cipher), {
                                "dres": [ver, mech, cauth, ems, etm, cipher]}
    # what is negotiated afresh on every connection (ALPN, NPN, server
    # name) against resumption: the second connection's own offer decides
    for ver in pair.VERSIONS[1:]:
        for mech in ("id", "ticket"):
            if ver == (3, 4) and mech == "id":
                continue
            for first in ("h2", None):
                for second in ("h2", "http/1.1", None):
                    if first is None and second is None:
                        continue
                    yield "dalpn-%d-%s-%s-%s" % (ver[1], mech, first,
                                                 second), {
                        "dres": [ver, mech, False, ver > (3, 0), True,
                                 "aes128gcm" if ver >= (3, 3) else "aes128"],
                        "alpn": [first, second]}


def chain_bytes(chain):
    if chain is None:
        return None
    return [bytes(x.bytes) for x in chain.x509List]


def peer_key_info(chain):
    if chain is None or not chain.x509List:
        return None
    x = chain.x509List[0]
    pk = x.publicKey
    alg = x.certAlg
    if alg in ("rsa", "rsa-pss", "dsa"):
        return (alg, len(pk), None)
    if alg == "ecdsa":
        return ("ecdsa", 0, getattr(pk, "curve_name", None))
    return ("eddsa", 0, alg)


HELPER_SETTINGS = [
    dict(minVersion=(3, 1), maxVersion=(3, 2), cipherNames=["aes256"],
         macNames=["sha"]),
    dict(minVersion=(3, 3), maxVersion=(3, 3), cipherNames=["aes128gcm"]),
    dict(minVersion=(3, 3), maxVersion=(3, 3), cipherNames=["aes128"],
         macNames=["sha256", "sha"], useEncryptThenMAC=False),
]


def run_helper(ctx, cid, P):
    """blocking client handshake via tlslite.integration.ClientHelper over a
    socket pair, server in a thread (watchdog => inconclusive)"""
    import socket as _socket
    import threading
    from tlslite.api import TLSConnection
    from tlslite.integration.clienthelper import ClientHelper
    from vt.pair import settings
    flav, j = P["helper"]
    kw = HELPER_SETTINGS[j]
    cs = settings(**kw)
    vcs = cs.validate()
    for a in ("cipherNames", "macNames"):
        setattr(vcs, a, list(getattr(cs, a)))
    ss = settings(minVersion=(3, 0), maxVersion=(3, 3))
    a, b = _socket.socketpair()
    a.settimeout(20)
    b.settimeout(20)
    res = {}

    def server():
        conn = TLSConnection(b)
        try:
            skw = dict(settings=ss)
            if flav == "srp":
                skw["verifierDB"] = creds.verifier_db()
            elif flav == "anon":
                skw["anon"] = True
            else:
                ch, k = creds.server("rsa")
                skw.update(certChain=ch, privateKey=k,
                           reqCert=(flav == "cert_clientauth"))
            conn.handshakeServer(**skw)
            res["s"] = conn
        except Exception as e:   # noqa
            res["s_exc"] = e
        finally:
            try:
                b.close()
            except Exception:   # noqa
                pass
    th = threading.Thread(target=server, daemon=True)
    th.start()
    hk = dict(settings=cs)
    if flav == "srp":
        hk.update(username=creds.SRP_USER, password=creds.SRP_PASS)
    elif flav == "anon":
        hk.update(anon=True)
    elif flav == "cert_clientauth":
        ch, k = creds.client("rsa")
        hk.update(certChain=ch, privateKey=k)
    helper = ClientHelper(**hk)
    conn = TLSConnection(a)
    exc = None
    try:
        helper._handshake(conn)
    except Exception as e:   # noqa
        exc = e
    th.join(30)
    try:
        a.close()
    except Exception:   # noqa
        pass
    ctx.ev()
    if th.is_alive():
        ctx.inconc("helper handshake watchdog in %s" % cid)
        return
    fkey = {"flavour": flav, "entry": "ClientHelper"}
    desc = {"case": cid, "settings": {k: str(v) for k, v in kw.items()},
            "client_exc": repr(exc), "server_exc": repr(res.get("s_exc"))}
    ctx.count("helper_handshakes")
    if exc is not None or "s" not in res:
        # restrictive settings may legitimately leave no common suite for a
        # flavour (e.g. anon with GCM only): recorded
        ctx.count("helper_failed")
        ctx.cell("outcome", "helper|%s|%d|failed" % (flav, j))
        return
    su = suites.TABLE.get(conn.session.cipherSuite)
    neg = {"version": tuple(conn.version), "suite": su,
           "ems": conn.extendedMasterSecret}
    for why in policy.within(vcs, neg, "client"):
        ctx.violation(dict(fkey, clause="outside_policy", role="client",
                           dim=why.split(" ")[0],
                           ver=pair.VNAME[tuple(conn.version)]), desc, why)
    if kw.get("useEncryptThenMAC") is False and conn.encryptThenMAC:
        ctx.violation(dict(fkey, clause="outside_policy", role="client",
                           dim="etm", ver=pair.VNAME[tuple(conn.version)]),
                      desc, "encrypt-then-MAC negotiated although disabled")
    ctx.cell("outcome", "helper|%s|%d|%s" % (flav, j, su.name if su else "?"))


def run_dchain(ctx, cid, P):
    from tlslite.x509certchain import X509CertChain
    from tlslite.x509 import Credential, DelegatedCredential
    from tlslite.utils.asn1parser import ASN1Parser
    from vt.pair import ver_settings
    ver, dc, n = P["dchain"]
    ver = tuple(ver)
    ee_chain, ee_key = creds.server("ecdsa256")
    extra = [creds.server(k)[0].x509List[0] for k in ("rsa", "ecdsa384")]
    chain = X509CertChain([ee_chain.x509List[0]] + extra[:n - 1])
    cl_chain0, cl_key = creds.client("rsa")
    cl_chain = X509CertChain([cl_chain0.x509List[0]] + extra[:n - 1])
    ckw = {}
    skw = {}
    if dc:
        dchain, dkey = creds.server("ed25519")
        spki = bytes(ASN1Parser(dchain.x509List[0].bytes).getChild(0)
                     .getChildBytes(6))
        cb = Credential.marshal(3600, (8, 7), bytearray(spki))
        sig = ee_key.hashAndSign(bytearray(
            DelegatedCredential.compute_certificate_dc_sig_context(
                ee_chain.x509List[0].bytes, cb, (4, 3))), None, "sha256",
            None)
        skw = dict(dc_key=dkey, del_cred=DelegatedCredential(
            cred=Credential(valid_time=3600,
                            dc_cert_verify_algorithm=(8, 7),
                            subject_public_key_info=bytearray(spki),
                            bytes=cb), algorithm=(4, 3), signature=sig))
        ckw = dict(dc_sig_algs=[(8, 7)])
    fl = Flavor("cert", skey="ecdsa256", req_cert=True,
                cset=ver_settings(ver, **ckw), sset=ver_settings(ver))
    fl.server_kw = dict(skw, certChain=chain, privateKey=ee_key)
    fl.client_kw = dict(certChain=cl_chain, privateKey=cl_key)
    p = Pair()
    tc, ts = p.run(c05_client_gen(fl, p.c), fl.server_gen(p.s))
    ctx.ev()
    ctx.count("chain_handshakes")
    fkey = {"flavour": "cert", "skeytype": "ecdsa", "directed": "chain"}
    desc = {"case": cid, "features": P["dchain"],
            "outcome": [outcome(tc), outcome(ts)]}
    if tc.status != "done" or ts.status != "done":
        ctx.violation(dict(fkey, clause="honest_handshake_failed",
                           ver=pair.VNAME[ver]), desc,
                      "%r / %r" % (tc.exc, ts.exc))
        return
    for name, conf, a, b in (
            ("serverCertChain", chain, p.c.session.serverCertChain,
             p.s.session.serverCertChain),
            ("clientCertChain", cl_chain, p.c.session.clientCertChain,
             p.s.session.clientCertChain)):
        want = chain_bytes(conf)
        for who, got in (("client", a), ("server", b)):
            if chain_bytes(got) != want:
                ctx.violation(dict(fkey, clause="view_mismatch", field=name,
                                   who=who, ver=pair.VNAME[ver]), desc,
                              "%s's %s has %s certificates, configured %d" % (
                                  who, name, len(chain_bytes(got) or []),
                                  len(want)))
    ctx.cell("outcome", "chain|%s|dc%d|%d" % (pair.VNAME[ver], dc, n))


def c05_client_gen(fl, conn):
    kw = dict(session=fl.session, settings=fl.cset, checker=fl.checker_c,
              serverName=fl.sni, async_=True)
    kw.update(fl.client_kw)
    return conn.handshakeClientCert(**kw)


def run_dres(ctx, cid, P):
    from tlslite.sessioncache import SessionCache
    from vt.flavours import TK
    from vt.pair import ver_settings
    ver, mech, cauth, ems, etm, cipher = P["dres"]
    ver = tuple(ver)
    kw = dict(useExtendedMasterSecret=ems, useEncryptThenMAC=etm,
              cipherNames=[cipher])
    cs = ver_settings(ver, **kw)
    skw = dict(kw)
    cache = None
    if mech == "ticket":
        skw["ticketKeys"] = TK
    else:
        cache = SessionCache()
    ss = ver_settings(ver, **skw)
    sni = "example.com" if ctx.rng.random() < 0.5 else None
    fl = Flavor("cert", skey="rsa", ckey="rsa" if cauth else None,
                req_cert=cauth, cset=cs, sset=ss, session_cache=cache,
                sni=sni)
    alpn2 = "same"
    if P.get("alpn"):
        a1, alpn2 = P["alpn"]
        if a1:
            fl.alpn_c = [a1.encode(), b"spare"]
            fl.alpn_s = [b"other", a1.encode()]
    p = Pair()
    tc, ts = p.handshake(fl)
    ctx.ev()
    fkey = {"flavour": "cert", "skeytype": "rsa", "directed": True}
    desc = {"case": cid, "features": P["dres"], "sni": sni,
            "outcome": [outcome(tc), outcome(ts)]}
    if tc.status != "done" or ts.status != "done":
        ctx.violation(dict(fkey, clause="honest_handshake_failed",
                           ver=pair.VNAME[ver]), desc,
                      "%r / %r" % (tc.exc, ts.exc))
        return
    first = {"etm": bool(p.s.encryptThenMAC), "ems": bool(
        p.s.extendedMasterSecret), "suite": p.s.session.cipherSuite}
    ctx.count("directed_resumption_sources")
    if alpn2 != "same":
        if alpn2:
            fl.alpn_c = [alpn2.encode(), b"spare"]
            fl.alpn_s = [b"other", alpn2.encode()]
        else:
            fl.alpn_c = fl.alpn_s = None
        desc["alpn"] = P["alpn"]
        fkey = dict(fkey, alpn_changed=True)
    resumed_agreement(ctx, p, fl, fkey, desc, want=first, cauth=cauth,
                      alpn=alpn2)


# host names of every valid shape (tlslite.utils.dns_utils): trailing dot,
# single label, digits first, hyphens, 63-byte labels, 253 bytes in all
SNI_SHAPES = ["server.example.", "localhost", "1host.example",
              "a-b.c--d.example", "x" * 63 + ".example",
              ".".join(["a" * 49] * 5) + ".abc", "xn--nxasmq6b.example",
              "0.0.0.a"]


PRIME_1031 = int(
    "6f19c042d42f28622111c312ad0a203d3143a5c297661361088b945dd68d79c41c4723de"
    "8715154fb9d4f5b1d1a6fc89b2fb2e0005ffecb060c8f9933b7bb88f80e6dbd4cc8a1ff6"
    "e27ce82577c9642ae11b240b1d59f2beb59b85d0d4c553557d25c86239ea1e5a51a6cb27"
    "9c18122cc0cf021a5e11ec21e56086d7cb32fcf5c3", 16)      # 1031 bits


def draw(rng):
    """random pair of settings and flavour"""
    p_keep = rng.choice([0.3, 0.5, 0.7, 0.85])
    cd, cs = policy.gen_valid(rng, p_keep=p_keep)
    sd, ss = policy.gen_valid(rng, p_keep=p_keep)
    # EMS / EtM switches (each side on its own)
    for hs_, dd in ((cs, cd), (ss, sd)):
        if rng.random() < 0.25:
            hs_.useExtendedMasterSecret = False
            hs_.requireExtendedMasterSecret = False
            dd["useExtendedMasterSecret"] = False
        if rng.random() < 0.2:
            hs_.useEncryptThenMAC = False
            dd["useEncryptThenMAC"] = False
    kind = rng.choice(["cert"] * 6 + ["srp", "srp_cert", "anon", "psk"])
    skey = rng.choice(SKEYS)
    if kind == "srp_cert" and rng.random() < 0.8:
        skey = "rsa"
    ckey = None
    req_cert = False
    if kind == "cert" and rng.random() < 0.3:
        req_cert = True
        ckey = rng.choice(CKEYS + [None])
    elif kind == "cert" and rng.random() < 0.15:
        # the client holds a certificate that nobody asks for
        ckey = rng.choice(CKEYS)
    alpn_c = alpn_s = npn_c = npn_s = None
    if rng.random() < 0.3:
        alpn_c = rng.sample(PROTOS, rng.randint(1, 3))
    if rng.random() < 0.3:
        alpn_s = rng.sample(PROTOS, rng.randint(1, 3))
    if rng.random() < 0.1:
        npn_c = []
        npn_s = rng.sample(PROTOS, rng.randint(1, 3))
    sni = rng.choice([None, None, "example.com", "host.test",
                      "WWW.Example.COM"] + SNI_SHAPES)
    if kind == "psk":
        psk = (creds.PSK_ID, creds.PSK_SECRET, rng.choice(["sha256",
                                                           "sha384"]))
        cs.pskConfigs = [psk]
        ss.pskConfigs = [psk if rng.random() < 0.9 else
                         (b"other", b"\x01" * 32)]
        modes = rng.choice([["psk_dhe_ke", "psk_ke"], ["psk_ke"],
                            ["psk_dhe_ke"]])
        cs.psk_modes = list(modes)
        ss.psk_modes = list(rng.choice([["psk_dhe_ke", "psk_ke"],
                                        ["psk_dhe_ke", "psk_ke"],
                                        ["psk_ke"], ["psk_dhe_ke"]]))
        if rng.random() < 0.3:
            skey = None
    resume = kind in ("cert", "srp", "srp_cert", "anon") and \
        rng.random() < 0.3
    cache = None
    if resume:
        from tlslite.sessioncache import SessionCache
        from vt.flavours import TK
        if rng.random() < 0.5:
            cache = SessionCache()
        else:
            ss.ticketKeys = TK
    return (cd, cs, sd, ss, kind, skey, ckey, req_cert, alpn_c, alpn_s, npn_c,
            npn_s, sni, resume, cache)


def run_case(ctx, cid, P):
    if "dres" in P:
        return run_dres(ctx, cid, P)
    if "dchain" in P:
        return run_dchain(ctx, cid, P)
    if "helper" in P:
        return run_helper(ctx, cid, P)
    rng = ctx.rng
    if "dsig" in P:
        # directed: one side allows exactly one hash for the signature
        # family of the server's key; everything else is default
        fam, h, side, dver, skey = P["dsig"]
        attr = {"rsa": "rsaSigHashes", "ecdsa": "ecdsaSigHashes",
                "dsa": "dsaSigHashes"}[fam]
        d1 = {attr: [h], "minVersion": tuple(dver), "maxVersion": tuple(dver)}
        d0 = {"minVersion": tuple(dver), "maxVersion": tuple(dver)}
        cd, sd = (d1, d0) if side == "client" else (d0, d1)
        cs, ss = policy.build(cd), policy.build(sd)
        kind, ckey, req_cert = "cert", None, False
        alpn_c = alpn_s = npn_c = npn_s = sni = None
        resume, cache = False, None
        ctx.count("directed_signature_policies")
    elif "dreq13" in P:
        # a TLS 1.3 server asked to request a client certificate while its
        # settings leave no scheme a client could sign with (the server's
        # own brainpool key does not depend on those lists): whatever
        # happens, it is not an internal error of the library
        cd = {"minVersion": (3, 4), "maxVersion": (3, 4)}
        sd = {"minVersion": (3, 4), "maxVersion": (3, 4),
              "rsaSchemes": ["pkcs1"], "ecdsaSigHashes": [],
              "more_sig_schemes": []}
        cs, ss = policy.build(cd), policy.build(sd)
        kind, skey, ckey, req_cert = "cert", "bp256", P["dreq13"], True
        alpn_c = alpn_s = npn_c = npn_s = sni = None
        resume, cache = False, None
        ctx.count("directed_request_without_schemes")
    elif "ddh" in P:
        cver, kx, kind, lo, hi = P["ddh"]
        cver = tuple(cver)
        cd = {"minVersion": cver, "maxVersion": cver,
              "keyExchangeNames": [kx], "dhGroups": [], "minKeySize": lo,
              "maxKeySize": hi}
        sd = {"minVersion": cver, "maxVersion": cver,
              "keyExchangeNames": [kx], "dhParams": (2, PRIME_1031)}
        cs, ss = policy.build(cd), policy.build(sd)
        skey = "rsa" if kind == "cert" else None
        ckey, req_cert = None, False
        alpn_c = alpn_s = npn_c = npn_s = sni = None
        resume, cache = False, None
        ctx.count("directed_odd_dh_prime")
    elif "dnoext" in P:
        cver, kx, kind, g = P["dnoext"]
        cver = tuple(cver)
        cd = {"minVersion": (3, 0), "maxVersion": cver,
              "keyExchangeNames": [kx]}
        if cver > (3, 0):
            # TLS: the client offers no group of that family at all
            cd["eccCurves" if "ec" in kx else "dhGroups"] = \
                ["x448"] if "ec" in kx else []
            if "ec" in kx:
                cd["keyShares"] = []
        sd = {"minVersion": (3, 0), "maxVersion": (3, 3),
              "keyExchangeNames": [kx]}
        sd["eccCurves" if "ec" in kx else "dhGroups"] = [g]
        sd["keyShares"] = []
        cs, ss = policy.build(cd), policy.build(sd)
        skey = "rsa" if kind == "cert" else None
        ckey, req_cert = None, False
        alpn_c = alpn_s = npn_c = npn_s = sni = None
        resume, cache = False, None
        ctx.count("directed_no_group_offer")
    else:
        (cd, cs, sd, ss, kind, skey, ckey, req_cert, alpn_c, alpn_s, npn_c,
         npn_s, sni, resume, cache) = draw(rng)
    try:
        vcs, vss = cs.validate(), ss.validate()
    except ValueError:
        ctx.count("regen_invalid")
        return
    # the policy oracle works from what the *application* configured: the
    # lists below are taken from the raw settings, not from the library's
    # validated copy (which is itself code under observation)
    for raw, val in ((cs, vcs), (ss, vss)):
        for a in ("rsaSigHashes", "rsaSchemes", "ecdsaSigHashes",
                  "dsaSigHashes", "more_sig_schemes", "keyExchangeNames",
                  "psk_modes", "eccCurves", "dhGroups", "minKeySize",
                  "maxKeySize"):
            v = getattr(raw, a)
            setattr(val, a, list(v) if isinstance(v, list) else v)
    fl = Flavor(kind, skey=skey, ckey=ckey, req_cert=req_cert, cset=cs,
                sset=ss, alpn_c=alpn_c, alpn_s=alpn_s, npn_c=npn_c,
                npn_s=npn_s, sni=sni, session_cache=cache)
    p = Pair()
    try:
        tc, ts = p.handshake(fl)
    except Exception as e:   # noqa
        ctx.inconc("harness: %r" % (e,))
        return
    ctx.ev()
    ctx.count("pairs")
    oc, os_ = outcome(tc), outcome(ts)
    desc = {"case": cid, "kind": kind, "skey": skey, "ckey": ckey,
            "req_cert": req_cert, "client": cd, "server": sd,
            "alpn": [alpn_c, alpn_s], "sni": sni, "outcome": [oc, os_]}
    fkey = {"flavour": kind, "skeytype": KEYTYPE.get(skey)}

    # ---------------- failure side
    if tc.status != "done" or ts.status != "done":
        judge_failure(ctx, p, tc, ts, oc, os_, fkey, desc)
        return
    # ---------------- both completed: view comparison
    ctx.count("both_complete")
    c, s = p.c, p.s
    vc, vs = pair.view(c), pair.view(s)
    for k in vc:
        if k == "resumed":
            continue
        if vc[k] != vs[k]:
            ctx.violation(dict(fkey, clause="view_mismatch", field=k), desc,
                          "%s differs: %r vs %r" % (k, vc[k], vs[k]))
    ver = tuple(c.version)
    for lab, ln in ((b"EXPORTER-vt-one", 20), (b"EXPORTER-vt-two", 77)):
        if ver >= (3, 1):
            try:
                a = bytes(c.keyingMaterialExporter(bytearray(lab), ln))
                b = bytes(s.keyingMaterialExporter(bytearray(lab), ln))
            except Exception as e:   # noqa
                ctx.violation(dict(fkey, clause="exporter_raises",
                                   exc=type(e).__name__), desc, repr(e))
                continue
            if a != b or len(a) != ln:
                ctx.violation(dict(fkey, clause="view_mismatch",
                                   field="exporter"), desc, "exporter differs")
    pairs_ = [
        ("ems_conn", c.extendedMasterSecret, s.extendedMasterSecret),
        ("etm_conn", bool(c.encryptThenMAC), bool(s.encryptThenMAC)),
        ("next_proto", c.next_proto, s.next_proto),
        ("serverName", c.session.serverName, s.session.serverName),
        ("srpUsername", c.session.srpUsername, s.session.srpUsername),
        ("send/recv limit c->s", c._send_record_limit, s._recv_record_limit),
        ("send/recv limit s->c", s._send_record_limit, c._recv_record_limit),
        ("serverCertChain", chain_bytes(c.session.serverCertChain),
         chain_bytes(s.session.serverCertChain)),
        ("clientCertChain", chain_bytes(c.session.clientCertChain),
         chain_bytes(s.session.clientCertChain)),
    ]
    for name, a, b in pairs_:
        if name == "srpUsername":
            a = a.decode() if isinstance(a, (bytes, bytearray)) else a
            b = b.decode() if isinstance(b, (bytes, bytearray)) else b
            a, b = a or None, b or None
        if name == "serverCertChain" and (a is None or b is None) and \
                kind in ("psk", "srp", "anon"):
            # no Certificate message was exchanged: the server's session
            # merely remembers its own configuration
            continue
        if name.startswith("send/recv") and ver == (3, 4):
            pass
        if a != b:
            ctx.violation(dict(fkey, clause="view_mismatch", field=name),
                          desc, "%s differs: %r vs %r" % (name, a, b))
    # chains equal to what was configured
    if kind in ("cert", "srp_cert") or (kind == "psk" and
                                        c.session.serverCertChain):
        conf = chain_bytes(creds.server(skey)[0]) if skey else None
        if c.session.serverCertChain is not None and \
                chain_bytes(c.session.serverCertChain) != conf:
            ctx.violation(dict(fkey, clause="view_mismatch",
                               field="serverCertChain_vs_config"), desc, "")
    if ckey and s.session.clientCertChain is not None:
        if chain_bytes(s.session.clientCertChain) != \
                chain_bytes(creds.client(ckey)[0]):
            ctx.violation(dict(fkey, clause="view_mismatch",
                               field="clientCertChain_vs_config"), desc, "")
    if sni is not None and s.session.serverName not in (sni, None) and \
            bytes(s.session.serverName or b"") != sni.encode():
        ctx.violation(dict(fkey, clause="view_mismatch", field="sni"),
                      desc, "server name %r != %r" % (s.session.serverName,
                                                      sni))
    # ALPN
    ap = c.session.appProto
    if ap:
        ap = bytes(ap)
        if alpn_c is None or ap not in alpn_c or alpn_s is None or \
                ap not in alpn_s:
            ctx.violation(dict(fkey, clause="alpn_outside_lists"), desc,
                          "negotiated %r" % ap)
        ctx.count("alpn_negotiated")
    # ---------------- policy oracle
    su = suites.TABLE.get(c.session.cipherSuite)
    if su is None:
        ctx.violation(dict(fkey, clause="unknown_suite"), desc,
                      hex(c.session.cipherSuite))
        return
    neg = {"version": ver, "suite": su, "ems": c.extendedMasterSecret}
    # group / scheme from the wire (<=1.2) or the endpoints (1.3)
    group = None
    scheme = None
    dh_bits = None
    if ver <= (3, 3):
        msgs = wire.plain_handshake(p.link.records, "s2c")
        for t, body in msgs:
            if t == 12 and su.ske in ("dh", "ecdh", "srp"):
                try:
                    ske = wire.parse_ske(body, su.ske, ver)
                except Exception:   # noqa
                    break
                if su.ske == "ecdh":
                    group = wire.GROUPS.get(ske.named_curve,
                                            "unknown:%d" % ske.named_curve)
                elif su.ske == "dh":
                    dh_bits = ske.p.bit_length()
                    from vt.refs import ffdhe
                    group = ffdhe.name_of(ske.p)
                if ske.sig_scheme:
                    scheme = wire.scheme_info(ske.sig_scheme)
    else:
        if c.ecdhCurve is not None:
            group = wire.GROUPS.get(c.ecdhCurve, "unknown:%s" % c.ecdhCurve)
        if c.ecdhCurve != s.ecdhCurve:
            ctx.violation(dict(fkey, clause="view_mismatch", field="group"),
                          desc, "%r vs %r" % (c.ecdhCurve, s.ecdhCurve))
        # which PSK key exchange mode did the ServerHello select?
        for t, body in wire.plain_handshake(p.link.records, "s2c"):
            if t != 2:
                continue
            sh = wire.parse_server_hello(body)
            if sh.is_hrr:
                continue
            if wire.ext(sh, 41) is not None:
                mode = "psk_dhe_ke" if wire.ext(sh, 51) is not None \
                    else "psk_ke"
                ctx.count("psk_mode:" + mode)
                for role, vset in (("client", vcs), ("server", vss)):
                    if mode not in vset.psk_modes:
                        ctx.violation(dict(fkey, clause="outside_policy",
                                           role=role, dim="psk_mode",
                                           ver="TLS1.3"), desc,
                                      "%s negotiated, %s allows %r" % (
                                          mode, role, vset.psk_modes))
        if c.serverSigAlg is not None:
            scheme = wire.scheme_info(c.serverSigAlg)
        if c.serverSigAlg != s.serverSigAlg and kind != "psk":
            ctx.violation(dict(fkey, clause="view_mismatch",
                               field="serverSigAlg"), desc, "%r vs %r" % (
                                   c.serverSigAlg, s.serverSigAlg))
    neg.update(group=group, dh_bits=dh_bits, scheme=scheme)
    negc = dict(neg, peer_key=peer_key_info(c.session.serverCertChain))
    negs = dict(neg, peer_key=peer_key_info(s.session.clientCertChain))
    for role, vset, n in (("client", vcs, negc), ("server", vss, negs)):
        for why in policy.within(vset, n, role):
            dim = why.split(" ")[0]
            k = dict(fkey, clause="outside_policy", role=role,
                     dim=dim, ver=pair.VNAME[ver])
            if dim == "signature" and scheme:
                k["sfam"] = scheme[0]
            ctx.violation(k, desc, why)
        ctx.ev()
    if scheme and skey and ver >= (3, 3) and \
            not policy.scheme_fits_key(scheme[0], scheme[1], KEYTYPE[skey]):
        ctx.violation(dict(fkey, clause="scheme_key_mismatch",
                           scheme=scheme[0]), desc, "%r with %s key" % (
                               scheme, skey))
    # client-side check of ecdsa cert curve for <= 1.2
    pk = negc["peer_key"]
    if pk and pk[0] == "ecdsa" and ver <= (3, 3):
        cn = {"NIST256p": "secp256r1", "NIST384p": "secp384r1",
              "NIST521p": "secp521r1", "BRAINPOOLP256r1": "brainpoolP256r1",
              "BRAINPOOLP384r1": "brainpoolP384r1",
              "BRAINPOOLP512r1": "brainpoolP512r1"}.get(pk[2], pk[2])
        if cn not in vcs.eccCurves:
            ctx.violation(dict(fkey, clause="outside_policy", role="client",
                               dim="certcurve", ver=pair.VNAME[ver]), desc,
                          "server cert curve %s not in client eccCurves" % cn)
    ctx.cell("negotiated", "%s|%s|%s|%s" % (pair.VNAME[ver], su.name, group,
                                           scheme))
    ctx.cell("outcome", "%s|ok" % kind)
    # which restriction was binding?
    for dim in ("cipherNames", "macNames", "keyExchangeNames", "eccCurves",
                "minVersion", "maxVersion", "rsaSigHashes", "rsaSchemes",
                "ecdsaSigHashes", "more_sig_schemes", "dhGroups",
                "keyShares", "versions"):
        if dim in cd or dim in sd:
            ctx.cell("binding", dim + "/" + pair.VNAME[ver])
    ctx.sample({"case": cid, "kind": kind, "skey": skey,
                "negotiated": [pair.VNAME[ver], su.name, group, scheme],
                "client_overrides": cd, "server_overrides": sd})
    if resume:
        resumed_agreement(ctx, p, fl, fkey, desc)


def resumed_agreement(ctx, p, fl, fkey, desc, want=None, cauth=False,
                      alpn="same"):
    """the same two parties connect again offering the session: both ends of
    the second connection must agree as well (whether or not it resumed)"""
    from vt.flavours import pump
    try:
        pump(p, p.c, p.csock)
    except Exception:   # noqa
        pass
    t1 = drive.Task("cc", drive.aclose(p.c), p.csock)
    t2 = drive.Task("sc", drive.aclose(p.s), p.ssock)
    drive.run([t1, t2], p.link)
    sess = p.c.session
    if sess is None or not sess.valid():
        ctx.count("resume_source_unusable")
        return
    fl.session = sess
    # the server's policy may have changed since the session was stored
    # (same cache / ticket key): whatever the second connection negotiates
    # must lie inside the settings in force *now*
    rng = ctx.rng
    changed = None
    if want is None and rng.random() < 0.5 and \
            sess.cipherSuite in suites.TABLE:
        su0 = suites.TABLE[sess.cipherSuite]
        import copy as _copy
        ss2 = _copy.copy(fl.sset)
        what = rng.choice(["cipher", "mac", "kx"])
        if what == "cipher":
            rest = [c for c in ss2.cipherNames if c != su0.cipher]
            if rest:
                ss2.cipherNames = rest
                changed = "cipherNames"
        elif what == "mac" and su0.mac:
            rest = [m for m in ss2.macNames if m != su0.mac]
            if rest:
                ss2.macNames = rest
                changed = "macNames"
        elif what == "kx" and not su0.tls13:
            rest = [k for k in ss2.keyExchangeNames if k != su0.kx_setting]
            if rest:
                ss2.keyExchangeNames = rest
                changed = "keyExchangeNames"
        if changed:
            try:
                ss2.validate()
                fl.sset = ss2
            except ValueError:
                changed = None
    p2 = Pair()
    tc, ts = p2.handshake(fl)
    ctx.ev()
    if changed:
        ctx.count("second_connection_policy_changed:" + changed)
        if tc.status == "done" and ts.status == "done":
            su1 = suites.TABLE.get(p2.s.session.cipherSuite)
            vs2 = fl.sset.validate()
            for a in ("cipherNames", "macNames", "keyExchangeNames"):
                setattr(vs2, a, list(getattr(fl.sset, a)))
            if su1 is not None:
                for why in policy.within(vs2, {
                        "version": tuple(p2.s.version), "suite": su1,
                        "ems": p2.s.extendedMasterSecret}, "server"):
                    ctx.violation(dict(fkey, clause="outside_policy",
                                       role="server", dim=why.split(" ")[0],
                                       phase="second",
                                       resumed=bool(p2.s.resumed)), desc,
                                  "second connection (policy changed: %s): "
                                  "%s" % (changed, why))
    if tc.status != "done" or ts.status != "done":
        ctx.count("second_connection_failed")
        ctx.cell("outcome", "second|%s|%s" % (outcome(tc), outcome(ts)))
        return
    c, s = p2.c, p2.s
    ctx.count("second_connection:" + ("resumed" if c.resumed else "full"))
    fk = dict(fkey, phase="second", resumed=bool(c.resumed))
    if bool(c.resumed) != bool(s.resumed):
        ctx.violation(dict(fk, clause="view_mismatch", field="resumed"),
                      desc, "client %r server %r" % (c.resumed, s.resumed))
    vc, vs = pair.view(c), pair.view(s)
    for k in vc:
        if k != "resumed" and vc[k] != vs[k]:
            ctx.violation(dict(fk, clause="view_mismatch", field=k), desc,
                          "%s differs: %r vs %r" % (k, vc[k], vs[k]))
    if tuple(c.version) >= (3, 1):
        for lab, ln in ((b"EXPORTER-vt-one", 20), (b"EXPORTER-vt-2", 64)):
            try:
                a = bytes(c.keyingMaterialExporter(bytearray(lab), ln))
                b = bytes(s.keyingMaterialExporter(bytearray(lab), ln))
            except Exception as e:   # noqa
                ctx.violation(dict(fk, clause="exporter_raises",
                                   exc=type(e).__name__), desc, repr(e))
                continue
            if a != b or len(a) != ln:
                ctx.violation(dict(fk, clause="view_mismatch",
                                   field="exporter"), desc,
                              "exporter differs on the second connection")
    if alpn != "same":
        # the application protocol is the one negotiated on *this*
        # connection (RFC 7301 3.1: not carried over by resumption)
        wantp = alpn.encode() if alpn else b""
        for who, conn in (("client", c), ("server", s)):
            have = bytes(conn.session.appProto or b"")
            if have != wantp:
                ctx.violation(dict(fk, clause="view_mismatch",
                                   field="appProto_vs_offer", who=who), desc,
                              "%s reports application protocol %r on the "
                              "second connection, negotiated there: %r" % (
                                  who, have, wantp))
    for name, a, b in (
            ("ems_conn", c.extendedMasterSecret, s.extendedMasterSecret),
            ("etm_conn", bool(c.encryptThenMAC), bool(s.encryptThenMAC)),
            ("serverName", c.session.serverName or None,
             s.session.serverName or None)):
        if a != b:
            ctx.violation(dict(fk, clause="view_mismatch", field=name), desc,
                          "%s differs: %r vs %r" % (name, a, b))
    if want is not None:
        # unchanged offer to the unchanged server: the second connection has
        # the first one's protection whether or not it resumed
        have = {"etm": bool(s.encryptThenMAC), "ems": bool(
            s.extendedMasterSecret), "suite": s.session.cipherSuite}
        for k in want:
            if want[k] != have[k]:
                ctx.violation(dict(fk, clause="second_connection_weaker",
                                   field=k), desc,
                              "%s was %r on the first connection and is %r "
                              "on the second (resumed=%s)" % (
                                  k, want[k], have[k], bool(s.resumed)))
        if cauth and s.resumed and (s.session.clientCertChain is None or
                                    not s.session.clientCertChain.getNumCerts()):
            ctx.violation(dict(fk, clause="view_mismatch",
                               field="clientCertChain"), desc,
                          "client identity lost on the resumed connection")
        if not c.resumed:
            ctx.count("directed_not_resumed")
    ctx.cell("outcome", "second|%s|%s" % (pair.VNAME[tuple(c.version)],
                                         "resumed" if c.resumed else "full"))


def judge_failure(ctx, p, tc, ts, oc, os_, fkey, desc):
    ctx.count("not_both_complete")
    cls_c = mon.classify_exc(tc.exc) if tc.exc else tc.status
    cls_s = mon.classify_exc(ts.exc) if ts.exc else ts.status
    ctx.cell("outcome", "%s|%s|%s" % (fkey["flavour"], cls_c, cls_s))
    for who, t, cls in (("client", tc, cls_c), ("server", ts, cls_s)):
        if cls.startswith("undocumented") or \
                (cls.startswith("tls:") and t.exc is not None):
            # ValueError raised before any byte was sent = local
            # misconfiguration reported to the caller (documented)
            if (isinstance(t.exc, ValueError) or who == "client") and \
                    len(p.link.recs("c2s" if who == "client" else "s2c")) == 0:
                # the client failed before sending a byte: a local
                # configuration problem reported to its caller (C19's
                # business), not a negotiation outcome
                ctx.count("local_config_error")
                ctx.cell("local_config", type(t.exc).__name__)
                continue
            import traceback
            ctx.violation(dict(fkey, clause="fail_without_alert", role=who,
                               exc=type(t.exc).__name__, frame=t.frame()),
                          dict(desc, tb=traceback.format_list(t.tb)[-4:]),
                          "handshake failed with %r" % (t.exc,))
        if t.status in ("stalled", "budget"):
            other = ts if t is tc else tc
            # waiting forever for a peer that failed locally before sending
            if other.status == "exc" and isinstance(other.exc, ValueError):
                continue
            ctx.violation(dict(fkey, clause="stall", role=who,
                               st=t.status), desc, "handshake stalled")
    one_done = (tc.status == "done") != (ts.status == "done")
    if one_done:
        ctx.count("one_sided")
        return
    la = [t for t in (tc, ts) if isinstance(t.exc, E.TLSLocalAlert)]
    ra = [t for t in (tc, ts) if isinstance(t.exc, E.TLSRemoteAlert)]
    if la:
        ctx.count("failed_with_alert")
        other = ts if la[0] is tc else tc
        if other.status == "exc" and not isinstance(
                other.exc, (E.TLSRemoteAlert, E.TLSLocalAlert, ValueError,
                            E.TLSAbruptCloseError)):
            pass   # reported above
        if isinstance(other.exc, E.TLSRemoteAlert) and \
                other.exc.description != la[0].exc.description:
            ctx.violation(dict(fkey, clause="alert_mismatch"), desc,
                          "%r vs %r" % (la[0].exc, other.exc))
    elif not ra:
        # nobody sent an alert
        if any(isinstance(t.exc, ValueError) for t in (tc, ts)) or \
                (tc.status == "exc" and len(p.link.recs("c2s")) == 0):
            ctx.count("local_config_error")
            return
        ctx.violation(dict(fkey, clause="failed_no_alert", c=cls_c, s=cls_s),
                      desc, "neither completed and no alert was raised")


def run(ctx):
    for cid, P in ctx.cases(make_cases(ctx)):
        run_case(ctx, cid, P)


def finalize(m, tier):
    out = []
    c = m["counters"]
    if c.get("both_complete", 0) < 50:
        out.append("fewer than 50 both-complete outcomes")
    if c.get("failed_with_alert", 0) < 20:
        out.append("fewer than 20 failed-with-alert outcomes")
    oc = m["cells"].get("outcome", set())
    for k in ("cert", "srp", "srp_cert", "anon", "psk"):
        if (k + "|ok") not in oc:
            out.append("no completed handshake for flavour " + k)
    return out
