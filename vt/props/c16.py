"""C16 - post-handshake control traffic never disturbs data or key sync."""
import hashlib
import hmac

from vt import boot  # noqa
from vt import pair, flavours, mon, drive, adv, wire, creds
from vt.pair import Pair, Flavor, ver_settings, outcome

from tlslite import errors as E
from tlslite.constants import KeyUpdateMessageType

LEVEL = "exploration"
RULE = ("one case = an established pair (each TLS 1.3 suite, with/without "
        "tickets, with/without client certificate; TLS <= 1.2 with heartbeat "
        "and tickets) and a seeded history of 5-60 operations issued by "
        "either end: write, read (min 0 and blocking style), KeyUpdate "
        "(requested / not requested), post-handshake client auth, heartbeat "
        "(payload, padding), close; the two generators are interleaved at "
        "single-step granularity so KeyUpdates cross, requests arrive with "
        "buffered unread data, several PHA requests are outstanding. Oracle: "
        "FIFO stream model on both directions, traffic secrets equal on both "
        "ends at quiescence and equal to the harness's own HKDF 'traffic "
        "upd' chain applied once per KeyUpdate sent in that direction, "
        "heartbeat echo equals the request payload, client chain recorded "
        "only by a completed PHA; plus negative control messages which must "
        "Also: histories on resumed connections, KeyUpdates crossing a "
        "pending post-handshake authentication request under every "
        "request configuration, pump reads (max=0), one more record "
        "each way opened with independently derived key and IV, "
        "negatives after HelloRetryRequest.   "
        "draw a fatal alert. distinct_nontrivial = distinct (suite, history "
        "shape: ops used, crossings) cells + distinct negative cells.")
ASSUMPTIONS = [
    "PHA corruption classes are C05's subject; here PHA is honest",
    "heartbeat requests with padding < 16 are silently ignored (RFC 6520)",
]
NONTRIVIAL = ["cell", "neg"]
DEADLINE = {"quick": 90, "thorough": 900}


def hkdf_expand_label(secret, label, ctx_hash, length, hname):
    h = getattr(hashlib, hname)
    full = b"tls13 " + label
    info = length.to_bytes(2, "big") + bytes([len(full)]) + full + \
        bytes([len(ctx_hash)]) + ctx_hash
    out = b""
    t = b""
    i = 1
    while len(out) < length:
        t = hmac.new(secret, t + info + bytes([i]), h).digest()
        out += t
        i += 1
    return out[:length]


def upd(secret, hname):
    return hkdf_expand_label(bytes(secret), b"traffic upd", b"",
                             getattr(hashlib, hname)().digest_size, hname)


T13 = [(0x1301, "aes128gcm", "sha256"), (0x1302, "aes256gcm", "sha384"),
       (0x1303, "chacha20-poly1305", "sha256"),
       (0x1304, "aes128ccm", "sha256"), (0x1305, "aes128ccm_8", "sha256")]


def make_cases(ctx):
    n = ctx.pick(400, 10000)
    for i in range(n):
        yield "h%d" % i, dict(i=i)
    negs = ["hb_not_allowed", "ku_unknown_type", "ku_in_tls12",
            "cr_without_pha_ext", "cert_unknown_context", "ccs_post_13",
            "nst_to_server", "nst_to_server_pha_pending",
            "hb_declared_longer", "hb_short_padding",
            "finished_post_handshake", "cr_to_server",
            "pha_bad_finished", "pha_bad_signature", "pha_no_verify",
            "pha_scheme_not_advertised",
            "pha_replay_answer", "hb_not_negotiated", "ku_straddle"]
    for k in negs:
        for r in range(ctx.pick(2, 10)):
            yield "neg-%s-%d" % (k, r), dict(neg=k, r=r)
    # KeyUpdates crossing a post-handshake authentication request, for every
    # way the request can be configured
    for comp in ("default", "none", "zlib"):
        for sig in ("default", "one"):
            for kinds in ((True,), (False,), (True, False), (False, False)):
                for sku in (0, 1):
                    yield ("cross-%s-%s-%s-%d" % (
                        comp, sig, "".join("rn"[not k] for k in kinds), sku),
                        dict(cross=True, comp=comp, sig=sig,
                             kinds=list(kinds), sku=sku))


def establish(rng, ver, with_tickets, ckey, hb=True, suite=None,
              client_cb=True, server_hb=None, resume=False, hrr=False):
    # sending heartbeat requests needs a response callback in the settings;
    # an endpoint without one still has to answer the peer's requests
    ckw = dict(use_heartbeat_extension=hb,
               heartbeat_response_callback=(lambda m: None)
               if hb and client_cb else None)
    skw = dict(use_heartbeat_extension=hb,
               heartbeat_response_callback=(lambda m: None) if hb else None)
    if with_tickets:
        skw["ticketKeys"] = [bytes(range(32))]
        skw["ticket_count"] = rng.choice([1, 2, 3])
    if hrr:
        ckw["keyShares"] = []
    if suite:
        ckw["cipherNames"] = [suite[1]]
        skw["cipherNames"] = [suite[1]]
    if server_hb is not None:
        skw["use_heartbeat_extension"] = server_hb
        if not server_hb:
            skw["heartbeat_response_callback"] = None
    cs = ver_settings(ver, **ckw)
    ss = ver_settings(ver, **skw)
    fl = Flavor("cert", skey=rng.choice(["rsa", "ecdsa256"]), ckey=ckey,
                cset=cs, sset=ss)
    if resume:
        # the connection the history runs on is a resumed one (session ID,
        # or ticket where the server issues them)
        from tlslite.sessioncache import SessionCache
        from vt.flavours import pump
        fl.session_cache = SessionCache()
        p0 = Pair()
        t0c, t0s = p0.handshake(fl)
        if t0c.status != "done" or t0s.status != "done":
            return p0, t0c, t0s
        pump(p0, p0.c, p0.csock)
        drive.run([drive.Task("cc", drive.aclose(p0.c), p0.csock),
                   drive.Task("sc", drive.aclose(p0.s), p0.ssock)], p0.link)
        fl.session = p0.c.session
    p = Pair()
    tc, ts = p.handshake(fl)
    return p, tc, ts


class End(object):
    def __init__(self, name, conn, sock):
        self.name = name
        self.conn = conn
        self.sock = sock
        self.ops = []        # planned ops
        self.hb_sent = []
        self.hb_got = []
        self.ku_sent = 0
        self.log = []
        self.err = None


def run_history(ctx, cid, P):
    rng = ctx.rng
    t13 = rng.random() < 0.7
    ver = (3, 4) if t13 else rng.choice([(3, 1), (3, 2), (3, 3)])
    suite = rng.choice(T13) if t13 else None
    ckey = rng.choice([None, "rsa", "ecdsa"]) if t13 else None
    tickets = rng.random() < 0.6
    client_cb = rng.random() < 0.7
    resume = rng.random() < 0.3 and (ver < (3, 4) or tickets)
    p, tc, ts = establish(rng, ver, tickets, ckey, True, suite,
                          client_cb=client_cb, resume=resume)
    if resume and tc.status == "done" and ts.status == "done":
        ctx.count("histories_on_resumed_connection" if p.c.resumed
                  else "histories_resumption_declined")
    if tc.status != "done" or ts.status != "done":
        ctx.violation({"clause": "control_handshake_failed",
                       "ver": pair.VNAME[ver]},
                      {"case": cid, "outcome": [outcome(tc), outcome(ts)]},
                      "%r %r" % (tc.exc, ts.exc))
        return
    hname = suite[2] if t13 else None
    C = End("c", p.c, p.csock)
    S = End("s", p.s, p.ssock)
    ends = {"c": C, "s": S}
    fifo = {"c": mon.Fifo(cid + "/c2s"), "s": mon.Fifo(cid + "/s2c")}
    peer = {"c": "s", "s": "c"}
    sec0 = (bytes(p.c.session.cl_app_secret or b""),
            bytes(p.c.session.sr_app_secret or b"")) if t13 else None
    for e in (C, S):
        if e is C and not client_cb:
            ctx.count("client_without_heartbeat_callback")
            continue

        def cb(msg, e=e):
            e.hb_got.append(bytes(msg.payload))
        e.conn.heartbeat_response_callback = cb
    nops = rng.randint(5, ctx.pick(25, 60))
    pha_requests = 0
    used = set()
    # each end gets its own program; they run interleaved
    plan = {"c": [], "s": []}
    pending_bytes = {"c": 0, "s": 0}     # written by X, to be read by peer
    for _ in range(nops):
        who = rng.choice("cs")
        r = rng.random()
        if r < 0.35:
            n = rng.choice([0, 1, 17, 300, 2 ** 14 + 5])
            plan[who].append(("write", n))
            pending_bytes[who] += n
            used.add("write")
        elif r < 0.55:
            plan[who].append(("read0",))
            used.add("read0")
        elif r < 0.72 and t13:
            plan[who].append(("ku", rng.random() < 0.5))
            used.add("ku")
        elif r < 0.80 and t13 and who == "s" and ckey:
            plan[who].append(("pha", rng.choice([None, None, "none",
                                                 "zlib"])))
            pha_requests += 1
            used.add("pha")
        elif r < 0.92:
            pl = mon.keystream(cid + "/hb%d" % len(plan[who]),
                               rng.choice([0, 1, 16, 200]))
            plan[who].append(("hb", pl, rng.choice([16, 16, 32, 255])))
            used.add("hb")
        else:
            # the same poll as a pure pump: read(max=0, min=0) handles
            # control messages and must hand out nothing
            plan[who].append(("read0", 0 if rng.random() < 0.5 else None))
    W = {"case": cid, "ver": pair.VNAME[ver], "suite": suite and suite[1],
         "ckey": ckey, "plan_c": [x[:1] + tuple(str(y)[:12] for y in x[1:])
                                  for x in plan["c"]],
         "plan_s": [x[:1] + tuple(str(y)[:12] for y in x[1:])
                    for x in plan["s"]]}
    got = {"c": bytearray(), "s": bytearray()}   # bytes read BY x
    overmax = []
    pumps = [0]

    def prog(who):
        e = ends[who]
        conn = e.conn
        for op in plan[who]:
            if op[0] == "write":
                data = fifo[who].next_write(op[1])
                yield from drive.awrite(conn, data)
            elif op[0] == "read0":
                # poll: read(min=0) processes pending control messages but
                # then waits for one more record (after a KeyUpdate); when
                # it would block at a record boundary the poll is abandoned
                d = "s2c" if who == "c" else "c2s"
                mx = op[1] if len(op) > 1 else None
                if p.link.in_flight(d) or len(conn.sock._read_buffer):
                    g = conn.readAsync(mx, 0)
                    for r in g:
                        if isinstance(r, int) and r in (0, 1):
                            if r == 0 and not p.link.in_flight(d) and \
                                    not len(conn.sock._read_buffer):
                                g.close()
                                break
                            yield r
                        elif r:
                            if mx is not None and len(r) > mx:
                                overmax.append((who, mx, len(r)))
                            got[who].extend(r)
                    if mx == 0:
                        pumps[0] += 1
                yield 1
            elif op[0] == "ku":
                # every third control message goes out with the fragment
                # size set to exactly its length: one record, not a full
                # one followed by an empty one
                exact = (len(e.log) + e.ku_sent + len(e.hb_sent)) % 3 == 0
                if exact:
                    conn.recordSize = 5
                try:
                    for r in conn.send_keyupdate_request(
                            KeyUpdateMessageType.update_requested if op[1]
                            else KeyUpdateMessageType.update_not_requested):
                        yield r
                finally:
                    conn.recordSize = 16384
                e.ku_sent += 1
            elif op[0] == "pha":
                pst = None
                if op[1]:
                    from tlslite.handshakesettings import HandshakeSettings
                    pst = HandshakeSettings()
                    pst.certificate_compression_receive = \
                        [] if op[1] == "none" else [op[1]]
                for r in conn.request_post_handshake_auth(pst):
                    yield r
            elif op[0] == "hb":
                if conn.heartbeat_supported and conn.heartbeat_can_send:
                    if (e.ku_sent + len(e.hb_sent)) % 3 == 0:
                        conn.recordSize = 3 + len(op[1]) + op[2]
                    try:
                        for r in conn.write_heartbeat(op[1], op[2]):
                            yield r
                    finally:
                        conn.recordSize = 16384
                    e.hb_sent.append(bytes(op[1]))
        done[who] = True

    done = {"c": False, "s": False}

    def wrap(who):
        g = prog(who)
        for r in g:
            yield r
        done[who] = True
    t1 = drive.Task("c", wrap("c"), p.csock)
    t2 = drive.Task("s", wrap("s"), p.ssock)
    sched = rng.choice(["rr", "random", "rev", "ahead:0", "ahead:1"])
    drive.run([t1, t2], p.link, schedule=sched, rng=rng, max_steps=60000)
    # quiescence: alternate reads until nothing is in flight either way
    for _ in range(200):
        moved = False
        for who, t in (("c", t1), ("s", t2)):
            e = ends[who]
            d = "s2c" if who == "c" else "c2s"
            guard = 0
            while (p.link.in_flight(d) or len(e.conn.sock._read_buffer)) \
                    and not e.conn.closed and \
                    t.status != "exc" and guard < 500:
                guard += 1
                moved = True
                tt = drive.Task("d", drive.aread(e.conn, None, 0), e.sock)
                drive.run([tt], p.link, max_steps=20000)
                if tt.status == "done":
                    if tt.result:
                        got[who].extend(tt.result)
                elif tt.status == "exc":
                    t.status, t.exc, t.tb = "exc", tt.exc, tt.tb
                elif tt.status == "stalled":
                    # blocked at a record boundary after control messages
                    tt.gen.close()
                else:
                    break
        if not moved:
            break
    # what pump reads left in the connection's own buffer
    for who in ("c", "s"):
        e = ends[who]
        if len(e.conn._readBuffer) and not e.conn.closed:
            tt = drive.Task("d", drive.aread(e.conn, None, 0), e.sock)
            drive.run([tt], p.link, max_steps=2000)
            if tt.status == "done" and tt.result:
                got[who].extend(tt.result)
    ctx.ev()
    ctx.count("histories")
    key = {"ver": pair.VNAME[ver], "t13": t13}
    W["sched"] = sched
    W["status"] = [(t.status, repr(t.exc)) for t in (t1, t2)]
    bad = False
    for who, t in (("c", t1), ("s", t2)):
        if t.status == "exc":
            bad = True
            cl = mon.classify_exc(t.exc)
            ctx.violation(dict(key, clause="history_failed", who=who,
                               exc=type(t.exc).__name__,
                               alert=getattr(t.exc, "description", None),
                               frame=t.frame(),
                               uses="+".join(sorted(used))), W,
                          "honest control-traffic history failed at %s: %r"
                          % (who, t.exc))
        elif t.status in ("budget",):
            bad = True
            ctx.violation(dict(key, clause="spin", who=who), W, "budget")
    ctx.count("pump_reads", pumps[0])
    if overmax:
        who, mx, n = overmax[0]
        ctx.violation(dict(key, clause="read_returned_more_than_max",
                           max=mx), dict(W, who=who, got=n),
                      "read(max=%d, min=0) returned %d bytes" % (mx, n))
    if bad:
        return
    # FIFO model
    for who in ("c", "s"):
        f = fifo[peer[who]]
        err = f.check_read(bytes(got[who]))
        ctx.count("bytes_compared", len(got[who]))
        if err is not None:
            ctx.violation(dict(key, clause="fifo", kind=err["kind"]),
                          dict(W, detail=err), "data stream broken")
            return
        if f.pending:
            ctx.violation(dict(key, clause="undelivered"),
                          dict(W, pending=f.pending, who=who),
                          "%d bytes never delivered to %s" % (f.pending, who))
            return
    # key synchronisation
    if t13:
        cs_, ss_ = p.c.session, p.s.session
        a = (bytes(cs_.cl_app_secret), bytes(cs_.sr_app_secret))
        b = (bytes(ss_.cl_app_secret), bytes(ss_.sr_app_secret))
        if a != b:
            ctx.violation(dict(key, clause="traffic_secrets_differ"), W,
                          "client and server hold different traffic secrets")
        # chain depth: KeyUpdates sent in each direction = explicit ones +
        # responses to 'requested' ones from the peer
        req_c = sum(1 for o in plan["c"] if o[0] == "ku" and o[1])
        req_s = sum(1 for o in plan["s"] if o[0] == "ku" and o[1])
        n_c = sum(1 for o in plan["c"] if o[0] == "ku") + req_s
        n_s = sum(1 for o in plan["s"] if o[0] == "ku") + req_c
        exp_c, exp_s = sec0
        for _ in range(n_c):
            exp_c = upd(exp_c, hname)
        for _ in range(n_s):
            exp_s = upd(exp_s, hname)
        if a[0] != exp_c or a[1] != exp_s:
            # find the actual depth for the report
            def depth(s0, s):
                x = s0
                for d in range(0, 80):
                    if x == s:
                        return d
                    x = upd(x, hname)
                return None
            ctx.violation(dict(key, clause="key_chain_depth",
                               dir="c" if a[0] != exp_c else "s"),
                          dict(W, expected=[n_c, n_s],
                               got=[depth(sec0[0], a[0]),
                                    depth(sec0[1], a[1])]),
                          "traffic secret is not the expected number of "
                          "'traffic upd' steps from the handshake secret")
        # the keys *on the wire* are the ones RFC 8446 7.3 derives from
        # those secrets (key and IV both from the current generation): one
        # more record each way, opened with an independent AEAD
        from vt import suites as _suites
        from vt.props.c20 import verify_13
        su = _suites.TABLE.get(cs_.cipherSuite)
        for d, snd, ssock_, rcv, rsock_, sec in (
                ("c2s", p.c, p.csock, p.s, p.ssock, a[0]),
                ("s2c", p.s, p.ssock, p.c, p.csock, a[1])):
            if su is None or snd.closed or rcv.closed:
                continue
            n0 = len(p.link.recs(d))
            marker = b"final-record-" + d.encode()
            tw = drive.Task("fw", drive.awrite(snd, marker), ssock_)
            drive.run([tw], p.link)
            recs = [r for r in p.link.recs(d)[n0:] if r.type == 23]
            if tw.status != "done" or not recs:
                continue
            res = verify_13(su, sec, recs[-1], range(0, 400))
            ctx.ev()
            ctx.count("wire_keys_checked")
            if res is None or res[2] != marker:
                ctx.violation(dict(key, clause="wire_keys_not_from_secret",
                                   dir=d, updates=n_c if d == "c2s" else n_s),
                              dict(W, record=recs[-1].raw[:80]),
                              "the record written after %d KeyUpdate(s) does "
                              "not open under key and IV derived from the "
                              "current traffic secret" % (
                                  n_c if d == "c2s" else n_s))
            tr = drive.Task("fr", drive.aread(rcv, None, len(marker)), rsock_)
            drive.run([tr], p.link, max_steps=5000)
        ctx.maxi("chain_depth", max(n_c, n_s))
        ctx.count("keyupdates", n_c + n_s)
        if req_c and req_s:
            ctx.count("crossing_histories")
    # heartbeat echoes
    for who in ("c", "s"):
        e = ends[who]
        exp = [x for x in e.hb_sent]
        if e.hb_got != exp:
            # responses may be missing only if the peer never read
            ctx.violation(dict(key, clause="heartbeat_echo",
                               n_sent=len(exp), n_got=len(e.hb_got)),
                          dict(W, who=who), "heartbeat responses differ "
                          "from requests")
        ctx.count("heartbeats", len(exp))
    # PHA
    if pha_requests:
        cc = p.s.session.clientCertChain
        if cc is None or cc.getNumCerts() == 0:
            ctx.violation(dict(key, clause="pha_identity_missing"), W,
                          "post-handshake auth completed without a chain")
        else:
            want = [bytes(x.bytes) for x in creds.client(ckey)[0].x509List]
            if [bytes(x.bytes) for x in cc.x509List] != want:
                ctx.violation(dict(key, clause="pha_identity_wrong"), W, "")
            ctx.count("pha_completed", pha_requests)
    elif t13 and not ckey and p.s.session.clientCertChain:
        ctx.violation(dict(key, clause="identity_invented"), W, "")
    ctx.cell("cell", "%s|%s|%s|%s" % (pair.VNAME[ver], suite and suite[1],
                                     "+".join(sorted(used)), sched))
    if len(ctx.samples) < 4:
        ctx.sample(W)


def run_pha_negative(ctx, cid, P):
    """post-handshake authentication whose proof is incomplete: the chain
    must not be recorded and the server answers with a fatal alert"""
    k = P["neg"]
    rng = ctx.rng
    # (a P-256 key has a single TLS 1.3 scheme: "another scheme" needs RSA)
    p, tc, ts = establish(rng, (3, 4), False,
                          "rsa" if k == "pha_scheme_not_advertised"
                          else rng.choice(["rsa", "ecdsa"]))
    if tc.status != "done" or ts.status != "done":
        ctx.inconc("control failed in %s" % cid)
        return
    if p.s.session.clientCertChain is not None:
        ctx.inconc("client already authenticated in %s" % cid)
        return
    st = {}

    def rw(i, t, msg, raw):
        if k == "pha_replay_answer":
            if t in (11, 25, 15, 20) and not st.get("replaying"):
                st.setdefault("flight", []).append(bytes(raw))
            return None
        if k == "pha_bad_finished" and t == 20:
            st["hit"] = True
            b = bytearray(raw)
            b[4 + rng.randrange(len(b) - 4)] ^= 1 << rng.randrange(8)
            return [adv.Raw(22, bytes(b))]
        if k == "pha_bad_signature" and t == 15:
            st["hit"] = True
            b = bytearray(raw)
            b[8 + rng.randrange(len(b) - 8)] ^= 1 << rng.randrange(8)
            return [adv.Raw(22, bytes(b))]
        if k == "pha_no_verify" and t == 15:
            st["hit"] = True
            return []
        return None
    adv.Deviant(p.c, rw)
    req_settings = None
    if k == "pha_scheme_not_advertised":
        # the request advertises SHA-256 schemes only; the client signs
        # with a SHA-384 one all the same (it is made to believe that the
        # request listed it, the request's bytes - and so the transcript -
        # are untouched)
        from tlslite.handshakesettings import HandshakeSettings
        from tlslite.constants import SignatureScheme
        req_settings = HandshakeSettings()
        req_settings.rsaSigHashes = ["sha256"]
        req_settings.ecdsaSigHashes = ["sha256"]
        req_settings.more_sig_schemes = []
        real_handle = p.c._handle_pha

        def lying_handle(cert_request):
            raw = cert_request.write()
            cert_request.write = lambda: raw
            cert_request.supported_signature_algs = [
                SignatureScheme.rsa_pss_rsae_sha384,
                SignatureScheme.ecdsa_secp384r1_sha384]
            st["hit"] = True
            return real_handle(cert_request)
        p.c._handle_pha = lying_handle

    def sprog():
        for r in p.s.request_post_handshake_auth(req_settings):
            yield r
        r = yield from drive.aread(p.s, None, 0)
        return r

    def cprog():
        r = yield from drive.aread(p.c, None, 0)
        return r
    t2c, t2s = p.run(cprog(), sprog())
    if k == "pha_replay_answer":
        # the request was answered honestly; the same answer (same context,
        # still a valid signature and Finished for that transcript) is now
        # sent again without a request
        if t2s.status != "done" or p.s.session.clientCertChain is None or \
                len(st.get("flight", [])) != 3:
            ctx.inconc("honest post-handshake authentication failed in %s: "
                       "%r %r" % (cid, t2c.exc, t2s.exc))
            return
        st["hit"] = True

        st["replaying"] = True

        def again():
            for raw in list(st["flight"]):
                for r in p.c._sendMsg(adv.Raw(22, raw)):
                    yield r
            yield from drive.awrite(p.c, b"data-after")
        t2c = drive.Task("again", again(), p.csock)
        drive.run([t2c], p.link)
        got = bytearray()
        for _ in range(4):
            t2s = drive.Task("vic", drive.aread(p.s, None, 1), p.ssock)
            drive.run([t2s], p.link, max_steps=5000)
            if t2s.status != "done" or not t2s.result:
                break
            got += t2s.result
            if bytes(got) == b"data-after":
                break
        p.s.session.clientCertChain = None   # judged below: alert expected
    ctx.ev()
    ctx.count("negatives")
    key = {"neg": k, "victim": "server", "ver": "TLS1.3"}
    W = {"case": cid, "client": str(outcome(t2c)), "server": str(outcome(t2s))}
    if not st.get("hit"):
        ctx.count("pha_negative_not_reached")
        return
    chain = p.s.session.clientCertChain if p.s.session else None
    if chain is not None:
        ctx.violation(dict(key, clause="pha_chain_recorded_without_proof"), W,
                      "session.clientCertChain set although %s" % k)
    if t2s.status == "exc" and isinstance(t2s.exc, E.TLSLocalAlert) and \
            t2s.exc.level == 2:
        ctx.count("neg_alerted")
        ctx.cell("neg", "%s|server|alert%d" % (k, t2s.exc.description))
    elif t2s.status == "exc" and mon.classify_exc(t2s.exc).startswith(
            ("undocumented", "tls:")):
        ctx.violation(dict(key, clause="wrong_exception",
                           exc=type(t2s.exc).__name__, frame=t2s.frame()),
                      W, repr(t2s.exc))
    else:
        ctx.violation(dict(key, clause="bad_control_message_tolerated",
                           got=str(outcome(t2s))), W,
                      "%s: server did not answer with a fatal alert" % k)


def run_pha_cross(ctx, cid, P):
    """the client's KeyUpdate(s) cross the server's CertificateRequest: the
    server reads them while its request is pending.  Everything must go
    through: keys in step, data delivered, the client authenticated."""
    from tlslite.handshakesettings import HandshakeSettings
    rng = ctx.rng
    ckey = rng.choice(["rsa", "ecdsa"])
    p, tc, ts = establish(rng, (3, 4), rng.random() < 0.3, ckey)
    if tc.status != "done" or ts.status != "done":
        ctx.inconc("control failed in %s" % cid)
        return
    st = HandshakeSettings()
    if P["comp"] == "none":
        st.certificate_compression_receive = []
    elif P["comp"] == "zlib":
        st.certificate_compression_receive = ["zlib"]
    if P["sig"] == "one":
        st.rsaSchemes = ["pss"]
        st.rsaSigHashes = ["sha256"]
        st.ecdsaSigHashes = ["sha256"]
    key = {"ver": "TLS1.3", "hist": "pha_cross"}
    W = {"case": cid, "params": P, "steps": []}

    def step(name, conn, sock, gen):
        t = drive.Task(name, gen, sock)
        drive.run([t], p.link, max_steps=20000)
        W["steps"].append([name, str(outcome(t))])
        if t.status != "done":
            ctx.ev()
            ctx.violation(dict(key, clause="valid_history_failed",
                               step=name.split(":")[0],
                               exc=type(t.exc).__name__ if t.exc else
                               t.status), W,
                          "%s failed in a legal interleaving of KeyUpdate "
                          "and post-handshake authentication: %r" % (
                              name, t.exc))
            return None
        return t

    def read_exact(conn, want):
        got = bytearray()
        while len(got) < len(want):
            r = yield from drive.aread(conn, None, 1)
            if not r:
                break
            got += r
        return bytes(got)

    def cku():
        for k in P["kinds"]:
            for r in p.c.send_keyupdate_request(
                    KeyUpdateMessageType.update_requested if k
                    else KeyUpdateMessageType.update_not_requested):
                yield r
        yield from drive.awrite(p.c, b"before-answer")

    def sreq():
        for r in p.s.request_post_handshake_auth(st):
            yield r
        for _ in range(P["sku"]):
            for r in p.s.send_keyupdate_request(
                    KeyUpdateMessageType.update_not_requested):
                yield r
    if step("s:request", p.s, p.ssock, sreq()) is None:
        return
    if step("c:keyupdate+write", p.c, p.csock, cku()) is None:
        return
    t = step("s:read-while-pending", p.s, p.ssock,
             read_exact(p.s, b"before-answer"))
    if t is None:
        return
    ok = t.result == b"before-answer"

    def canswer():
        # reading processes the request (and the server's KeyUpdates)
        # (a read with min=0 handles one control message per call, plus
        # whatever follows a KeyUpdate)
        for _ in range(12):
            if not (p.link.in_flight("s2c") or len(p.c.sock._read_buffer)):
                break
            g = p.c.readAsync(None, 0)
            for r in g:
                if isinstance(r, int) and r in (0, 1):
                    if not p.link.in_flight("s2c") and \
                            not len(p.c.sock._read_buffer):
                        g.close()
                        break
                    yield r
        yield from drive.awrite(p.c, b"after-answer")
    if step("c:answer", p.c, p.csock, canswer()) is None:
        return
    t = step("s:read-answer", p.s, p.ssock, read_exact(p.s, b"after-answer"))
    if t is None:
        return
    ok = ok and t.result == b"after-answer"
    if step("s:reply", p.s, p.ssock, drive.awrite(p.s, b"reply")) is None:
        return
    t = step("c:read-reply", p.c, p.csock, read_exact(p.c, b"reply"))
    if t is None:
        return
    ok = ok and t.result == b"reply"
    ctx.ev()
    ctx.count("pha_cross_histories")
    ctx.cell("cell", "pha_cross|%s|%s|%d|%d" % (P["comp"], P["sig"],
                                               len(P["kinds"]), P["sku"]))
    if not ok:
        ctx.violation(dict(key, clause="data_not_delivered"), W,
                      "application data differs after KeyUpdate crossing a "
                      "post-handshake authentication request")
    chain = p.s.session.clientCertChain
    want = creds.chain(ckey) if hasattr(creds, "chain") else None
    if chain is None or not chain.x509List:
        ctx.violation(dict(key, clause="pha_not_recorded"), W,
                      "the client answered the request but the server's "
                      "session has no client certificate")
    elif p.c.session and p.c.session.clientCertChain is not None and \
            bytes(chain.x509List[0].bytes) != bytes(
                p.c.session.clientCertChain.x509List[0].bytes):
        ctx.violation(dict(key, clause="pha_wrong_chain"), W,
                      "server recorded another certificate than the client "
                      "sent")
    else:
        ctx.count("pha_cross_authenticated")


def run_ku_straddle(ctx, cid, P):
    """a KeyUpdate sharing its record with the first bytes of the next
    handshake message: that message would span the key change (RFC 8446 5.1).
    The sender really rotates its write key, so a receiver that let it pass
    stays in step and delivers the data that follows."""
    from tlslite.constants import CipherSuite
    rng = ctx.rng
    p, tc, ts = establish(rng, (3, 4), False, None)
    if tc.status != "done" or ts.status != "done":
        ctx.inconc("control failed in %s" % cid)
        return
    who = rng.choice(["client", "server"])
    snd, ssock, vic, vsock, vname = (p.c, p.csock, p.s, p.ssock, "server") \
        if who == "client" else (p.s, p.ssock, p.c, p.csock, "client")
    ku = wire.hs_msg(24, b"\x00")          # update_not_requested
    suite = snd.session.cipherSuite

    def rotate():
        cl, sr = snd._recordLayer.calcTLS1_3KeyUpdate_reciever(
            suite, snd.session.cl_app_secret, snd.session.sr_app_secret)
        snd.session.cl_app_secret, snd.session.sr_app_secret = cl, sr

    def prog():
        for r in snd._sendMsg(adv.Raw(22, ku + ku[:2])):
            yield r
        rotate()
        for r in snd._sendMsg(adv.Raw(22, ku[2:])):
            yield r
        rotate()
        yield from drive.awrite(snd, b"data-after")
    t1 = drive.Task("snd", prog(), ssock)
    drive.run([t1], p.link)
    got = bytearray()
    vt = None
    for _ in range(4):
        vt = drive.Task("vic", drive.aread(vic, None, 1), vsock)
        drive.run([vt], p.link, max_steps=5000)
        if vt.status != "done" or not vt.result:
            break
        got += vt.result
        if bytes(got) == b"data-after":
            break
    ctx.ev()
    ctx.count("negatives")
    key = {"neg": "ku_straddle", "victim": vname, "ver": "TLS1.3"}
    W = {"case": cid, "victim": (vt.status, repr(vt.exc)), "got": bytes(got)}
    if vt.status == "exc" and isinstance(vt.exc, E.TLSLocalAlert) and \
            vt.exc.level == 2:
        ctx.count("neg_alerted")
        ctx.cell("neg", "ku_straddle|%s|alert%d" % (vname,
                                                    vt.exc.description))
    elif vt.status == "exc" and mon.classify_exc(vt.exc).startswith(
            ("undocumented", "tls:")):
        ctx.violation(dict(key, clause="wrong_exception",
                           exc=type(vt.exc).__name__, frame=vt.frame()), W,
                      repr(vt.exc))
    else:
        ctx.violation(dict(key, clause="bad_control_message_tolerated",
                           got=str(outcome(vt))), W,
                      "a handshake message spanning the KeyUpdate key change "
                      "was accepted; read %r" % bytes(got))


def run_negative(ctx, cid, P):
    k = P["neg"]
    if k.startswith("pha_"):
        return run_pha_negative(ctx, cid, P)
    if k == "ku_straddle":
        return run_ku_straddle(ctx, cid, P)
    rng = ctx.rng
    ver = (3, 4)
    ckey = None
    hb = True
    if k == "ku_in_tls12":
        ver = (3, 3)
    if k in ("hb_not_allowed",):
        pass
    if k in ("hb_declared_longer", "hb_short_padding", "hb_not_negotiated"):
        ver = rng.choice([(3, 2), (3, 3), (3, 4)])
    # post-handshake rules hold whichever way the handshake went: half of
    # the TLS 1.3 cases get there through a HelloRetryRequest
    hrr = ver == (3, 4) and P.get("r", 0) % 2 == 1
    p, tc, ts = establish(rng, ver, False, "rsa" if k in (
        "cert_unknown_context", "nst_to_server_pha_pending") else None, hb,
        server_hb=False if k == "hb_not_negotiated" else None, hrr=hrr)
    if tc.status != "done" or ts.status != "done":
        ctx.inconc("control failed in %s" % cid)
        return
    if hrr:
        ctx.count("negatives_after_hello_retry")
    # who sends the bad control message, who is the victim
    sender, victim, ssock, vsock, vname = p.c, p.s, p.csock, p.ssock, "server"
    if k in ("cr_without_pha_ext", "ccs_post_13", "hb_not_allowed",
             "finished_post_handshake"):
        if rng.random() < 0.5 or k == "cr_without_pha_ext" or \
                (k == "ccs_post_13" and hrr):
            sender, victim, ssock, vsock, vname = p.s, p.c, p.ssock, \
                p.csock, "client"
    expect_alert = True
    msg = None
    if k == "hb_not_allowed":
        # the victim did not allow the peer to send: flip its flag the way a
        # PEER_NOT_ALLOWED_TO_SEND negotiation would
        victim.heartbeat_can_receive = False
        msg = adv.Raw(24, b"\x01\x00\x04abcd" + b"\x00" * 16)
    elif k == "hb_not_negotiated":
        # the server's settings switch the extension off; the client offered
        # it; nothing was negotiated, so a request is not a permitted message
        msg = adv.Raw(24, b"\x01\x00\x04abcd" + b"\x00" * 16)
    elif k == "ku_unknown_type":
        msg = adv.Raw(22, wire.hs_msg(24, b"\x07"))
    elif k == "ku_in_tls12":
        msg = adv.Raw(22, wire.hs_msg(24, b"\x00"))
    elif k == "cr_without_pha_ext":
        msg = adv.Raw(22, wire.hs_msg(13, b"\x04ctx1" + wire.ser_exts(
            [(13, b"\x00\x02\x08\x04")])))
    elif k == "cr_to_server":
        msg = adv.Raw(22, wire.hs_msg(13, b"\x00" + wire.ser_exts(
            [(13, b"\x00\x02\x08\x04")])))
    elif k == "cert_unknown_context":
        # an unsolicited client Certificate with a made-up context
        der = bytes(creds.client("rsa")[0].x509List[0].bytes)
        body = b"\x04ctxX" + wire.p24(len(der) + 5) + wire.p24(len(der)) + \
            der + b"\x00\x00"
        msg = adv.Raw(22, wire.hs_msg(11, body))
    elif k == "ccs_post_13":
        msg = adv.Raw(20, b"\x01")
    elif k in ("nst_to_server", "nst_to_server_pha_pending"):
        if k.endswith("pending"):
            # the server has a post-handshake authentication request out:
            # that admits the client's Certificate, nothing else
            tq = drive.Task("req", p.s.request_post_handshake_auth(),
                            p.ssock)
            drive.run([tq], p.link)
            if tq.status != "done":
                ctx.inconc("PHA request failed in %s: %r" % (cid, tq.exc))
                return
        msg = adv.Raw(22, wire.hs_msg(
            4, b"\x00\x00\x0e\x10" + b"\x00\x00\x00\x00" + b"\x01\x00" +
            b"\x00\x04abcd" + b"\x00\x00"))
    elif k == "finished_post_handshake":
        msg = adv.Raw(22, wire.hs_msg(20, b"\x00" * 32))
    elif k == "hb_declared_longer":
        # declared payload length exceeds the content: must NOT be answered
        msg = adv.Raw(24, b"\x01\x40\x00" + b"A" * 20)
        expect_alert = False
    elif k == "hb_short_padding":
        msg = adv.Raw(24, b"\x01\x00\x04abcd" + b"\x00" * 8)
        expect_alert = False
    vdir = "s2c" if vname == "server" else "c2s"
    n0 = len(p.link.recs(vdir))
    t1 = drive.Task("snd", sender._sendMsg(msg), ssock)
    drive.run([t1], p.link)
    t2 = drive.Task("w", drive.awrite(sender, b"data-after"), ssock)
    drive.run([t2], p.link)
    got = bytearray()
    vt = None
    for _ in range(4):
        vt = drive.Task("vic", drive.aread(victim, None, 1), vsock)
        drive.run([vt], p.link, max_steps=5000)
        if vt.status != "done" or not vt.result:
            break
        got += vt.result
        if got == b"data-after":
            break
    ctx.ev()
    ctx.count("negatives")
    key = {"neg": k, "victim": vname, "ver": pair.VNAME[ver]}
    W = {"case": cid, "victim": (vt.status, repr(vt.exc)), "got": bytes(got),
         "victim_records": [r.brief() for r in p.link.recs(vdir)[n0:]]}
    if expect_alert:
        if vt.status == "exc" and isinstance(vt.exc, E.TLSLocalAlert) and \
                vt.exc.level == 2:
            ctx.count("neg_alerted")
            ctx.cell("neg", "%s|%s|alert%d" % (k, vname, vt.exc.description))
        elif vt.status == "exc" and mon.classify_exc(vt.exc).startswith(
                ("undocumented", "tls:")):
            ctx.violation(dict(key, clause="wrong_exception",
                               exc=type(vt.exc).__name__, frame=vt.frame()),
                          W, repr(vt.exc))
        else:
            ctx.violation(dict(key, clause="bad_control_message_tolerated",
                               got=str(outcome(vt))), W,
                          "%s: victim %s did not answer with a fatal alert "
                          "(%r, read %r)" % (k, vname, vt.exc, bytes(got)))
    else:
        # must be ignored silently: no heartbeat response on the wire and
        # the following data delivered
        resp = [r for r in p.link.recs(vdir)[n0:] if r.type == 24]
        if ver == (3, 4):
            # encrypted: count records instead (nothing should be sent)
            resp = p.link.recs(vdir)[n0:]
        if resp:
            ctx.violation(dict(key, clause="heartbeat_answered"), W,
                          "malformed heartbeat request drew a response")
        elif bytes(got) != b"data-after":
            ctx.violation(dict(key, clause="data_lost_after_ignored_hb",
                               got=str(outcome(vt))), W, repr(vt.exc))
        else:
            ctx.count("neg_ignored")
            ctx.cell("neg", "%s|%s|ignored" % (k, vname))


def run(ctx):
    for cid, P in ctx.cases(make_cases(ctx)):
        if "neg" in P:
            run_negative(ctx, cid, P)
        elif "cross" in P:
            run_pha_cross(ctx, cid, P)
        else:
            run_history(ctx, cid, P)


def finalize(m, tier):
    out = []
    c = m["counters"]
    if c.get("histories", 0) < 100:
        out.append("fewer than 100 histories")
    if c.get("pha_cross_authenticated", 0) < 20:
        out.append("fewer than 20 KeyUpdate-crossing-PHA histories ended "
                   "authenticated")
    if c.get("wire_keys_checked", 0) < 50:
        out.append("fewer than 50 records opened with independently "
                   "derived keys after KeyUpdates")
    if c.get("keyupdates", 0) == 0:
        out.append("no KeyUpdate exercised")
    if c.get("heartbeats", 0) == 0:
        out.append("no heartbeat echoed")
    if c.get("pha_completed", 0) == 0:
        out.append("no post-handshake authentication completed")
    if c.get("neg_alerted", 0) == 0:
        out.append("no negative control message alerted")
    return out
