"""C18 - shared objects stay correct under every thread interleaving.

Three engines (see RULE):
  A  seq     sequential histories on SessionCache against a reference model
  B  sched   controlled scheduler (vt/sched.py): bounded-preemption DFS and
             seeded random schedules on SessionCache / Python_RSAKey /
             VerifierDB (memory and dbm.dumb), linearizability + invariants
  C  stress  real threads, tiny switch interval, sys.monitoring yield
             injection, per-result oracle
"""
from vt import boot  # noqa  (must be first)

import gc
import itertools
import os
import random
import shutil
import signal
import sys
import threading
import time as _time
import traceback

from vt import sched as S

import dbm.dumb as dumb_mod
import tlslite.sessioncache as sc_mod
import tlslite.utils.python_rsakey as rsa_mod
import tlslite.basedb as basedb_mod
import tlslite.verifierdb as vdb_mod
from tlslite.session import Session
from tlslite.sessioncache import SessionCache
from tlslite.utils.python_rsakey import Python_RSAKey
from tlslite.verifierdb import VerifierDB

LEVEL = "exploration"
RULE = ("seq: one case = a batch of get/set/advance/invalidate histories on "
        "a SessionCache with maxEntries 2..6 under a virtual clock (bounded-"
        "exhaustive over a small alphabet, then seeded random; half of the "
        "random histories never re-store an ID), every get/set compared with "
        "the must-hit/must-miss/don't-care model and the dict/ring invariant "
        "checked under the cache's lock.  sched: one case = one small "
        "concurrent program (2-3 threads x 1-3 operations, sequential prefix "
        "and epilogue) whose schedules are enumerated depth-first with "
        "preemption bound 0,1,2(,3) at line granularity in the target "
        "modules plus seeded random schedules; a schedule is distinct by the "
        "hash of its thread-switch trace; every completed history is checked "
        "for linearizability (cache, DB) or per-result against pow(m,d,n) "
        "(RSA), plus invariants inside release() and at quiescence.  stress: "
        "4-16 real threads with injected yields, per-result oracle.  "
        "distinct_nontrivial = distinct interleavings + distinct sequential "
        "model cells + distinct stress cells.")
ASSUMPTIONS = [
    "preemption at source-line granularity (races inside one line are only "
    "reachable by the stress engine)",
    "pure-python RSA (no gmpy/m2crypto); on-disk DB forced to dbm.dumb by "
    "replacing tlslite.basedb.anydbm",
    "SessionCache internals (entriesDict/entriesList/firstIndex/lastIndex) "
    "are read for the invariant; a tombstone (None, timestamp) slot is "
    "accepted",
    "restored_id in a violation key = the history stored some session ID "
    "twice before the failure",
]
NONTRIVIAL = ["interleaving", "seqcell", "stresscell"]
DEADLINE = {"quick": 200, "thorough": 900}
WATCHDOG = {"quick": 600, "thorough": 5400}
USE_DRBG = True

T0 = 1_800_000_000.0
_mono = _time.monotonic
CELL_CAP = 5000

TARGETS_ALL = {
    sc_mod.__file__: "sessioncache",
    rsa_mod.__file__: "python_rsakey",
    basedb_mod.__file__: "basedb",
    vdb_mod.__file__: "verifierdb",
    dumb_mod.__file__: "dbm.dumb",
}
TARGETS_NODUMB = {k: v for k, v in TARGETS_ALL.items() if v != "dbm.dumb"}

# on-disk databases use the pure-python back end (line-level preemption)
basedb_mod.anydbm = dumb_mod


# ---------------------------------------------------------------------------
# reporting helper: few witnesses per mechanism key per shard
# ---------------------------------------------------------------------------
class Reporter(object):
    def __init__(self, ctx):
        self.ctx = ctx
        self.seen = {}
        self.hashes = set()

    def violation(self, key, witness, msg):
        dg = repr(sorted(key.items()))
        n = self.seen.get(dg, 0)
        self.seen[dg] = n + 1
        if n < 3:
            self.ctx.violation(key, witness, msg)
        else:
            self.ctx.count("violations_suppressed_duplicates")

    def interleaving(self, h):
        if h in self.hashes:
            return False
        self.hashes.add(h)
        if len(self.hashes) <= CELL_CAP:
            self.ctx.cell("interleaving", h)
        else:
            self.ctx.count("interleavings_distinct_beyond_cell_cap")
        return True


def tb_summary(e):
    """function names + source text of the innermost frames (no line nos in
    keys; this goes to the witness only)"""
    out = []
    for fs in traceback.extract_tb(e.__traceback__)[-4:]:
        out.append("%s:%s:%s: %s" % (os.path.basename(fs.filename), fs.lineno,
                                     fs.name, fs.line))
    return {"type": type(e).__name__, "repr": repr(e)[:200], "frames": out}


def new_session(tag):
    s = Session()
    s.sessionID = bytearray(b"sid")
    s.resumable = True
    s.vt_tag = tag
    return s


# ---------------------------------------------------------------------------
# SessionCache structural invariant (evaluated under the cache's lock)
# ---------------------------------------------------------------------------
def cache_state_problems(cache):
    """-> list of problem names, or None if the internals are not there"""
    try:
        L = cache.entriesList
        D = cache.entriesDict
        f = cache.firstIndex
        l = cache.lastIndex
    except AttributeError:
        return None
    n = len(L)
    if not (0 <= f < n and 0 <= l < n):
        return ["index_out_of_range"]
    probs = []
    ids = []
    last_ts = None
    i = f
    while i != l:
        e = L[i]
        sid, ts = e[0], e[1]
        if ts is None:
            probs.append("unset_slot_in_window")
        else:
            if last_ts is not None and ts < last_ts:
                probs.append("timestamps_not_monotone")
            last_ts = ts
        if sid is not None:
            ids.append(sid)
        i = (i + 1) % n
    sids = set(ids)
    if len(sids) != len(ids):
        probs.append("duplicate_id_in_window")
    dk = set(D.keys())
    if dk - sids:
        probs.append("dict_entry_not_in_window")
    if sids - dk:
        probs.append("window_entry_not_in_dict")
    if len(D) > n:
        probs.append("size_bound")
    return probs


# ---------------------------------------------------------------------------
# Engine A: sequential histories
# ---------------------------------------------------------------------------
# op encoding: ("s", id, sess#) ("g", id) ("a", dt) ("i", sess#) resumable=False
#              ("I", sess#) sessionID emptied   ("v", sess#) made valid again
class SeqStats(object):
    def __init__(self):
        self.hist = 0
        self.ops = 0
        self.evals = 0
        self.hook = 0
        self.cells = set()
        self.hook_unavailable = 0


class SeqHang(BaseException):
    pass


def _alarm(signum, frame):
    raise SeqHang()


def run_history(M, maxAge, ops, st, byte_kinds=None):
    """-> (fail, inv_fail); fail = dict(clause=..., at=i, ...) or None"""
    boot.vclock.now = T0
    cache = SessionCache(maxEntries=M, maxAge=maxAge)
    entries = {}
    sessions = {}
    invalid = set()
    seen = set()
    nsets = 0
    restored = False
    inv_fail = None
    st.hist += 1
    mtag = "M%d" % M
    for i, op in enumerate(ops):
        kind = op[0]
        st.ops += 1
        if kind == "s":
            k, sidx = op[1], op[2]
            s = sessions.get(sidx)
            if s is None:
                s = sessions[sidx] = new_session(sidx)
            if k in seen:
                restored = True
            seen.add(k)
            kk = bytearray(k) if (byte_kinds and byte_kinds[i]) else k
            try:
                cache[kk] = s
            except SeqHang:
                raise
            except BaseException as e:   # noqa
                return ({"clause": "set_raises", "at": i, "restored": restored,
                         "exc": type(e).__name__, "tb": tb_summary(e),
                         "why": "__setitem__ must never raise"}, inv_fail)
            entries[k] = (sidx, boot.vclock.now, nsets)
            nsets += 1
            st.evals += 1
        elif kind == "g":
            k = op[1]
            kk = bytearray(k) if (byte_kinds and byte_kinds[i]) else k
            tb = None
            try:
                r = cache[kk]
            except KeyError as e:
                r = None
                tb = e
            except SeqHang:
                raise
            except BaseException as e:   # noqa
                return ({"clause": "get_raises", "at": i, "restored": restored,
                         "exc": type(e).__name__, "tb": tb_summary(e),
                         "why": "__getitem__ may only raise KeyError"},
                        inv_fail)
            st.evals += 1
            e = entries.get(k)
            if e is None:
                verdict, why = "miss", "never_set"
            else:
                sidx, t, q = e
                j = nsets - q - 1
                age = boot.vclock.now - t
                valid = sidx not in invalid
                if not valid:
                    verdict, why = "miss", "invalid"
                elif age > maxAge:
                    verdict, why = "miss", "expired"
                elif j >= M:
                    verdict, why = "miss", "evicted"
                elif age == maxAge:
                    verdict, why = "dc", "age_eq_maxage"
                elif j == M - 1:
                    verdict, why = "dc", "spare_slot"
                else:
                    verdict, why = "hit", "live"
            st.cells.add("%s/%s/%s/%s/%s" % (
                mtag, verdict, why, "hit" if r is not None else "miss",
                "restored" if restored else "fresh"))
            if r is None:
                if verdict == "hit":
                    return ({"clause": "must_hit_missed", "at": i,
                             "restored": restored, "tb": tb_summary(tb),
                             "why": "entry age %s < maxAge %s, valid, %d later "
                                    "sets <= maxEntries-2" % (age, maxAge, j)},
                            inv_fail)
            else:
                tag = getattr(r, "vt_tag", None)
                if e is None or tag != e[0]:
                    cl = "foreign_session"
                    if e is not None and any(
                            o[0] == "s" and o[1] == k and o[2] == tag
                            for o in ops[:i]):
                        cl = "stale_session"
                    return ({"clause": cl, "at": i, "restored": restored,
                             "why": "returned session #%r, last stored under "
                                    "this id: %r" % (tag, e and e[0])},
                            inv_fail)
                if r is not sessions[e[0]]:
                    return ({"clause": "not_same_instance", "at": i,
                             "restored": restored, "why": "copy returned"},
                            inv_fail)
                if verdict == "miss":
                    return ({"clause": why + "_returned", "at": i,
                             "restored": restored,
                             "why": "model says must miss (%s)" % why},
                            inv_fail)
        elif kind == "a":
            boot.vclock.now += op[1]
            continue
        elif kind == "i":
            if op[1] in sessions:
                sessions[op[1]].resumable = False
                invalid.add(op[1])
            continue
        elif kind == "I":
            if op[1] in sessions:
                sessions[op[1]].sessionID = bytearray()
                invalid.add(op[1])
            continue
        elif kind == "v":
            if op[1] in sessions:
                sessions[op[1]].sessionID = bytearray(b"sid")
                sessions[op[1]].resumable = True
                invalid.discard(op[1])
            continue
        if inv_fail is None:
            lk = cache.lock
            lk.acquire()
            try:
                probs = cache_state_problems(cache)
            finally:
                lk.release()
            if probs is None:
                st.hook_unavailable += 1
            else:
                st.hook += 1
                st.evals += 1
                if probs:
                    inv_fail = {"clause": "invariant", "at": i,
                                "restored": restored, "detail": probs[0],
                                "all": probs,
                                "why": "entriesDict and the live window of "
                                       "entriesList disagree"}
    return None, inv_fail


def seq_report(rep, M, maxAge, ops, f, engine="seq"):
    key = {"engine": engine, "object": "SessionCache", "clause": f["clause"],
           "restored_id": bool(f["restored"])}
    if "exc" in f:
        key["exc"] = f["exc"]
    if "detail" in f:
        key["detail"] = f["detail"]
    wit = {"maxEntries": M, "maxAge": maxAge,
           "history": [list(map(_j, o)) for o in ops[:f["at"] + 1]],
           "failed_at": f["at"], "why": f["why"], "traceback": f.get("tb"),
           "invariant_problems": f.get("all")}
    rep.violation(key, wit, "%s after %d ops (maxEntries=%d): %s" % (
        f["clause"], f["at"] + 1, M, f["why"]))


def _j(x):
    return x.decode() if isinstance(x, bytes) else x


def exh_sequences(nids, L, dts):
    """all canonical (ids introduced in order) op sequences of length L"""
    ids = [bytes([97 + i]) for i in range(nids)]

    def rec(prefix, used, nsess, last):
        if len(prefix) == L:
            yield list(prefix)
            return
        for x in range(min(used + 1, nids)):
            prefix.append(("s", ids[x], nsess))
            old = last.get(x)
            last[x] = nsess
            for r in rec(prefix, max(used, x + 1), nsess + 1, last):
                yield r
            if old is None:
                del last[x]
            else:
                last[x] = old
            prefix.pop()
        for x in range(min(used + 1, nids)):
            prefix.append(("g", ids[x]))
            for r in rec(prefix, max(used, x + 1), nsess, last):
                yield r
            prefix.pop()
        for dt in dts:
            prefix.append(("a", dt))
            for r in rec(prefix, used, nsess, last):
                yield r
            prefix.pop()
        if 0 in last:
            prefix.append(("i", last[0]))
            for r in rec(prefix, used, nsess, last):
                yield r
            prefix.pop()

    return rec([], 0, 0, {})


def seq_flush(ctx, st):
    ctx.ev(st.evals)
    ctx.count("seq/histories", st.hist)
    ctx.count("seq/ops", st.ops)
    ctx.count("seq/evals", st.evals)
    ctx.count("hook/seq", st.hook)
    if st.hook_unavailable:
        ctx.count("hook/seq_unavailable", st.hook_unavailable)
    for c in st.cells:
        ctx.cell("seqcell", c)


def run_seq_exh(ctx, rep, P):
    M, L, part, parts = P["M"], P["L"], P["part"], P["parts"]
    maxAge = 10
    st = SeqStats()
    best = {}
    n = 0
    for idx, ops in enumerate(exh_sequences(M + 1, L, (6, 5))):
        if idx % parts != part:
            continue
        if n % 512 == 0 and ctx.expired():
            break
        n += 1
        fail, inv = run_history(M, maxAge, ops, st)
        for f in (fail, inv):
            if f is None:
                continue
            k = (f["clause"], f.get("exc"), f.get("detail"), f["restored"])
            cur = best.get(k)
            if cur is None or f["at"] < cur[1]["at"]:
                best[k] = (ops, f)
            ctx.count("seq/failing_histories")
    for k in sorted(best, key=lambda k: best[k][1]["at"]):
        ops, f = best[k]
        seq_report(rep, M, maxAge, ops, f)
    seq_flush(ctx, st)
    ctx.count("seq/exhaustive_histories", n)
    ctx.sample({"case": ctx.case_id, "histories": n, "ops": st.ops,
                "alphabet": "set/get on %d ids, advance 6|5 (maxAge 10), "
                            "invalidate" % (M + 1), "length": L})


def gen_random_history(rng, M, maxAge, fresh, n):
    ops = []
    pool = [bytes([97 + i]) for i in range(rng.randint(1, M + 2))]
    nid = 0
    nsess = 0
    live = []       # (id, sess#, t) most recent last
    now = 0.0
    for _ in range(n):
        r = rng.random()
        if r < 0.40:
            if fresh:
                k = b"f%d" % nid
                nid += 1
            else:
                k = rng.choice(pool)
            reuse = (not fresh) and live and rng.random() < 0.05
            sidx = rng.choice(live)[1] if reuse else nsess
            if not reuse:
                nsess += 1
            ops.append(("s", k, sidx))
            live.append((k, sidx, now))
            del live[:-8]
        elif r < 0.80:
            if live and rng.random() < 0.9:
                k = rng.choice(live)[0]
            else:
                k = rng.choice(pool + [b"zz"])
            ops.append(("g", k))
        elif r < 0.93:
            c = rng.random()
            if live and c < 0.5:
                t = rng.choice(live)[2]
                want = t + maxAge + rng.choice((-0.5, 0.0, 0.5))
                dt = want - now
                if dt < 0:
                    dt = rng.choice((0.0, 0.5))
            else:
                dt = rng.choice((0.0, 0.5, maxAge / 4.0, maxAge / 2.0,
                                 maxAge - 0.5, float(maxAge), maxAge + 0.5,
                                 2.0 * maxAge))
            now += dt
            ops.append(("a", dt))
        elif live:
            sidx = rng.choice(live)[1]
            ops.append((rng.choice("iiIv"), sidx))
    return ops


def run_seq_rand(ctx, rep, P):
    rng = ctx.rng
    st = SeqStats()
    reported = 0
    for h in range(P["n"]):
        if h % 64 == 0 and ctx.expired():
            break
        M = rng.choice((2, 2, 3, 3, 4, 5, 6, 6, 8))
        maxAge = rng.choice((10, 100, 14400))
        fresh = (h % 2 == 0)
        ops = gen_random_history(rng, M, maxAge, fresh, rng.randint(10, 120))
        bk = [rng.random() < 0.3 for _ in ops]
        fail, inv = run_history(M, maxAge, ops, st, bk)
        for f in (inv, fail):
            if f is not None:
                ctx.count("seq/failing_histories")
                seq_report(rep, M, maxAge, ops, f)
                reported += 1
    seq_flush(ctx, st)
    if P["i"] == 0:
        ctx.sample({"case": ctx.case_id, "histories": st.hist, "ops": st.ops})


def run_seq(ctx, rep, P):
    old = signal.signal(signal.SIGALRM, _alarm)
    signal.alarm(ctx.pick(120, 1200))
    try:
        if P["kind"] == "exh":
            run_seq_exh(ctx, rep, P)
        else:
            run_seq_rand(ctx, rep, P)
    except SeqHang:
        # wall clock is never a verdict
        ctx.inconc("sequential history batch %s did not terminate (possible "
                   "endless loop in the cache)" % ctx.case_id)
    finally:
        signal.alarm(0)
        signal.signal(signal.SIGALRM, old)


# ---------------------------------------------------------------------------
# Engine B: controlled scheduler scenarios
# ---------------------------------------------------------------------------
class Op(object):
    __slots__ = ("th", "kind", "key", "arg", "call", "ret", "res", "exc")

    def __init__(self, th, kind, key=None, arg=None):
        self.th = th
        self.kind = kind
        self.key = key
        self.arg = arg
        self.call = None
        self.ret = None
        self.res = None
        self.exc = None

    def j(self):
        d = {"th": self.th, "op": self.kind, "call": self.call,
             "ret": self.ret}
        if self.key is not None:
            d["key"] = _j(self.key)
        if self.arg is not None:
            d["arg"] = self.arg if isinstance(self.arg, (int, float, str)) \
                else repr(self.arg)[:80]
        if self.exc is not None:
            d["exc"] = tb_summary(self.exc)
        elif self.res is not None:
            d["res"] = self.res if not isinstance(self.res, (bytes, bytearray)) \
                else "bytes[%d]" % len(self.res)
        return d


class Scenario(object):
    """one concurrent program on one fresh object under one scheduler"""
    obj = "?"
    targets = TARGETS_NODUMB

    def __init__(self, cfg, sched):
        self.cfg = cfg
        self.sched = sched
        self.hist = []
        self.pending = {}
        self.viol = []        # (key, msg, extra)
        self.evals = 0
        self.hook_problems = []

    def key(self, clause, **kw):
        k = {"engine": "sched", "object": self.obj, "clause": clause}
        k.update(kw)
        return k

    def bad(self, clause, msg, extra=None, **kw):
        self.viol.append((self.key(clause, **kw), msg, extra))

    def record(self, th, spec):
        o = self.make_op(th, spec)
        o.call = self.sched.stamp()
        self.pending[th] = o
        try:
            o.res = self.perform(o, spec)
        except S.Abort:
            raise
        except BaseException as e:   # noqa
            o.exc = e
        o.ret = self.sched.stamp()
        del self.pending[th]
        self.hist.append(o)
        return o

    def body(self, th, prog):
        def run(t):
            for spec in prog:
                self.record(th, spec)
        return run

    def spawn_all(self):
        for th, prog in enumerate(self.cfg["progs"]):
            self.sched.spawn(self.body(th, prog))

    def witness(self):
        return {"config": self.cfg.get("name"),
                "cfg": {k: v for k, v in self.cfg.items() if k != "name"},
                "switch_trace": list(self.sched.trace),
                "history": [o.j() for o in self.hist],
                "pending": [o.j() for o in self.pending.values()],
                "outcome": self.sched.outcome,
                "detail": self.sched.detail}

    def finish(self, outcome):
        if outcome == "deadlock":
            self.bad("deadlock", "no runnable thread: %r" % (
                self.sched.detail,))
        elif outcome == "steplimit":
            self.bad("steplimit", "more than %d steps: endless loop in the "
                     "code under test" % self.sched.max_steps)
        elif outcome == "done":
            self.epilogue()
            self.check()
        for p in self.hook_problems:
            self.viol.append(p)
        return self.viol


# -- SessionCache -----------------------------------------------------------
def cache_lin_step(M, maxAge, evict):
    def step(state, o):
        now, nsets, ent, inval = state
        k = o.kind
        if k == "a":
            return ((now + o.arg, nsets, ent, inval),)
        if k == "i":
            return ((now, nsets, ent, inval | frozenset((o.arg,))),)
        if k == "s":
            d = dict(ent)
            d[o.key] = (o.arg, now, nsets)
            return ((now, nsets + 1, tuple(sorted(d.items())), inval),)
        e = dict(ent).get(o.key)
        hit = o.res[0] == "hit"
        if e is None:
            return () if hit else (state,)
        sidx, t, q = e
        j = (nsets - q - 1) if evict else 0
        age = now - t
        valid = sidx not in inval
        must_hit = age < maxAge and valid and j <= M - 2
        must_miss = age > maxAge or not valid or j >= M
        if hit:
            ok = o.res[1] == sidx and not must_miss
        else:
            ok = not must_hit
        return (state,) if ok else ()
    return step


class CacheScenario(Scenario):
    obj = "SessionCache"

    def __init__(self, cfg, sched):
        Scenario.__init__(self, cfg, sched)
        boot.vclock.now = T0
        self.M = cfg["M"]
        self.maxAge = cfg["maxAge"]
        self.cache = SessionCache(maxEntries=self.M, maxAge=self.maxAge)
        self.lock = sched.lock("cache.lock", hooks=[self.hook])
        self.cache.lock = self.lock
        self.sessions = {}
        self.restored = bool(cfg.get("restored"))
        self.hook_runs = 0
        self.hook_unavailable = False
        for spec in cfg["prefix"]:
            self.record("pre", spec)
        self.spawn_all()

    def key(self, clause, **kw):
        k = Scenario.key(self, clause, **kw)
        k["restored_id"] = self.restored
        return k

    def make_op(self, th, spec):
        kind = spec[0]
        if kind == "s":
            return Op(th, "s", spec[1], spec[2])
        if kind == "g":
            return Op(th, "g", spec[1])
        return Op(th, kind, None, spec[1])

    def perform(self, o, spec):
        kind = o.kind
        if kind == "s":
            s = self.sessions.get(o.arg)
            if s is None:
                s = self.sessions[o.arg] = new_session(o.arg)
            self.cache[o.key] = s
            return None
        if kind == "g":
            try:
                r = self.cache[o.key]
            except KeyError:
                return ("miss",)
            return ("hit", getattr(r, "vt_tag", repr(r)[:40]),
                    r is self.sessions.get(getattr(r, "vt_tag", None)))
        if kind == "a":
            boot.vclock.now += o.arg
            return None
        if kind == "i":
            s = self.sessions.get(o.arg)
            if s is None:
                s = self.sessions[o.arg] = new_session(o.arg)
            s.resumable = False
            return None
        raise ValueError(kind)

    def hook(self):
        probs = cache_state_problems(self.cache)
        if probs is None:
            self.hook_unavailable = True
            return
        self.hook_runs += 1
        if probs and not self.hook_problems:
            self.hook_problems.append((
                self.key("invariant", detail=probs[0], at="release"),
                "inside release() of the cache lock: %s" % probs,
                {"problems": probs, "tick": self.sched.tick}))

    def epilogue(self):
        ids = []
        for o in self.hist:
            if o.kind in "sg" and o.key not in ids:
                ids.append(o.key)
        for k in ids:
            self.record("post", ("g", k))
        if self.cfg.get("roll", True):
            self.record("post", ("a", self.maxAge + 1))
            self.record("post", ("g", ids[0]))
            base = 900
            for i in range(self.M):
                self.record("post", ("s", b"r%d" % i, base + i))
            self.record("post", ("g", b"r0"))
            self.record("post", ("g", b"r%d" % (self.M - 1)))
            for k in ids[:2]:
                self.record("post", ("g", k))

    def check(self):
        failed = False
        for o in self.hist:
            self.evals += 1
            if o.exc is not None:
                failed = True
                cl = "set_raises" if o.kind == "s" else (
                    "get_raises" if o.kind == "g" else "harness")
                self.bad(cl, "%s(%r) raised %r" % (o.kind, o.key, o.exc),
                         exc=type(o.exc).__name__)
            elif o.kind == "g" and o.res[0] == "hit" and o.res[2] is not True:
                failed = True
                self.bad("foreign_session", "get(%r) returned an object that "
                         "was never stored: %r" % (o.key, o.res[1]))
        # quiescent invariant
        probs = cache_state_problems(self.cache)
        if probs is None:
            self.hook_unavailable = True
        else:
            self.evals += 1
            self.quiescent_checked = True
            if probs:
                self.bad("invariant", "at quiescence: %s" % probs,
                         detail=probs[0], at="quiescence")
        if failed:
            return
        nsets = sum(1 for o in self.hist if o.kind == "s")
        init = (T0, 0, (), frozenset())
        self.lin_mode = "whole"
        try:
            if nsets <= self.M - 1:
                self.lin_mode = "perkey"
                keys = sorted(set(o.key for o in self.hist if o.kind in "sg"))
                for k in keys:
                    mine = set(o.arg for o in self.hist
                               if o.kind == "s" and o.key == k)
                    sub = [o for o in self.hist if
                           (o.kind in "sg" and o.key == k) or o.kind == "a"
                           or (o.kind == "i" and o.arg in mine)]
                    self.evals += 1
                    ok, _ = S.linearizable(
                        sub, init, cache_lin_step(self.M, self.maxAge, False),
                        self.cfg.get("lincap", 200000))
                    if not ok:
                        self.bad("not_linearizable", "sub-history of id %r "
                                 "has no sequential explanation" % (k,))
                        break
            else:
                self.evals += 1
                ok, _ = S.linearizable(
                    self.hist, init, cache_lin_step(self.M, self.maxAge, True),
                    self.cfg.get("lincap", 200000))
                if not ok:
                    self.bad("not_linearizable", "history has no sequential "
                             "explanation under the cache model")
            self.lin = "done"
        except S.SearchCap:
            self.lin = "timeout"


# -- RSA --------------------------------------------------------------------------
def _is_prime(n, rng):
    if n < 2:
        return False
    for p in (2, 3, 5, 7, 11, 13, 17, 19, 23, 29, 31, 37):
        if n % p == 0:
            return n == p
    d, r = n - 1, 0
    while d % 2 == 0:
        d //= 2
        r += 1
    for _ in range(24):
        a = rng.randrange(2, n - 1)
        x = pow(a, d, n)
        if x in (1, n - 1):
            continue
        for _ in range(r - 1):
            x = x * x % n
            if x == n - 1:
                break
        else:
            return False
    return True


_RSA = {}


def rsa_numbers(bits=512):
    """harness-generated key (own Miller-Rabin, fixed seed)"""
    if bits in _RSA:
        return _RSA[bits]
    rng = random.Random("c18-rsa-%d" % bits)
    e = 65537

    def prime():
        while True:
            c = rng.getrandbits(bits // 2) | (1 << (bits // 2 - 1)) | \
                (1 << (bits // 2 - 2)) | 1
            if (c - 1) % e and _is_prime(c, rng):
                return c
    p = prime()
    q = prime()
    while q == p:
        q = prime()
    n = p * q
    import math
    lam = (p - 1) * (q - 1) // math.gcd(p - 1, q - 1)
    d = pow(e, -1, lam)
    _RSA[bits] = dict(n=n, e=e, d=d, p=p, q=q, dP=d % (p - 1), dQ=d % (q - 1),
                      qInv=pow(q, -1, p), k=(n.bit_length() + 7) // 8)
    return _RSA[bits]


def rsa_make_key(K):
    return Python_RSAKey(K["n"], K["e"], K["d"], K["p"], K["q"], K["dP"],
                         K["dQ"], K["qInv"])


_PLAN = {}


def rsa_plan_op(K, kind, uniq):
    """-> (spec, expected) with a message unique to `uniq`"""
    ck = (K["n"], kind, uniq)
    if ck not in _PLAN:
        if len(_PLAN) > 20000:
            _PLAN.clear()
        _PLAN[ck] = _rsa_plan_op(K, kind, uniq)
    return _PLAN[ck]


def _rsa_plan_op(K, kind, uniq):
    n, d, e, k = K["n"], K["d"], K["e"], K["k"]
    rng = random.Random("c18-msg-%s-%s" % (kind, uniq))
    if kind == "raw":
        m = rng.randrange(2, n - 1)
        return ("raw", m), pow(m, d, n)
    if kind == "sign":
        data = bytes(rng.getrandbits(8) for _ in range(20)) + \
            str(uniq).encode()
        em = b"\x00\x01" + b"\xff" * (k - 3 - len(data)) + b"\x00" + data
        sig = pow(int.from_bytes(em, "big"), d, n).to_bytes(k, "big")
        return ("sign", data), bytearray(sig)
    msg = b"pms-" + str(uniq).encode()
    ps = bytes(rng.randrange(1, 256) for _ in range(k - 3 - len(msg)))
    em = b"\x00\x02" + ps + b"\x00" + msg
    ct = pow(int.from_bytes(em, "big"), e, n).to_bytes(k, "big")
    return ("dec", bytearray(ct)), bytearray(msg)


def rsa_blinding_ok(key, K):
    b, u = int(key.blinder), int(key.unblinder)
    if not b and not u:
        return True     # not initialised yet
    return (b * pow(u, K["e"], K["n"])) % K["n"] == 1


def rsa_do(key, spec):
    if spec[0] == "raw":
        return key._rawPrivateKeyOp(spec[1])
    if spec[0] == "sign":
        return key.sign(spec[1])
    return key.decrypt(spec[1])


class RSAScenario(Scenario):
    obj = "RSA"

    def __init__(self, cfg, sched):
        Scenario.__init__(self, cfg, sched)
        boot.drbg.reseed("c18/" + cfg["name"])
        self.K = rsa_numbers(cfg.get("bits", 512))
        self.key_obj = rsa_make_key(self.K)
        self.lock = sched.lock("key._lock", hooks=[self.hook])
        self.key_obj._lock = self.lock
        self.hook_runs = 0
        self.hook_unavailable = False
        self.expected = {}
        for spec in cfg["prefix"]:
            self.record("pre", spec)
        self.spawn_all()

    def make_op(self, th, spec):
        kind, uniq = spec
        real, exp = rsa_plan_op(self.K, kind, uniq)
        o = Op(th, kind, None, uniq)
        self.expected[id(o)] = (real, exp)
        return o

    def perform(self, o, spec):
        return rsa_do(self.key_obj, self.expected[id(o)][0])

    def hook(self):
        self.hook_runs += 1
        if not rsa_blinding_ok(self.key_obj, self.K) and \
                not self.hook_problems:
            self.hook_problems.append((
                self.key("blinding_invariant", at="release"),
                "inside release(): blinder*unblinder^e != 1 (mod n)",
                {"tick": self.sched.tick}))

    def epilogue(self):
        self.record("post", ("raw", "post"))

    def check(self):
        for o in self.hist:
            self.evals += 1
            exp = self.expected[id(o)][1]
            if o.exc is not None:
                self.bad("op_raises", "%s raised %r" % (o.kind, o.exc),
                         op=o.kind, exc=type(o.exc).__name__)
            elif o.res != exp:
                self.bad("wrong_result", "%s(#%s) by thread %s != "
                         "pow(m, d, n)" % (o.kind, o.arg, o.th), op=o.kind)
        self.evals += 1
        try:
            ok = rsa_blinding_ok(self.key_obj, self.K)
        except AttributeError:
            self.hook_unavailable = True
            ok = True
        if not ok:
            self.bad("blinding_invariant", "at quiescence: "
                     "blinder*unblinder^e != 1 (mod n)", at="quiescence")


# -- VerifierDB -----------------------------------------------------------------
def db_value(vidx):
    return (0x17, 5, b"salt%d" % vidx, 1000 + vidx)


def db_lin_step(state, o):
    d = dict(state)
    k = o.kind
    if k == "set":
        d[o.key] = o.arg
        return (tuple(sorted(d.items())),)
    if k == "get":
        if o.res[0] == "val":
            return (state,) if d.get(o.key) == o.res[1] else ()
        return (state,) if o.key not in d else ()
    if k == "del":
        if o.res[0] == "ok":
            if o.key not in d:
                return ()
            del d[o.key]
            return (tuple(sorted(d.items())),)
        return (state,) if o.key not in d else ()
    if k == "in":
        return (state,) if (o.key in d) == o.res[1] else ()
    if k == "keys":
        return (state,) if tuple(sorted(d)) == o.res[1] else ()
    raise ValueError(k)


class DBScenario(Scenario):
    obj = "VerifierDB"

    def __init__(self, cfg, sched):
        Scenario.__init__(self, cfg, sched)
        self.disk = cfg["backend"] == "disk"
        self.targets = TARGETS_ALL if self.disk else TARGETS_NODUMB
        self.hook_runs = 0
        self.hook_unavailable = False
        if self.disk:
            self.fn = os.path.join(cfg["dir"], "vdb")
            self.db = VerifierDB(self.fn)
        else:
            self.db = VerifierDB()
        self.db.create()
        self.lock = sched.lock("db.lock", hooks=[self.hook])
        self.db.lock = self.lock
        for spec in cfg["prefix"]:
            self.record("pre", spec)
        self.spawn_all()

    def key(self, clause, **kw):
        k = Scenario.key(self, clause, **kw)
        k["backend"] = self.cfg["backend"]
        return k

    def make_op(self, th, spec):
        if spec[0] == "set":
            return Op(th, "set", spec[1], spec[2])
        if spec[0] == "keys":
            return Op(th, "keys")
        return Op(th, spec[0], spec[1])

    def perform(self, o, spec):
        db = self.db
        k = o.kind
        if k == "set":
            db[o.key] = db_value(o.arg)
            return ("ok",)
        if k == "get":
            try:
                v = db[o.key]
            except KeyError:
                return ("KeyError",)
            vidx = v[3] - 1000
            if tuple(v[:2]) != db_value(vidx)[:2] or \
                    bytes(v[2]) != db_value(vidx)[2]:
                return ("corrupt", repr(v)[:80])
            return ("val", vidx)
        if k == "del":
            try:
                del db[o.key]
            except KeyError:
                return ("KeyError",)
            return ("ok",)
        if k == "in":
            return ("bool", o.key in db)
        if k == "keys":
            ks = db.keys()
            return ("keys", tuple(sorted(
                x.decode() if isinstance(x, bytes) else x for x in ks)))
        raise ValueError(k)

    def hook(self):
        # under the DB lock every stored value must be well formed
        self.hook_runs += 1
        raw = self.db.db
        for k in list(raw.keys()):
            v = raw[k]
            kk = k.decode() if isinstance(k, bytes) else k
            if kk.startswith("--Reserved--"):
                continue
            if len(v.split(b" ")) != 4 and not self.hook_problems:
                self.hook_problems.append((
                    self.key("invariant", at="release"),
                    "malformed value under the DB lock for %r" % (kk,), None))

    def epilogue(self):
        users = []
        for o in self.hist:
            if o.key is not None and o.key not in users:
                users.append(o.key)
        for u in users:
            self.record("post", ("in", u))
            self.record("post", ("get", u))
        if not self.disk or any(sp[0] == "keys" for pr in self.cfg["progs"]
                                for sp in pr):
            self.record("post", ("keys",))
        self.readback = None
        if self.disk:
            try:
                db2 = VerifierDB(self.fn)
                db2.open()
                try:
                    got = {}
                    for k in db2.db.keys():
                        kk = k.decode() if isinstance(k, bytes) else k
                        if not kk.startswith("--Reserved--"):
                            got[kk] = db2[kk][3] - 1000
                    self.readback = got
                finally:
                    db2.db.close()
            except BaseException as e:   # noqa
                self.readback = e

    def close(self):
        if self.disk and self.db.db is not None:
            try:
                self.db.db.close()
            except BaseException:   # noqa
                pass

    def check(self):
        lin_ops = []
        for o in self.hist:
            self.evals += 1
            if o.exc is not None:
                self.bad("op_raises", "%s(%r) raised %r" % (o.kind, o.key,
                                                            o.exc),
                         op=o.kind, exc=type(o.exc).__name__)
                continue
            if o.res[0] == "corrupt":
                self.bad("corrupt_value", "get(%r) -> %s" % (o.key, o.res[1]))
                continue
            lin_ops.append(o)
        dropped = any(o.exc is not None for o in self.hist
                      if o.th == "post" and o.kind == "get")
        # a mutating op that raised leaves the history undecidable
        if any(o.exc is not None and o.kind in ("set", "del")
               for o in self.hist):
            return
        self.evals += 1
        has_keys = any(o.kind == "keys" for o in lin_ops)
        try:
            if has_keys:
                self.lin_mode = "whole"
                ok, _ = S.linearizable(lin_ops, (), db_lin_step, 200000)
            else:
                self.lin_mode = "perkey"
                ok = True
                for u in sorted(set(o.key for o in lin_ops)):
                    ok, _ = S.linearizable(
                        [o for o in lin_ops if o.key == u], (), db_lin_step,
                        200000)
                    if not ok:
                        break
            self.lin = "done"
            if not ok:
                self.bad("not_linearizable", "no sequential order of the "
                         "completed operations explains the results")
        except S.SearchCap:
            self.lin = "timeout"
        if self.disk and not dropped:
            self.evals += 1
            final = {}
            for o in self.hist:
                if o.th == "post" and o.kind == "get" and o.res[0] == "val":
                    final[o.key] = o.res[1]
            if isinstance(self.readback, BaseException):
                self.bad("disk_readback_raises", "re-opening the database "
                         "file failed: %r" % (self.readback,),
                         exc=type(self.readback).__name__)
            elif self.readback != final:
                self.bad("disk_readback_mismatch", "file re-opened at "
                         "quiescence has %r, open handle has %r" % (
                             self.readback, final))


# -- driver -------------------------------------------------------------------------
SCN = {"cache": CacheScenario, "rsa": RSAScenario, "db": DBScenario}


class SchedStats(object):
    def __init__(self):
        self.c = {}

    def add(self, k, n=1):
        self.c[k] = self.c.get(k, 0) + n


def run_schedule(cfg, chooser, ss, ref=None):
    """execute one schedule -> (sched, scenario, violations)"""
    cls = SCN[cfg["obj"]]
    targets = TARGETS_ALL if cfg.get("backend") == "disk" else TARGETS_NODUMB
    sc = S.Scheduler(targets, chooser, max_steps=cfg.get("max_steps", 20000),
                     watchdog=60.0)
    if ref is not None:
        ref[0] = sc
    scn = cls(cfg, sc)
    chooser.begin()
    try:
        out = sc.run()
        viol = scn.finish(out)
    finally:
        if hasattr(scn, "close"):
            scn.close()
    return sc, scn, viol


def account(ctx, rep, cfg, sc, scn, viol, ss, mode):
    obj = cfg["obj"]
    ss.add("sched/schedules")
    ss.add("sched/%s/schedules" % obj)
    ss.add("sched/%s/evals" % obj, scn.evals)
    ss.add("sched/evals", scn.evals)
    ss.add("hook/sched-%s" % obj, scn.hook_runs)
    if scn.hook_unavailable:
        ss.add("hook/sched-%s_unavailable" % obj)
    ss.add("sched/contended", sc.contended())
    ss.add("sched/lock_acquisitions", sum(l.acquisitions for l in sc.locks))
    ss.add("sched/preemptions", sc.preemptions)
    ss.add("sched/steps", sc.tick)
    for lab, n in sc.pp.items():
        ss.add("pp/" + lab, n)
    lin = getattr(scn, "lin", None)
    if lin == "done":
        ss.add("lin/done")
        ss.add("lin/" + getattr(scn, "lin_mode", "whole"))
    elif lin == "timeout":
        ss.add("lin/timeout")
    if sc.outcome != "done":
        ss.add("sched/outcome_" + sc.outcome)
    if sc.outcome == "watchdog":
        ctx.inconc("scheduler watchdog expired in %s (harness hang, not a "
                   "verdict)" % cfg["name"])
    for e in sc.harness_errors:
        ctx.inconc("harness error in %s: %s" % (cfg["name"], e[:300]))
    if rep.interleaving(sc.trace_hash(cfg["name"])):
        ss.add("sched/distinct_interleavings")
        ss.add("sched/%s/distinct_interleavings" % obj)
    if viol and cfg.get("dir") and not os.path.isdir(cfg["dir"]):
        ctx.inconc("scratch directory of %s vanished during the run "
                   "(external interference, not a verdict)" % cfg["name"])
        os.makedirs(cfg["dir"], exist_ok=True)
        viol = []
    if viol:
        # confirm by replaying the recorded switch trace
        ref = [None]
        tc = S.TraceChooser(lambda: ref[0], sc.trace)
        try:
            sc2, scn2, viol2 = run_schedule(cfg, tc, ss, ref)
            same = sorted(repr(v[0]) for v in viol2) == \
                sorted(repr(v[0]) for v in viol)
        except BaseException as e:   # noqa
            same = "replay failed: %r" % (e,)
        ss.add("sched/violating_schedules")
        if same is True:
            ss.add("sched/violations_replayed_ok")
        wit = scn.witness()
        wit["found_by"] = mode
        wit["replayed_same_result"] = same
        for key, msg, extra in viol:
            w = dict(wit)
            if extra:
                w["extra"] = extra
            rep.violation(key, w, "%s: %s" % (cfg["name"], msg))


def explore(ctx, rep, cfg):
    """bounded-preemption DFS (bounds 0..B, each capped) then random"""
    ss = SchedStats()
    bounds = ctx.pick([0, 1, 2], [0, 1, 2, 3])
    cap = cfg.get("cap") or ctx.pick(5000, 30000)
    nrand = cfg.get("nrand") or ctx.pick(800, 6000)
    tmp = None
    if cfg.get("backend") == "disk":
        tmp = os.path.join(boot.VERIF, ".work", "c18db-%d-%s" % (
            os.getpid(), cfg["name"]))
        shutil.rmtree(tmp, ignore_errors=True)
        os.makedirs(tmp)
        cfg["dir"] = tmp
    stop = False
    # finalisers (dbm.dumb's __del__ -> close -> _commit) must not run at
    # random points inside traced worker threads: collect between schedules
    gc.disable()
    try:
        for b in bounds:
            if stop:
                break
            ch = S.DFSChooser(b)
            n = 0
            while True:
                sc, scn, viol = run_schedule(cfg, ch, ss)
                account(ctx, rep, cfg, sc, scn, viol, ss, "dfs-b%d" % b)
                n += 1
                if n % 256 == 0:
                    gc.collect()
                if not ch.advance():
                    ss.add("sched/exhaustive_b%d" % b)
                    break
                if n >= cap:
                    ss.add("sched/capped_b%d" % b)
                    break
                if n % 64 == 0 and ctx.expired():
                    stop = True
                    break
            if ch.nondet:
                ctx.inconc("schedule replay was not deterministic in %s" %
                           cfg["name"])
        rng = random.Random("%s/%s/rnd" % (ctx.seed, cfg["name"]))
        for i in range(nrand):
            if stop or (i % 64 == 0 and ctx.expired()):
                break
            ch = S.RandomChooser(rng, rng.choice((0.03, 0.1, 0.25, 0.5)))
            sc, scn, viol = run_schedule(cfg, ch, ss)
            if i % 256 == 255:
                gc.collect()
            account(ctx, rep, cfg, sc, scn, viol, ss, "random")
            ss.add("sched/random_schedules")
    finally:
        gc.enable()
        gc.collect()
        cfg.pop("dir", None)
        if tmp:
            shutil.rmtree(tmp, ignore_errors=True)
    for k, v in ss.c.items():
        ctx.count(k, v)
    ctx.ev(ss.c.get("sched/evals", 0))
    ctx.sample({"case": ctx.case_id, "cfg": {k: v for k, v in cfg.items()},
                "schedules": ss.c.get("sched/schedules"),
                "distinct": ss.c.get("sched/distinct_interleavings"),
                "contended": ss.c.get("sched/contended")})


# ---------------------------------------------------------------------------
# Engine C: stress with real threads
# ---------------------------------------------------------------------------
class CountingLock(object):
    """transparent proxy around a real lock that counts contention (atomic
    counters: itertools.count.__next__ is a single C call)"""

    def __init__(self):
        self.real = threading.Lock()
        self._acq = itertools.count()
        self._cont = itertools.count()

    def acquire(self, blocking=True, timeout=-1):
        next(self._acq)
        if self.real.acquire(False):
            return True
        if not blocking:
            return False
        next(self._cont)
        return self.real.acquire(True, timeout)

    def release(self):
        self.real.release()

    def locked(self):
        return self.real.locked()

    def __enter__(self):
        self.acquire()
        return True

    def __exit__(self, *a):
        self.real.release()
        return False

    def totals(self):
        return next(self._acq), next(self._cont)


def _code_objects(mod):
    out = []
    seen = set()

    def walk(code):
        if id(code) in seen:
            return
        seen.add(id(code))
        out.append(code)
        for c in code.co_consts:
            if hasattr(c, "co_code"):
                walk(c)

    def visit(obj, depth=0):
        f = getattr(obj, "__func__", obj)
        code = getattr(f, "__code__", None)
        if code is not None and code.co_filename == mod.__file__:
            walk(code)
        elif isinstance(obj, type) and depth < 2 and \
                getattr(obj, "__module__", None) == mod.__name__:
            for v in vars(obj).values():
                visit(v, depth + 1)
    for v in list(vars(mod).values()):
        visit(v)
    return out


class YieldInjector(object):
    """sys.monitoring LINE callbacks in the target modules: time.sleep(0)
    with a seeded per-thread probability.  Per-thread state only."""

    def __init__(self, mods):
        self.mods = mods
        self.tool = None
        self.codes = []
        self.tl = threading.local()
        self.available = hasattr(sys, "monitoring")

    def enable(self):
        if not self.available:
            return False
        mon = sys.monitoring
        for tid in (3, 4, 5, 2, 1):
            try:
                mon.use_tool_id(tid, "vt-c18")
                self.tool = tid
                break
            except ValueError:
                continue
        if self.tool is None:
            self.available = False
            return False
        sleep = _time.sleep
        tl = self.tl

        def cb(code, line):
            st = getattr(tl, "st", None)
            if st is None:
                return None
            st[0] += 1
            if st[2].random() < st[3]:
                st[1] += 1
                sleep(0)
            return None
        mon.register_callback(self.tool, mon.events.LINE, cb)
        for m in self.mods:
            for c in _code_objects(m):
                mon.set_local_events(self.tool, c, mon.events.LINE)
                self.codes.append(c)
        return True

    def thread_begin(self, seed, p):
        st = [0, 0, random.Random(seed), p]
        self.tl.st = st
        return st

    def disable(self):
        if self.tool is None:
            return
        mon = sys.monitoring
        for c in self.codes:
            mon.set_local_events(self.tool, c, 0)
        mon.register_callback(self.tool, mon.events.LINE, None)
        mon.free_tool_id(self.tool)
        self.tool = None
        self.codes = []


class StressRun(object):
    """common skeleton: N worker threads + one invariant-checker thread"""

    def __init__(self, ctx, rep, P):
        self.ctx = ctx
        self.rep = rep
        self.P = P
        self.stamp = itertools.count(1).__next__
        self.stop = False
        self.logs = []
        self.errors = []
        self.hook_runs = 0
        self.hook_viol = []
        self.t_end = None

    def key(self, clause, **kw):
        k = {"engine": "stress", "object": self.obj, "clause": clause}
        k.update(kw)
        return k

    def worker(self, ti, inj, log, st_out):
        st = inj.thread_begin("%s/%s/%d" % (self.ctx.seed, self.ctx.case_id,
                                            ti), self.P["p_yield"])
        st_out.append(st)
        rng = random.Random("%s/%s/w%d" % (self.ctx.seed, self.ctx.case_id,
                                          ti))
        n = self.P["ops"]
        try:
            for i in range(n):
                if self.stop or (i & 31 == 0 and _mono() > self.t_end):
                    break
                self.one_op(ti, i, rng, log)
        except BaseException as e:   # noqa  harness fault
            self.errors.append("worker %d: %s" % (
                ti, traceback.format_exc()[-600:]))

    def checker(self):
        while not self.stop:
            try:
                self.invariant_probe()
            except BaseException as e:   # noqa
                self.errors.append("checker: %r" % (e,))
                return
            _time.sleep(0.0005)

    def run(self):
        P = self.P
        nthreads = P["threads"]
        inj = YieldInjector(self.mods) if P["p_yield"] > 0 else None
        old_si = sys.getswitchinterval()
        self.logs = [[] for _ in range(nthreads)]
        sts = []
        if inj is None or not inj.enable():
            self.ctx.count("stress/runs_without_yield_injection")
            inj = inj or YieldInjector(())
        sys.setswitchinterval(1e-6)
        self.t_end = _mono() + P["seconds"]
        ths = [threading.Thread(target=self.worker,
                                args=(i, inj, self.logs[i], sts), daemon=True)
               for i in range(nthreads)]
        chk = threading.Thread(target=self.checker, daemon=True)
        try:
            for t in ths:
                t.start()
            chk.start()
            for t in ths:
                t.join(P["seconds"] + 60)
                if t.is_alive():
                    self.ctx.inconc("stress worker did not finish in %s "
                                    "(harness/lock hang; not a verdict)" %
                                    self.ctx.case_id)
            self.stop = True
            chk.join(10)
        finally:
            self.stop = True
            sys.setswitchinterval(old_si)
            inj.disable()
        if _mono() > self.t_end:
            self.ctx.count("stress/ended_by_time_cap")
        lines = sum(s[0] for s in sts)
        yields = sum(s[1] for s in sts)
        nops = sum(len(l) for l in self.logs)
        self.ctx.count("stress/ops", nops)
        self.ctx.count("stress/%s/ops" % self.obj, nops)
        self.ctx.count("stress/lines_monitored", lines)
        self.ctx.count("stress/yields_injected", yields)
        self.ctx.count("stress/runs")
        self.ctx.count("hook/stress-%s" % self.obj, self.hook_runs)
        for e in self.errors:
            self.ctx.inconc("stress harness error: %s" % e[:400])
        return nops


# -- RSA stress --------------------------------------------------------------------
class RSAStress(StressRun):
    obj = "RSA"
    mods = (rsa_mod,)

    def __init__(self, ctx, rep, P):
        StressRun.__init__(self, ctx, rep, P)
        self.K = rsa_numbers(P["bits"])
        self.k = rsa_make_key(self.K)
        self.lock = CountingLock()
        self.k._lock = self.lock
        self.kinds = P["kinds"]

    def one_op(self, ti, i, rng, log):
        kind = rng.choice(self.kinds)
        K = self.K
        n, d = K["n"], K["d"]
        if kind == "raw":
            m = rng.randrange(2, n - 1)
            spec, exp = ("raw", m), None
        else:
            spec, exp = _rsa_plan_op(K, kind, "%d.%d" % (ti, i))
        try:
            r = rsa_do(self.k, spec)
        except BaseException as e:   # noqa
            log.append((kind, "exc", tb_summary(e)))
            return
        if kind == "raw":
            exp = pow(spec[1], d, n)
        log.append((kind, "ok" if r == exp else "wrong",
                    None if r == exp else repr(spec)[:120]))

    def invariant_probe(self):
        with self.k._lock:
            ok = rsa_blinding_ok(self.k, self.K)
        self.hook_runs += 1
        if not ok and not self.hook_viol:
            self.hook_viol.append("under key._lock: blinder*unblinder^e != 1")

    def analyse(self):
        ctx = self.ctx
        for ti, log in enumerate(self.logs):
            for kind, status, info in log:
                ctx.ev()
                ctx.count("stress/evals")
                if status == "exc":
                    self.rep.violation(
                        self.key("op_raises", op=kind, exc=info["type"]),
                        {"thread": ti, "traceback": info, "params": self.P},
                        "%s raised under stress" % kind)
                elif status == "wrong":
                    self.rep.violation(
                        self.key("wrong_result", op=kind),
                        {"thread": ti, "input": info, "params": self.P},
                        "concurrent %s != pow(m,d,n)" % kind)
                ctx.cell("stresscell", "rsa/%s/%s" % (kind, status))
        ctx.ev()
        if not rsa_blinding_ok(self.k, self.K):
            self.rep.violation(self.key("blinding_invariant", at="quiescence"),
                               {"params": self.P}, "after the stress round "
                               "blinder*unblinder^e != 1 (mod n)")
        for m in self.hook_viol:
            self.rep.violation(self.key("blinding_invariant", at="locked"),
                               {"params": self.P}, m)
        a, c = self.lock.totals()
        ctx.count("stress/lock_acquisitions", a)
        ctx.count("stress/contended", c)


# -- register (per key) explanation used by cache and DB stress ----------------------
ABSENT = "<absent>"


def _maxcall_before(writes_by_ret, rets, c):
    """max call stamp among writes that returned before stamp c"""
    import bisect
    i = bisect.bisect_left(rets, c)
    return writes_by_ret[i - 1][3] if i else 0


def register_index(writes):
    """writes: list of (call, ret, value).  -> helper structure: writes
    sorted by ret as (call, ret, value, prefix-max call), the ret list and
    the suffix-min of call"""
    ws = sorted(writes, key=lambda w: w[1])
    pm = 0
    out = []
    for w in ws:
        pm = max(pm, w[0])
        out.append((w[0], w[1], w[2], pm))
    sm = [0] * (len(out) + 1)
    sm[len(out)] = float("inf")
    for i in range(len(out) - 1, -1, -1):
        sm[i] = min(sm[i + 1], out[i][0])
    return out, [w[1] for w in out], sm


def candidates(idx, c, r):
    """writes that may be the current value for a read spanning [c, r]:
    started before r and not definitely overwritten before c.  The initial
    absent state is a candidate iff no write returned before c."""
    import bisect
    ws, rets, sm = idx
    mc = _maxcall_before(ws, rets, c)
    i = bisect.bisect_right(rets, mc)
    cand = []
    n = len(ws)
    while i < n and sm[i] < r:
        if ws[i][0] < r:
            cand.append(ws[i])
        i += 1
    return cand, mc == 0


# -- cache stress --------------------------------------------------------------------
class CacheStress(StressRun):
    obj = "SessionCache"
    mods = (sc_mod,)

    def __init__(self, ctx, rep, P):
        StressRun.__init__(self, ctx, rep, P)
        boot.vclock.now = T0
        self.M = P["M"]
        self.maxAge = P["maxAge"]
        self.cache = SessionCache(maxEntries=self.M, maxAge=self.maxAge)
        self.lock = CountingLock()
        self.cache.lock = self.lock
        self.restore = P["restore"]
        self.keys = [b"k%d" % i for i in range(P["nkeys"])]
        self.fresh_ctr = itertools.count()
        self.recent = [[] for _ in range(P["threads"])]
        self.clock_mx = threading.Lock()

    def key(self, clause, **kw):
        k = StressRun.key(self, clause, **kw)
        k["restored_id"] = bool(self.restore)
        return k

    def one_op(self, ti, i, rng, log):
        r = rng.random()
        cache = self.cache
        vc = boot.vclock
        if r < self.P["p_set"]:
            if self.restore:
                k = rng.choice(self.keys)
            else:
                k = b"f%d" % next(self.fresh_ctr)
            s = new_session((k, ti, i))
            mine = self.recent[ti]
            mine.append((k, s))
            del mine[:-6]
            t_lo = vc.now
            c = self.stamp()
            try:
                cache[k] = s
                exc = None
            except BaseException as e:   # noqa
                exc = tb_summary(e)
            log.append(("s", k, c, self.stamp(), t_lo, vc.now, s, exc))
        elif r < self.P["p_set"] + self.P["p_get"]:
            if self.restore:
                k = rng.choice(self.keys)
            else:
                other = list(self.recent[rng.randrange(len(self.recent))])
                k = other[rng.randrange(len(other))][0] if other else b"none"
            t_lo = vc.now
            c = self.stamp()
            exc = None
            try:
                res = cache[k]
            except KeyError:
                res = None
            except BaseException as e:   # noqa
                res = None
                exc = tb_summary(e)
            log.append(("g", k, c, self.stamp(), t_lo, vc.now, res, exc))
        elif r < self.P["p_set"] + self.P["p_get"] + self.P["p_inv"]:
            mine = self.recent[ti]
            if mine:
                k, s = mine[rng.randrange(len(mine))]
                c = self.stamp()
                s.resumable = False
                log.append(("i", k, c, self.stamp(), 0, 0, s, None))
        elif ti == 0:
            with self.clock_mx:
                vc.now = vc.now + rng.choice((0.5, 1.0, 5.0))

    def invariant_probe(self):
        lk = self.cache.lock
        lk.acquire()
        try:
            probs = cache_state_problems(self.cache)
        finally:
            lk.release()
        if probs is None:
            return
        self.hook_runs += 1
        if probs and not self.hook_viol:
            self.hook_viol.append(probs)

    def analyse(self):
        import bisect
        ctx, M, maxAge = self.ctx, self.M, self.maxAge
        sets = {}
        allsets = []
        inval = {}
        gets = []
        for ti, log in enumerate(self.logs):
            for rec in log:
                kind, k, c, r, t_lo, t_hi, obj, exc = rec
                if kind == "s":
                    ctx.ev()
                    if exc is not None:
                        self.rep.violation(
                            self.key("set_raises", exc=exc["type"]),
                            {"thread": ti, "id": _j(k), "traceback": exc,
                             "params": self.P}, "__setitem__ raised %s" %
                            exc["repr"])
                        # (it may still have taken effect: keep as a write)
                    sets.setdefault(k, []).append((c, r, obj, t_lo, t_hi))
                    allsets.append((c, r))
                elif kind == "i":
                    if id(obj) not in inval or c < inval[id(obj)][0]:
                        inval[id(obj)] = (c, r)   # earliest invalidation
                else:
                    gets.append((ti, rec))
        set_calls = sorted(c for c, r in allsets)
        set_rets = sorted(r for c, r in allsets)
        index = {}
        byobj = {}
        for k, ws in sets.items():
            index[k] = register_index([(c, r, (obj, t_lo, t_hi))
                                       for c, r, obj, t_lo, t_hi in ws])
            for c, r, obj, t_lo, t_hi in ws:
                byobj[id(obj)] = (k, c, r, t_lo, t_hi)
        total_sets = len(allsets)
        for ti, (kind, k, c, r, now_lo, now_hi, res, exc) in gets:
            ctx.ev()
            ctx.count("stress/evals")
            if exc is not None:
                self.rep.violation(self.key("get_raises", exc=exc["type"]),
                                   {"thread": ti, "id": _j(k),
                                    "traceback": exc, "params": self.P},
                                   "__getitem__ raised %s" % exc["repr"])
                continue
            idx = index.get(k)
            cand, absent_ok = candidates(idx, c, r) if idx else ([], True)
            if res is None:
                verdict = "miss_ok"
                if not absent_ok and cand:
                    sure = True
                    for w in cand:
                        obj, t_lo, t_hi = w[2]
                        iv = inval.get(id(obj))
                        if iv is not None and iv[0] < r:
                            sure = False
                            break
                        if not (now_hi - t_lo < maxAge):
                            sure = False
                            break
                        if total_sets > M - 2:
                            jhi = bisect.bisect_left(set_calls, r) - \
                                bisect.bisect_right(set_rets, w[0]) - 1
                            if jhi > M - 2:
                                sure = False
                                break
                    if sure:
                        verdict = "must_hit_missed"
                        self.rep.violation(
                            self.key("must_hit_missed"),
                            {"thread": ti, "id": _j(k), "get": [c, r],
                             "candidates": [[w[0], w[1]] for w in cand],
                             "params": self.P},
                            "get(%r) missed although every possible current "
                            "entry was young, valid and not evictable" % (k,))
                ctx.cell("stresscell", "cache/%s/%s" % (
                    "restore" if self.restore else "fresh", verdict))
                continue
            info = byobj.get(id(res))
            verdict = "hit_ok"
            if info is None or info[0] != k:
                verdict = "foreign_session"
            else:
                _, wc, wr, t_lo, t_hi = info
                mc = _maxcall_before(idx[0], idx[1], c)
                iv = inval.get(id(res))
                jlo = 0
                if total_sets >= M:
                    # sets entirely between the write and the read
                    jlo = max(0, bisect.bisect_left(set_rets, c) -
                              bisect.bisect_right(set_calls, wr))
                if not wc < r:
                    verdict = "foreign_session"
                elif wr < mc:
                    verdict = "stale_session"
                elif iv is not None and iv[1] < c:
                    verdict = "invalid_returned"
                elif now_lo - t_hi > maxAge:
                    verdict = "expired_returned"
                elif jlo >= M:
                    verdict = "evicted_returned"
            if verdict != "hit_ok":
                self.rep.violation(
                    self.key(verdict),
                    {"thread": ti, "id": _j(k), "get": [c, r],
                     "returned": repr(getattr(res, "vt_tag", res))[:80],
                     "write": list(info[1:]) if info else None,
                     "params": self.P},
                    "get(%r) returned a session the recorded history cannot "
                    "explain (%s)" % (k, verdict))
            ctx.cell("stresscell", "cache/%s/%s" % (
                "restore" if self.restore else "fresh", verdict))
        # quiescence
        ctx.ev()
        probs = cache_state_problems(self.cache)
        if probs:
            self.rep.violation(self.key("invariant", detail=probs[0],
                                        at="quiescence"),
                               {"problems": probs, "params": self.P},
                               "after the stress round: %s" % probs)
        for probs in self.hook_viol:
            self.rep.violation(self.key("invariant", detail=probs[0],
                                        at="locked"),
                               {"problems": probs, "params": self.P},
                               "under the cache lock during stress: %s" %
                               probs)
        a, c = self.lock.totals()
        ctx.count("stress/lock_acquisitions", a)
        ctx.count("stress/contended", c)


# -- DB stress ------------------------------------------------------------------------
class DBStress(StressRun):
    obj = "VerifierDB"

    def __init__(self, ctx, rep, P):
        StressRun.__init__(self, ctx, rep, P)
        self.disk = P["backend"] == "disk"
        self.mods = (basedb_mod, vdb_mod) + ((dumb_mod,) if self.disk else ())
        self.tmp = None
        if self.disk:
            self.tmp = os.path.join(boot.VERIF, ".work", "c18st-%d-%s" % (
                os.getpid(), ctx.case_id))
            shutil.rmtree(self.tmp, ignore_errors=True)
            os.makedirs(self.tmp)
            self.db = VerifierDB(os.path.join(self.tmp, "vdb"))
        else:
            self.db = VerifierDB()
        self.db.create()
        self.lock = CountingLock()
        self.db.lock = self.lock
        self.users = ["u%d" % i for i in range(P["nkeys"])]
        self.vctr = itertools.count()

    def key(self, clause, **kw):
        k = StressRun.key(self, clause, **kw)
        k["backend"] = self.P["backend"]
        return k

    def one_op(self, ti, i, rng, log):
        db = self.db
        u = rng.choice(self.users)
        r = rng.random()
        exc = None
        res = None
        if r < 0.35:
            kind = "set"
            v = res = next(self.vctr)
            c = self.stamp()
            try:
                db[u] = db_value(v)
            except BaseException as e:   # noqa
                exc = tb_summary(e)
        elif r < 0.65:
            kind = "get"
            c = self.stamp()
            try:
                got = db[u]
                res = got[3] - 1000
            except KeyError:
                res = ABSENT
            except BaseException as e:   # noqa
                exc = tb_summary(e)
        elif r < 0.80:
            kind = "del"
            c = self.stamp()
            try:
                del db[u]
                res = "ok"
            except KeyError:
                res = ABSENT
            except BaseException as e:   # noqa
                exc = tb_summary(e)
        elif r < 0.95 or self.disk:
            kind = "in"
            c = self.stamp()
            try:
                res = u in db
            except BaseException as e:   # noqa
                exc = tb_summary(e)
        else:
            kind = "keys"
            u = None
            c = self.stamp()
            try:
                res = tuple(db.keys())
            except BaseException as e:   # noqa
                exc = tb_summary(e)
        log.append((kind, u, c, self.stamp(), res, exc))

    def invariant_probe(self):
        with self.db.lock:
            raw = self.db.db
            for k in list(raw.keys()):
                v = raw[k]
                kk = k.decode() if isinstance(k, bytes) else k
                if not kk.startswith("--Reserved--") and \
                        len(v.split(b" ")) != 4 and not self.hook_viol:
                    self.hook_viol.append("malformed value for %r" % kk)
        self.hook_runs += 1

    def analyse(self):
        ctx = self.ctx
        if self.tmp and not os.path.isdir(self.tmp):
            ctx.inconc("scratch directory of %s vanished during the run "
                       "(external interference, not a verdict)" % ctx.case_id)
            return
        writes = {}
        reads = []
        for ti, log in enumerate(self.logs):
            for kind, u, c, r, res, exc in log:
                ctx.ev()
                ctx.count("stress/evals")
                if exc is not None:
                    self.rep.violation(
                        self.key("op_raises", op=kind, exc=exc["type"]),
                        {"thread": ti, "user": u, "traceback": exc,
                         "params": self.P}, "%s raised %s" % (kind,
                                                              exc["repr"]))
                    # a mutator that raised may still have taken effect
                    if kind == "set":
                        writes.setdefault(u, []).append((c, r, res))
                    elif kind == "del":
                        writes.setdefault(u, []).append((c, r, ABSENT))
                    continue
                if kind == "set":
                    writes.setdefault(u, []).append((c, r, res))
                elif kind == "del":
                    if res == "ok":
                        writes.setdefault(u, []).append((c, r, ABSENT))
                        reads.append((ti, kind, u, c, r, "present"))
                    else:
                        reads.append((ti, kind, u, c, r, ABSENT))
                elif kind == "get":
                    reads.append((ti, kind, u, c, r, res))
                elif kind == "in":
                    reads.append((ti, kind, u, c, r,
                                  "present" if res else ABSENT))
                else:
                    have = set(x.decode() if isinstance(x, bytes) else x
                               for x in res)
                    for uu in self.users:
                        reads.append((ti, kind, uu, c, r,
                                      "present" if uu in have else ABSENT))
        index = {u: register_index(ws) for u, ws in writes.items()}
        for ti, kind, u, c, r, seen in reads:
            idx = index.get(u)
            cand, absent_ok = candidates(idx, c, r) if idx else ([], True)
            # a successful del is itself a write: it must not explain itself
            if kind == "del" and seen == "present":
                cand = [w for w in cand if not (w[0] == c)]
            if seen == ABSENT:
                ok = absent_ok or any(w[2] == ABSENT for w in cand)
            elif seen == "present":
                ok = any(w[2] != ABSENT for w in cand)
            else:
                ok = any(w[2] == seen for w in cand)
            ctx.cell("stresscell", "db/%s/%s/%s" % (
                self.P["backend"], kind, "ok" if ok else "unexplained"))
            if not ok:
                self.rep.violation(
                    self.key("unexplained_result", op=kind),
                    {"thread": ti, "user": u, "interval": [c, r],
                     "observed": seen,
                     "candidates": [[w[0], w[1], w[2]] for w in cand],
                     "params": self.P},
                    "%s(%r) observed %r which no write that could be current "
                    "explains" % (kind, u, seen))
        for m in self.hook_viol:
            self.rep.violation(self.key("invariant", at="locked"),
                               {"params": self.P}, m)
        a, c = self.lock.totals()
        ctx.count("stress/lock_acquisitions", a)
        ctx.count("stress/contended", c)

    def close(self):
        try:
            if self.disk and self.db.db is not None:
                self.db.db.close()
        except BaseException:   # noqa
            pass
        if self.tmp:
            shutil.rmtree(self.tmp, ignore_errors=True)


STRESS = {"rsa": RSAStress, "cache": CacheStress, "db": DBStress}


def run_stress(ctx, rep, P):
    boot.uninstall_drbg()         # real entropy for this engine
    st = None
    try:
        st = STRESS[P["obj"]](ctx, rep, P)
        st.run()
        st.analyse()
        ctx.sample({"case": ctx.case_id, "params": P,
                    "ops": sum(len(l) for l in st.logs)})
    finally:
        if st is not None and hasattr(st, "close"):
            st.close()
        if USE_DRBG:
            boot.install_drbg()


# ---------------------------------------------------------------------------
# case planning
# ---------------------------------------------------------------------------
def cache_configs(ctx):
    a, b, c, p, q, r = b"a", b"b", b"c", b"p", b"q", b"r"
    out = []

    def add(name, M, prefix, progs, maxAge=10, restored=False, **kw):
        d = dict(name="sched-cache-" + name, obj="cache", M=M, maxAge=maxAge,
                 prefix=prefix, progs=progs, restored=restored)
        d.update(kw)
        out.append(d)
    # --- no id is ever stored twice
    add("f-setget", 3, [], [[("s", a, 0), ("g", b)], [("s", b, 1), ("g", a)]])
    add("f-evict3", 2, [("s", p, 10)],
        [[("s", a, 0)], [("s", b, 1)], [("g", p)]])
    add("f-purge-vs-set", 4, [("s", p, 10), ("a", 11), ("s", q, 11)],
        [[("g", q), ("g", p)], [("s", a, 0), ("g", q)]])
    add("f-evict-order", 3, [("s", p, 10), ("s", q, 11)],
        [[("g", p)], [("s", a, 0)], [("s", b, 1)]])
    add("f-invalidate", 4, [("s", p, 10)],
        [[("g", p)], [("i", 10), ("g", p)]])
    add("f-clock", 4, [("s", p, 10)],
        [[("g", p), ("g", p)], [("a", 6), ("a", 6)]])
    add("f-two-purges", 5, [("s", p, 10), ("s", q, 11), ("a", 11),
                            ("s", r, 12)],
        [[("g", r)], [("g", r)], [("s", a, 0)]])
    add("f-perkey", 16, [("s", p, 10)],
        [[("s", a, 0), ("g", p)], [("s", b, 1), ("g", a)], [("g", b)]],
        roll=False)
    add("f-wrap", 2, [("s", p, 10), ("s", q, 11), ("s", r, 12)],
        [[("s", a, 0), ("g", a)], [("s", b, 1), ("g", r)]])
    add("f-3x2", 4, [("s", p, 10)],
        [[("s", a, 0), ("g", a)], [("s", b, 1), ("g", p)],
         [("g", a), ("g", b)]])
    add("f-expire-mid", 3, [("s", p, 10), ("a", 9)],
        [[("a", 2), ("g", p)], [("g", p), ("s", a, 0)]])
    # --- an id is stored again (known defect family on the unfixed tree)
    add("r-restore", 4, [("s", a, 10)],
        [[("s", a, 0), ("g", a)], [("g", a), ("s", b, 1)]], restored=True)
    add("r-both", 3, [], [[("s", a, 0), ("s", b, 1)], [("s", a, 2), ("g", a)]],
        restored=True)
    add("r-aged", 5, [("s", a, 10), ("a", 6), ("s", a, 11), ("a", 6)],
        [[("g", a)], [("g", a), ("s", b, 0)]], restored=True)
    # --- seeded random programs
    rng = ctx.case_rng("plan-cache")
    for i in range(ctx.pick(18, 34)):
        restored = (i % 3 == 2)
        M = rng.choice((2, 3, 3, 4, 5))
        ids = [b"a", b"b", b"c"]
        nf = [0]
        ns = [100]

        def mkop(pre=False):
            x = rng.random()
            if x < 0.45:
                if restored:
                    k = rng.choice(ids)
                else:
                    k = b"n%d" % nf[0]
                    nf[0] += 1
                    ids.append(k)
                ns[0] += 1
                return ("s", k, ns[0])
            if x < 0.85 or pre:
                return ("g", rng.choice(ids[-4:]))
            if x < 0.93:
                return ("a", rng.choice((4, 6, 11)))
            return ("i", rng.randint(101, max(101, ns[0])))
        prefix = [mkop(True) for _ in range(rng.randint(0, 3))]
        if rng.random() < 0.5:
            prefix.append(("a", rng.choice((6, 11))))
            prefix.append(mkop(True))
        nt = rng.choice((2, 2, 3))
        progs = [[mkop() for _ in range(rng.randint(1, 3 if nt == 2 else 2))]
                 for _ in range(nt)]
        add("%s-rnd%d" % ("r" if restored else "f", i), M, prefix, progs,
            restored=restored)
    return out


def rsa_configs(ctx):
    out = []

    def add(name, prefix, progs, bits=512, **kw):
        d = dict(name="sched-rsa-" + name, obj="rsa", prefix=prefix,
                 progs=progs, bits=bits)
        d.update(kw)
        out.append(d)
    add("cold-2raw", [], [[("raw", 1)], [("raw", 2)]], bits=256)
    add("warm-2raw", [("raw", 0)], [[("raw", 1)], [("raw", 2)]], bits=256)
    add("warm-2x2raw", [("raw", 0)],
        [[("raw", 1), ("raw", 3)], [("raw", 2), ("raw", 4)]], bits=256)
    add("cold-3raw", [], [[("raw", 1)], [("raw", 2)], [("raw", 3)]], bits=256)
    add("warm-3raw", [("raw", 0)],
        [[("raw", 1), ("raw", 4)], [("raw", 2)], [("raw", 3)]], bits=256)
    add("sign-sign", [], [[("sign", 1)], [("sign", 2)]])
    add("sign-raw", [("sign", 0)], [[("sign", 1), ("raw", 3)], [("raw", 2)]])
    add("dec-sign", [], [[("dec", 1)], [("sign", 2)]], cap=ctx.pick(400, 4000),
        nrand=ctx.pick(60, 600))
    add("dec-dec-raw", [("raw", 0)], [[("dec", 1)], [("dec", 2)],
                                       [("raw", 3)]],
        cap=ctx.pick(300, 3000), nrand=ctx.pick(40, 400))
    add("warm-3x1-256", [("raw", 0), ("raw", 9)],
        [[("raw", 1)], [("raw", 2), ("raw", 5)], [("raw", 3)]], bits=256)
    add("cold-2x2raw", [], [[("raw", 1), ("raw", 3)], [("raw", 2),
                                                       ("raw", 4)]], bits=256)
    add("cold-2x3raw", [], [[("raw", 1), ("raw", 3), ("raw", 5)],
                            [("raw", 2), ("raw", 4), ("raw", 6)]], bits=256)
    add("warm-3x2raw", [("raw", 0)], [[("raw", 1), ("raw", 4)],
                                      [("raw", 2), ("raw", 5)],
                                      [("raw", 3), ("raw", 6)]], bits=256)
    add("cold-sign3", [], [[("sign", 1)], [("sign", 2)], [("sign", 3)]])
    add("warm-sign-2x2", [("sign", 0)], [[("sign", 1), ("sign", 3)],
                                         [("sign", 2), ("raw", 4)]])
    add("cold-raw512", [], [[("raw", 1), ("raw", 3)], [("raw", 2)]])
    return out


def db_configs(ctx):
    out = []
    progsets = [
        ("setget", [("set", "u0", 0)],
         [[("set", "u1", 1), ("get", "u0")], [("del", "u0"), ("keys",)]]),
        ("setset", [], [[("set", "u0", 1), ("get", "u0")],
                        [("set", "u0", 2), ("get", "u0")]]),
        ("setdel", [("set", "u0", 0), ("set", "u1", 1)],
         [[("del", "u0"), ("in", "u0")], [("set", "u0", 2), ("del", "u1")]]),
        ("three", [("set", "u0", 0)],
         [[("set", "u1", 1)], [("set", "u2", 2)], [("get", "u0"),
                                                   ("in", "u1")]]),
        ("newkeys", [("set", "u0", 0), ("set", "u1", 1)],
         [[("set", "u2", 2), ("set", "u3", 3)], [("set", "u0", 4),
                                                 ("set", "u4", 5)]]),
        ("deldel", [("set", "u0", 0)],
         [[("del", "u0")], [("del", "u0")], [("in", "u0")]]),
        ("keys", [("set", "u0", 0)], [[("set", "u1", 1)], [("keys",)],
                                      [("del", "u0")]]),
        ("rw3", [("set", "u0", 0)],
         [[("set", "u0", 1), ("get", "u0"), ("del", "u0")],
          [("get", "u0"), ("set", "u0", 2), ("in", "u0")]]),
    ]
    for backend in ("mem", "disk"):
        for name, prefix, progs in progsets:
            d = dict(name="sched-db-%s-%s" % (backend, name), obj="db",
                     backend=backend, prefix=prefix, progs=progs)
            if backend == "disk":
                d["cap"] = ctx.pick(700, 6000)
                d["nrand"] = ctx.pick(150, 1000)
            out.append(d)
    return out


def stress_cases(ctx):
    rng = ctx.case_rng("plan-stress")
    n = ctx.pick(16, 96)
    secs = ctx.pick(8.0, 28.0)
    kinds = ["rsa", "cache-fresh-big", "cache-fresh-small", "rsa-mixed",
             "cache-restore", "db-mem", "db-disk", "cache-fresh-big"]
    for i in range(n):
        kind = kinds[i % len(kinds)]
        threads = rng.choice((4, 6, 8, 12, 16))
        p_y = rng.choice((0.0, 0.05, 0.15, 0.3)) if i >= len(kinds) else 0.15
        P = dict(threads=threads, p_yield=p_y, seconds=secs, i=i)
        if kind.startswith("rsa"):
            P.update(obj="rsa", bits=256 if kind == "rsa" else 512,
                     kinds=["raw"] if kind == "rsa" else
                     ["raw", "raw", "sign", "sign", "dec"],
                     ops=ctx.pick(3000, 12000) if kind == "rsa" else
                     ctx.pick(600, 2400))
        elif kind.startswith("cache"):
            ops = ctx.pick(4000, 16000)
            big = kind.endswith("big")
            P.update(obj="cache", restore=kind == "cache-restore",
                     nkeys=rng.choice((2, 3, 5)), maxAge=60,
                     M=(threads * ops + 8) if big else rng.choice((3, 8, 32)),
                     p_set=0.3 if big else 0.4, p_get=0.55 if big else 0.45,
                     p_inv=0.05, ops=ops)
        else:
            P.update(obj="db", backend=kind[3:], nkeys=rng.choice((2, 3, 4)),
                     ops=ctx.pick(3000, 12000) if kind == "db-mem" else
                     ctx.pick(400, 1600))
        yield "stress-%d-%s" % (i, kind), ("stress", P)


def make_cases(ctx):
    """case i runs on shard i % nshards: families are laid out in blocks of
    16 so that every shard gets the same mix"""
    # exhaustive small histories first (case 0 -> shard 0 -> its witnesses are
    # the ones written out: they are the minimal ones)
    yield "seq-exh-M2-L4", ("seq", dict(kind="exh", M=2, L=4, part=0,
                                        parts=1))
    yield "seq-exh-M3-L4", ("seq", dict(kind="exh", M=3, L=4, part=0,
                                        parts=1))
    stress = list(stress_cases(ctx))
    for x in stress[:16]:
        yield x
    for cfg in cache_configs(ctx) + rsa_configs(ctx) + db_configs(ctx):
        yield cfg["name"], ("sched", cfg)
    Lq = ctx.pick(6, 7)
    parts = ctx.pick(8, 32)
    for part in range(parts):
        for M in (2, 3):
            yield ("seq-exh-M%d-L%d-p%d" % (M, Lq, part),
                   ("seq", dict(kind="exh", M=M, L=Lq, part=part,
                                parts=parts)))
    for i in range(ctx.pick(32, 160)):
        yield "seq-%d" % i, ("seq", dict(kind="rand", i=i,
                                         n=ctx.pick(1200, 4000)))
    for x in stress[16:]:
        yield x


def run(ctx):
    boot.install_vclock(T0)
    rep = Reporter(ctx)
    try:
        for cid, (eng, P) in ctx.cases(make_cases(ctx)):
            t0 = _mono()
            if eng == "seq":
                run_seq(ctx, rep, P)
            elif eng == "sched":
                explore(ctx, rep, dict(P))
            else:
                run_stress(ctx, rep, P)
            ctx.count("wall_ms/" + eng, int((_mono() - t0) * 1000))
    finally:
        boot.uninstall_vclock()


def finalize(m, tier):
    c = m["counters"]
    out = []

    def need(name, what):
        if c.get(name, 0) <= 0:
            out.append("%s (counter %s is zero)" % (what, name))
    need("seq/evals", "sequential engine made no oracle evaluation")
    need("hook/seq", "cache invariant never evaluated in the sequential "
         "engine")
    for o in ("cache", "rsa", "db"):
        need("sched/%s/evals" % o, "scheduler engine made no evaluation on "
             + o)
        need("hook/sched-%s" % o, "invariant hook inside release() never ran "
             "for %s (lock not taken?)" % o)
        need("sched/%s/distinct_interleavings" % o, "no distinct "
             "interleaving explored for " + o)
    need("sched/contended", "no contended lock acquisition under the "
         "scheduler")
    for lab in ("sessioncache", "python_rsakey", "basedb", "dbm.dumb"):
        need("pp/" + lab, "no preemption point seen in " + lab)
    need("lin/done", "no linearizability check completed")
    if c.get("lin/timeout", 0):
        out.append("%d linearizability searches hit the search cap" %
                   c["lin/timeout"])
    need("stress/evals", "stress engine made no evaluation")
    for o in ("RSA", "SessionCache", "VerifierDB"):
        need("stress/%s/ops" % o, "no stress operations on " + o)
        need("hook/stress-%s" % o, "locked invariant probe never ran under "
             "stress for " + o)
    need("stress/yields_injected", "no yield injected by sys.monitoring")
    need("stress/contended", "no contended lock acquisition under stress")
    cells = m["cells"].get("seqcell", ())
    for want in ("/hit/live/hit/", "/miss/expired/miss/",
                 "/miss/evicted/miss/", "/miss/invalid/miss/",
                 "/dc/age_eq_maxage/", "/dc/spare_slot/"):
        if not any(want in x for x in cells):
            out.append("sequential model class %s never exercised" % want)
    if not m["cells"].get("interleaving"):
        out.append("zero distinct interleavings")
    return out
