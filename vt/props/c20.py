"""C20 - negotiated cipher-suite semantics match the registered meaning."""
from vt import boot  # noqa
from vt import pair, suites, wire, mon, drive, creds
from vt.pair import Pair, outcome
from vt.refs import iana, kdf, sym, ossl

from tlslite.constants import CipherSuite
from tlslite import errors as E

LEVEL = "exploration"
RULE = ("every suite id in CipherSuite.ietfNames x every protocol version x "
        "data initiated by either role: both ends are configured so that "
        "only this suite can be chosen for this version (right credential); "
        "if the handshake completes: the key exchange seen on the plaintext "
        "wire (ServerKeyExchange kind and signedness, ClientKeyExchange form, "
        "certificate presence and key type), the record protection (each "
        "captured application record of lengths 1/15/16/17/100 is decrypted "
        "and its MAC/tag verified under keys the harness derives itself from "
        "the master secret and hello randoms - or the TLS 1.3 traffic secret "
        "- with the PRF hash, key length, IV/nonce construction, MAC and tag "
        "length that the IANA *name* denotes, using independent references), "
        "the record expansion and the names reported by the accessors are "
        "compared with the name's meaning; a suite negotiated in a version "
        "Also: servers with several key pairs, every server key type, a "
        "ServerHello naming a foreign suite, TLS 1.3 secret lengths / "
        "exporter / next key generation / post-handshake Finished under "
        "the suite's hash, sessions offered again to a server limited "
        "to a lower version, every calc_key call of the handshake "
        "recomputed (finite-field secrets of odd length included).   "
        "that does not define it is a violation. distinct_nontrivial = "
        "distinct (suite, version, EtM, role) cells judged.")
ASSUMPTIONS = [
    "ietfNames is used only as the id -> name table; its entries are cross-"
    "checked against OpenSSL's id/name table for the shared suites",
    "ECC suites in SSLv3 are the library's own policy: recorded, not judged",
    "a suite that is defined and implemented but never negotiable is "
    "reported in the evidence, not judged",
]
NONTRIVIAL = ["cell"]
DEADLINE = {"quick": 90, "thorough": 600}

MACH = {"md5": "md5", "sha": "sha1", "sha256": "sha256", "sha384": "sha384"}
LENS = [1, 15, 16, 17, 100]


# ---- online monitor on the key derivation entry point -------------------
# every call the handshake makes to tlslite.mathtls.calc_key (master secret,
# extended master secret, key expansion, Finished) is recomputed at once by
# the reference PRF with the hash the *suite name* prescribes
KDF_LOG = []
ODD_PRIME = int(
    "d62ff12c7f1edda253025572b9d58a32ad040fdecc7d8fae064294f7df2f87bb06d39795"
    "fb016c023360028c19d7bebdc1f8b14db11a043ce0cbd333614f5437feca558426bfe777"
    "a67684c934ae8570648c004040da4504591f8970bafa35cd7ed6a493b41986cf97bbee48"
    "8473ac748e35912b773b71c541b4270c430167bc67", 16)   # 1032 bits, safe


def _install_kdf_monitor():
    import tlslite.mathtls as M
    import tlslite.tlsconnection as TC
    import tlslite.recordlayer as RL
    import tlslite.keyexchange as KX
    real = M.calc_key
    if getattr(real, "_vt_monitor", False):
        return

    def calc_key(version, secret, cipher_suite, label, handshake_hashes=None,
                 client_random=None, server_random=None, output_length=None):
        out = real(version, secret, cipher_suite, label,
                   handshake_hashes=handshake_hashes,
                   client_random=client_random, server_random=server_random,
                   output_length=output_length)
        try:
            ver = tuple(version)
            su = suites.TABLE.get(cipher_suite)
            want = None
            lab = bytes(label)
            if su is not None and (3, 0) <= ver <= (3, 3):
                prf = su.prf
                if lab == b"master secret":
                    want = kdf.master_secret(ver, prf, bytes(secret),
                                             client_random, server_random)
                elif lab == b"key expansion":
                    want = kdf.key_block(ver, prf, bytes(secret),
                                         client_random, server_random,
                                         output_length)
                elif ver > (3, 0):
                    if ver < (3, 3):
                        seed = bytes(handshake_hashes.digest("md5")) + \
                            bytes(handshake_hashes.digest("sha1"))
                    else:
                        seed = bytes(handshake_hashes.digest(prf))
                    n = 48 if lab == b"extended master secret" else 12
                    want = kdf._prf(ver, prf, bytes(secret), lab, seed, n)
            KDF_LOG.append((ver, cipher_suite, lab, len(secret),
                            None if want is None else
                            bytes(want) == bytes(out)))
        except Exception as e:   # noqa
            KDF_LOG.append(("monitor_error", repr(e)))
        return out
    calc_key._vt_monitor = True
    for mod in (M, TC, RL, KX):
        if getattr(mod, "calc_key", None) is real:
            mod.calc_key = calc_key


def judge_kdf_log(ctx, key, W):
    for ent in KDF_LOG:
        if ent[0] == "monitor_error":
            ctx.inconc("key derivation monitor failed: %s" % ent[1])
            continue
        ver, sid, lab, slen, ok = ent
        if ok is None:
            continue
        ctx.ev()
        ctx.count("kdf_calls_recomputed")
        ctx.cell("kdfcall", "%s|%s|%s" % (pair.VNAME[ver], lab.decode(),
                                          "odd" if slen % 2 else "even"))
        if not ok:
            ctx.violation(dict(key, clause="prf_output_not_per_suite",
                               label=lab.decode(),
                               secret="odd" if slen % 2 else "even"),
                          dict(W, secret_len=slen),
                          "calc_key(%s, %r) with a %d-byte secret differs "
                          "from the PRF the suite name prescribes" % (
                              pair.VNAME[ver], lab, slen))
            return


def make_cases(ctx):
    # finite-field exchanges whose shared secret has an odd number of bytes
    # (a 1032-bit group): the TLS 1.0/1.1 PRF splits the secret in halves
    for ver in pair.VERSIONS:
        if ver == (3, 4):
            continue
        for sid in (0x0033, 0x0039, 0x0034):
            for rep in range(ctx.pick(2, 6)):
                yield "oddpm-%04x-%d%d-%d" % (sid, ver[0], ver[1], rep), \
                    dict(sid=sid, ver=ver, etm=True, init="c", oddpm=True)
    for sid in sorted(suites.TABLE):
        su = suites.TABLE[sid]
        for ver in pair.VERSIONS:
            variants = [(True, "c")]
            if not ctx.quick:
                variants = [(True, "c"), (True, "s")]
                if su.cipher_kind == "cbc":
                    variants += [(False, "c"), (False, "s")]
            elif su.cipher_kind == "cbc" and (sid + ver[1]) % 2:
                variants = [(False, "s")]
            for etm, init in variants:
                yield "%04x-%d%d-e%d-%s" % (sid, ver[0], ver[1], etm, init), \
                    dict(sid=sid, ver=ver, etm=etm, init=init)
    # post-handshake authentication: the later Finished is made with the
    # same hash as everything else on the connection
    for sid in sorted(suites.TABLE):
        if suites.TABLE[sid].tls13 and suites.TABLE[sid].negotiable:
            for ck in ("rsa", "ecdsa"):
                for init in ("c", "s"):
                    yield "pha-%04x-%s-%s" % (sid, ck, init), dict(
                        sid=sid, ver=(3, 4), etm=True, init=init, pha=ck)
    # servers holding several key pairs of different types: the suite's
    # authentication type must follow the key pair actually used
    for ver in ((3, 3), (3, 2), (3, 4)):
        for dflt, extra in (("rsa", "ecdsa256"), ("ecdsa256", "rsa"),
                            ("rsa", "ed25519"), ("ecdsa384", "rsa"),
                            ("rsa", "dsa"), ("dsa", "rsa")):
            for pref in ("extra", "default"):
                yield "multi-%d%d-%s-%s-%s" % (ver[0], ver[1], dflt, extra,
                                               pref), dict(
                    multi=[dflt, extra, pref], ver=ver, etm=True, init="c",
                    sid=None)
    # every server key type against a client with default suites: the suite
    # family has to follow the key
    for ver in ((3, 3), (3, 2), (3, 1)):
        for k in ("rsa", "rsapss", "ecdsa256", "ecdsa384", "ecdsa521",
                  "bp256", "ed25519", "ed448", "dsa"):
            yield "bykey-%d%d-%s" % (ver[0], ver[1], k), dict(
                bykey=k, ver=ver, etm=True, init="c", sid=None)
    # a ServerHello that names a suite the negotiated version does not
    # define (the client offered it for another version)
    for real, cname, foreign in ((0x1301, "aes128gcm", 0xC02F),
                                 (0x1301, "aes128gcm", 0x009C),
                                 (0x1302, "aes256gcm", 0xC030),
                                 (0x1303, "chacha20-poly1305", 0xCCA8),
                                 (0x1301, "aes128gcm", 0x002F)):
        yield "foreign13-%04x" % foreign, dict(foreign=[real, cname, foreign],
                                               ver=(3, 4))
    for foreign in (0x1301, 0x1302, 0x1303):
        for ver in ((3, 3), (3, 1)):
            yield "foreign12-%04x-%d" % (foreign, ver[1]), dict(
                foreign=[None, None, foreign], ver=ver)
    # a session negotiated at one version offered again to a server (same
    # cache / ticket key) that now speaks a lower version at most: whatever
    # the answer, the suite named in it must be defined for the version
    for sid in suites.NEGOTIABLE:
        su = suites.TABLE[sid]
        if su.tls13 or not su.defined_for((3, 3)):
            continue
        only12 = not su.defined_for((3, 2))
        lows = [(3, 2), (3, 1), (3, 0)] if only12 else [(3, 1)]
        if ctx.quick:
            lows = [lows[sid % len(lows)]] if not only12 else \
                [(3, 2), [(3, 1), (3, 0)][sid % 2]]
        for low in lows:
            for mech in ("id", "ticket"):
                if mech == "ticket" and low == (3, 0):
                    continue
                yield "resver-%04x-%d-%s" % (sid, low[1], mech), dict(
                    resver=[sid, list(low), mech])
    yield "names-table", dict(table=True)


def run_table(ctx):
    """ietfNames vs OpenSSL's own id/name table (independent registry copy)"""
    from vt import osslpeer
    n = 0
    for sid, c in osslpeer.BY_ID.items():
        name = CipherSuite.ietfNames.get(sid)
        if name is None:
            continue
        su = suites.TABLE.get(sid)
        if su is None:
            continue
        n += 1
        ctx.ev()
        # OpenSSL describes: kx / au / enc / mac in 'description'
        d = c.get("description", "")
        alg = {"aes128": "AES(128)", "aes256": "AES(256)",
               "aes128gcm": "AESGCM(128)", "aes256gcm": "AESGCM(256)",
               "aes128ccm": "AESCCM(128)", "aes256ccm": "AESCCM(256)",
               "aes128ccm_8": "AESCCM8(128)", "aes256ccm_8": "AESCCM8(256)",
               "chacha20-poly1305": "CHACHA20/POLY1305(256)",
               "3des": "3DES(168)", "rc4": "RC4(128)", "null": "None"}.get(
                   su.cipher)
        if alg and ("Enc=" + alg) not in d:
            ctx.violation({"clause": "name_table_disagrees_with_openssl",
                           "suite": name}, {"openssl": d},
                          "%s: OpenSSL says %s" % (name, d))
        macw = {"sha": "SHA1", "sha256": "SHA256", "sha384": "SHA384",
                "md5": "MD5", "aead": "AEAD"}[su.mac]
        if ("Mac=" + macw) not in d:
            ctx.violation({"clause": "name_table_disagrees_with_openssl",
                           "suite": name, "what": "mac"}, {"openssl": d},
                          "%s: OpenSSL says %s" % (name, d))
    ctx.count("names_cross_checked", n)


def direction_records(link, d):
    """records of one direction after its ChangeCipherSpec (<= 1.2)"""
    out = []
    seen = False
    for r in link.recs(d):
        if seen:
            out.append(r)
        elif r.type == 20:
            seen = True
    return out


def verify_le12(ctx, su, ver, etm, keys, recs, idx, want_type, want_pt, who):
    """independently decrypt record recs[idx] (sequence number idx)"""
    r = recs[idx]
    body = r.body
    seq = idx
    mackey = keys[who + "mac"]
    key = keys[who + "key"]
    iv = keys[who + "iv"]
    k = su.cipher_kind
    hname = MACH.get(su.mac)

    def mac(content):
        if ver == (3, 0):
            return kdf.ssl3_record_mac(hname, mackey, seq, r.type, content)
        return kdf.tls_record_mac(hname, mackey, seq, r.type, bytes(ver),
                                  content)
    if su.aead:
        seqb = seq.to_bytes(8, "big")
        if k in ("gcm", "ccm"):
            explicit, ct = body[:8], body[8:]
            nonce = iv + explicit
            aead = sym.GCM(key) if k == "gcm" else sym.CCM(key, su.taglen)
        elif k == "chacha":
            nonce = bytes(a ^ b for a, b in zip(bytes(4) + seqb, iv))
            ct = body
            aead = sym.ChaCha20Poly1305(key)
        else:
            nonce = iv + seqb
            ct = body
            aead = sym.ChaCha20Poly1305(key)
        ptlen = len(ct) - su.taglen
        aad = seqb + bytes([r.type]) + bytes(ver) + ptlen.to_bytes(2, "big")
        pt = aead.open(nonce, ct, aad)
        return pt
    if k == "null":
        content, m = body[:-su.maclen], body[-su.maclen:]
        return content if mac(content) == m else None
    if k == "stream":
        allct = b"".join(x.body for x in recs[:idx + 1])
        plain = ossl.rc4(key, allct)[-len(body):]
        content, m = plain[:-su.maclen], plain[-su.maclen:]
        return content if mac(content) == m else None
    # CBC
    bs = su.block

    def dec(ivv, data):
        if su.cipher == "3des":
            return ossl.des3_cbc(key, ivv, data, True)
        return sym.cbc_decrypt(sym.AES(key), ivv, data)
    enc = body
    if etm:
        enc, m = body[:-su.maclen], body[-su.maclen:]
        if mac(enc) != m:
            return None
    if ver >= (3, 2):
        ivv, enc2 = enc[:bs], enc[bs:]
    else:
        prev = recs[idx - 1].body if idx > 0 else None
        if prev is not None and etm:
            prev = prev[:-su.maclen]
        ivv = prev[-bs:] if prev is not None else iv
        enc2 = enc
    if len(enc2) % bs or not enc2:
        return None
    plain = dec(ivv, enc2)
    p = plain[-1]
    if p + 1 > len(plain):
        return None
    if ver > (3, 0) and plain[-(p + 1):] != bytes([p]) * (p + 1):
        return None
    plain = plain[:-(p + 1)]
    if etm:
        return plain
    if len(plain) < su.maclen:
        return None
    content, m = plain[:-su.maclen], plain[-su.maclen:]
    return content if mac(content) == m else None


def verify_13(su, secret, rec, seqs=range(0, 8)):
    key, iv = kdf.tls13_traffic_keys(su.prf, bytes(secret), su.keylen)
    k = su.cipher_kind
    aead = sym.GCM(key) if k == "gcm" else \
        sym.CCM(key, su.taglen) if k == "ccm" else sym.ChaCha20Poly1305(key)
    hdr = rec.raw[:5]
    for seq in seqs:
        nonce = bytes(a ^ b for a, b in zip(
            bytes(4) + seq.to_bytes(8, "big"), iv))
        pt = aead.open(nonce, rec.body, hdr)
        if pt is not None:
            inner = pt.rstrip(b"\x00")
            return seq, inner[-1], inner[:-1]
    return None


def multi_flavor(P, ver):
    from vt import creds
    from vt.pair import Flavor, ver_settings
    from tlslite.handshakesettings import VirtualHost, Keypair
    dflt, extra, pref = P["multi"]
    if ver < (3, 3) and "ed25519" in (dflt, extra):
        return None
    if ver == (3, 4) and "dsa" in (dflt, extra):
        return None
    fam = {"rsa": "rsa", "ecdsa256": "ecdsa", "ecdsa384": "ecdsa",
           "ed25519": "eddsa", "dsa": "dsa"}
    # the client's signature algorithms admit only one of the two key types
    want = extra if pref == "extra" else dflt
    ckw = {}
    if fam[want] != "rsa":
        ckw["rsaSigHashes"] = []
    if fam[want] != "ecdsa":
        ckw["ecdsaSigHashes"] = []
    if fam[want] != "dsa":
        ckw["dsaSigHashes"] = []
    if fam[want] != "eddsa":
        ckw["more_sig_schemes"] = []
    try:
        cs = ver_settings(ver, **ckw)
        ss = ver_settings(ver)
        cs.validate()
    except ValueError:
        return None
    chain, key = creds.server(extra)
    vh = VirtualHost()
    vh.keys = [Keypair(key, tuple(chain.x509List))]
    ss.virtual_hosts = [vh]
    return Flavor("cert", skey=dflt, cset=cs, sset=ss)


def run_foreign(ctx, cid, P):
    """key-holding server whose ServerHello carries a suite id that the
    negotiated version does not define"""
    from vt import adv
    from vt.pair import Flavor, settings
    real, cname, foreign = P["foreign"]
    ver = tuple(P["ver"])
    cs = settings(minVersion=(3, 1), maxVersion=(3, 4))
    skw = dict(minVersion=ver, maxVersion=ver)
    if cname:
        skw["cipherNames"] = [cname]
    ss = settings(**skw)
    fl = Flavor("cert", skey="rsa", cset=cs, sset=ss)
    p = Pair()
    st = {}

    def rw(i, t, msg, raw):
        if t == 2 and not st.get("done"):
            h = wire.parse_server_hello(raw[4:])
            if h.is_hrr:
                return None
            st["done"] = True
            st["was"] = h.suite
            h.suite = foreign
            return [adv.Raw(22, wire.hs_msg(2, wire.ser_server_hello(h)))]
        return None
    adv.Deviant(p.s, rw)
    tc, ts = p.handshake(fl)
    ctx.ev()
    if not st.get("done"):
        ctx.count("foreign_not_reached")
        return
    ctx.count("foreign_suite_hellos")
    fsu = suites.TABLE.get(foreign)
    key = {"suite": fsu.name if fsu else hex(foreign),
           "ver": pair.VNAME[ver], "adversarial": True}
    W = {"case": cid, "outcome": [outcome(tc), outcome(ts)],
         "server_really_selected": st.get("was")}
    if tc.status == "done":
        ctx.violation(dict(key, clause="suite_in_undefined_version"), W,
                      "client completed a %s handshake whose ServerHello "
                      "selected %s" % (pair.VNAME[ver], key["suite"]))
    elif not (tc.status == "exc" and isinstance(tc.exc, E.TLSLocalAlert)):
        ctx.violation(dict(key, clause="foreign_suite_not_rejected_by_client",
                           got=str(outcome(tc))), W,
                      "client went on after the ServerHello: %r" % (tc.exc,))
    else:
        ctx.count("foreign_suite_rejected")
    ctx.cell("foreign", "%s|%s|%s" % (pair.VNAME[ver], key["suite"],
                                     outcome(tc)))


def split_hs(buf):
    out = []
    while len(buf) >= 4:
        ln = int.from_bytes(buf[1:4], "big")
        out.append((buf[0], bytes(buf[:4 + ln])))
        buf = buf[4 + ln:]
    return out


def run_pha(ctx, cid, P, p, su, key, W, init):
    """post-handshake authentication on a connection whose sender (init)
    has already moved to its next traffic secret: it must complete, and the
    client's Finished is HMAC(HKDF-Expand-Label(current client application
    traffic secret, "finished", "", Hash.length), transcript hash) with the
    suite's hash (RFC 8446 4.4.4)"""
    nc, ns = len(p.link.recs("c2s")), len(p.link.recs("s2c"))

    def poll(conn, d):
        # (each call with min=0 takes one record: data written earlier by
        # the peer comes first)
        for _ in range(200):
            if not (p.link.in_flight(d) or len(conn.sock._read_buffer)):
                break
            g = conn.readAsync(None, 0)
            for r in g:
                if isinstance(r, int) and r in (0, 1):
                    if not p.link.in_flight(d) and \
                            not len(conn.sock._read_buffer):
                        g.close()
                        break
                    yield r
    t1 = drive.Task("req", p.s.request_post_handshake_auth(), p.ssock)
    drive.run([t1], p.link)
    t2 = drive.Task("ans", poll(p.c, "s2c"), p.csock)
    drive.run([t2], p.link, max_steps=5000)
    t3 = drive.Task("fin", poll(p.s, "c2s"), p.ssock)
    drive.run([t3], p.link, max_steps=5000)
    ctx.ev()
    ctx.count("pha_runs")
    W = dict(W, pha=[str(outcome(t)) for t in (t1, t2, t3)])
    chain = p.s.session.clientCertChain if p.s.session else None
    if any(t.status != "done" for t in (t1, t2, t3)) or chain is None:
        ctx.violation(dict(key, clause="pha_failed",
                           server=str(outcome(t3))), W,
                      "post-handshake authentication under %s failed: %r %r "
                      "%r" % (su.name, t1.exc, t2.exc, t3.exc))
        return
    # independent recomputation of the client's Finished
    sec_c = bytes(p.c.session.cl_app_secret)
    sec_s = bytes(p.c.session.sr_app_secret)
    msgs_s, msgs_c = [], []
    for d, sec, n0, out in (("s2c", sec_s, ns, msgs_s),
                            ("c2s", sec_c, nc, msgs_c)):
        buf = b""
        for r in p.link.recs(d)[n0:]:
            if r.type != 23:
                continue
            res = verify_13(su, sec, r, range(0, 24))
            if res is None:
                ctx.violation(dict(key, clause="record_not_decryptable",
                                   phase="pha"), W, "")
                return
            if res[1] == 22:
                buf += res[2]
        out.extend(split_hs(buf))
    cr = [m for t, m in msgs_s if t == 13]
    flight = [(t, m) for t, m in msgs_c if t in (11, 25, 15, 20)]
    if len(cr) != 1 or [t for t, _ in flight][-1:] != [20]:
        ctx.inconc("could not pick the PHA messages off the wire in %s" % cid)
        return
    hh = p.s._first_handshake_hashes.copy()
    hh.update(bytearray(cr[0]))
    for t, m in flight[:-1]:
        hh.update(bytearray(m))
    th = bytes(hh.digest(su.prf))
    hl = kdf.dlen(su.prf)
    fk = kdf.hkdf_expand_label(su.prf, sec_c, b"finished", b"", hl)
    want = kdf.hmac(su.prf, fk, th)
    got = flight[-1][1][4:]
    ctx.count("pha_finished_recomputed")
    if bytes(got) != bytes(want):
        ctx.violation(dict(key, clause="pha_finished_not_per_suite_hash"),
                      dict(W, got=bytes(got), want=bytes(want)),
                      "the client's post-handshake Finished is not the "
                      "RFC 8446 4.4.4 value under %s" % su.prf)


def run_resver(ctx, cid, P):
    from vt.pair import Flavor, settings
    from tlslite.sessioncache import SessionCache
    sid, low, mech = P["resver"]
    low = tuple(low)
    su = suites.TABLE[sid]
    cache = SessionCache() if mech == "id" else None
    skw = {} if mech == "id" else dict(ticketKeys=[bytes(range(32))])
    try:
        fl = suites.flavor_for(sid, (3, 3), sset_kw=skw,
                               session_cache=cache)
    except Exception:   # noqa
        ctx.count("config_rejected")
        return
    if fl.kind not in ("cert", "anon"):
        return
    # the client keeps one configuration for both connections: the suite of
    # the first one plus what a full handshake at the lower version needs
    ckw = dict(minVersion=(3, 0), maxVersion=(3, 3),
               cipherNames=[su.cipher] + [c for c in ("aes128", "3des")
                                          if c != su.cipher],
               macNames=[su.mac] + (["sha"] if su.mac != "sha" else []),
               keyExchangeNames=[su.kx_setting])
    fl.cset = settings(**ckw)
    p = Pair()
    tc, ts = p.handshake(fl)
    if tc.status != "done" or ts.status != "done" or \
            p.c.session.cipherSuite != sid:
        ctx.count("resver_first_failed")
        return
    if mech == "ticket":
        t = drive.Task("d", drive.aread(p.c, None, 0), p.csock)
        if p.link.in_flight("s2c"):
            drive.run([t], p.link)
    sess = p.c.session
    for conn, sock in ((p.c, p.csock), (p.s, p.ssock)):
        drive.run([drive.Task("c", drive.aclose(conn), sock)], p.link)
    if mech == "ticket" and not sess.tls_1_0_tickets:
        ctx.count("resver_no_ticket")
        return
    skw2 = dict(skw, minVersion=(3, 0), maxVersion=low)
    fl2 = Flavor(fl.kind, skey=fl.skey, cset=settings(**ckw),
                 sset=settings(**skw2), session=sess, session_cache=cache)
    p2 = Pair()
    tc, ts = p2.handshake(fl2)
    ctx.ev()
    ctx.count("resver_attempts")
    sh = [b for t, b in wire.plain_handshake(p2.link.records, "s2c")
          if t == 2]
    W = {"case": cid, "suite": su.name, "first": "TLS1.2",
         "second_max": pair.VNAME[low], "mech": mech,
         "outcome": [outcome(tc), outcome(ts)]}
    if not sh:
        ctx.count("resver_no_server_hello")
        ctx.cell("resver", "%s|%s|no_hello" % (mech, pair.VNAME[low]))
        return
    b = sh[0]
    hver = (b[0], b[1])
    sl = b[34]
    hsid = wire.u16(b, 35 + sl)
    hsu = suites.TABLE.get(hsid)
    resumed = bool(sl) and bytes(b[35:35 + sl]) == bytes(sess.sessionID) \
        if mech == "id" else bool(p2.s.resumed)
    W["server_hello"] = [pair.VNAME.get(hver, str(hver)),
                         hsu.name if hsu else hex(hsid), resumed]
    ctx.cell("resver", "%s|%s|%s" % (mech, pair.VNAME[low],
                                     "resumed" if resumed else "full"))
    key = {"suite": hsu.name if hsu else hex(hsid),
           "ver": pair.VNAME.get(hver, str(hver))}
    if hver > low:
        ctx.violation(dict(key, clause="version_above_server_max"), W, "")
    if hsu is None or not hsu.defined_for(hver):
        ctx.violation(dict(key, clause="suite_in_undefined_version",
                           via="resumption"), W,
                      "ServerHello names %s for %s (session of a TLS 1.2 "
                      "connection offered to a server limited to %s)" % (
                          key["suite"], key["ver"], pair.VNAME[low]))
    elif tc.status == "done" and ts.status == "done":
        ctx.count("resver_completed")
        for conn in (p2.c, p2.s):
            if tuple(conn.version) != hver or \
                    conn.session.cipherSuite != hsid:
                ctx.violation(dict(key, clause="ends_disagree",
                                   via="resumption"), W, "")


def run_case(ctx, cid, P):
    if P.get("resver"):
        return run_resver(ctx, cid, P)
    if P.get("foreign"):
        return run_foreign(ctx, cid, P)
    if P.get("table"):
        return run_table(ctx)
    sid, ver, etm, init = P["sid"], tuple(P["ver"]), P["etm"], P["init"]
    if P.get("bykey"):
        from vt.pair import Flavor, ver_settings
        if ver < (3, 3) and P["bykey"] in ("ed25519", "ed448", "rsapss"):
            ctx.count("multi_config_rejected")
            return
        fl = Flavor("cert", skey=P["bykey"], cset=ver_settings(ver),
                    sset=ver_settings(ver))
        ctx.count("by_key_servers")
    elif P.get("multi"):
        fl = multi_flavor(P, ver)
        if fl is None:
            ctx.count("multi_config_rejected")
            return
        ctx.count("multi_key_servers")
    if P.get("bykey") or P.get("multi"):
        class _Any(object):
            name = "(any)"

            @staticmethod
            def defined_for(v):
                return True
        su = _Any()
    else:
        su = suites.TABLE[sid]
        if not su.negotiable:
            ctx.count("not_implemented")
            return
        try:
            skw = dict(useEncryptThenMAC=etm)
            ckw = dict(useEncryptThenMAC=etm)
            if P.get("oddpm"):
                skw["dhParams"] = (2, ODD_PRIME)
                # no RFC 7919 group on offer: the server's own parameters
                ckw["dhGroups"] = []
                if int(cid.rsplit("-", 1)[1]) % 2:
                    ckw["useExtendedMasterSecret"] = False
            fl = suites.flavor_for(sid, ver, cset_kw=ckw, sset_kw=skw,
                                   **(dict(ckey=P["pha"]) if P.get("pha")
                                      else {}))
        except Exception as e:   # noqa
            ctx.count("config_rejected")
            return
    _install_kdf_monitor()
    del KDF_LOG[:]
    p = Pair()
    tc, ts = p.handshake(fl)
    ctx.ev()
    ctx.count("attempted")
    judge_kdf_log(ctx, {"suite": su.name, "ver": pair.VNAME[ver]},
                  {"case": cid, "suite": su.name})
    both = tc.status == "done" and ts.status == "done"
    W = {"case": cid, "suite": su.name, "ver": pair.VNAME[ver],
         "outcome": [outcome(tc), outcome(ts)]}
    if not both:
        if su.defined_for(ver):
            ctx.count("defined_but_not_negotiated")
            ctx.cell("not_negotiable", "%s|%s" % (su.name, pair.VNAME[ver]))
        else:
            ctx.count("refused_undefined")
        return
    nsid = p.c.session.cipherSuite
    nver = tuple(p.c.version)
    nsu = suites.TABLE.get(nsid)
    key = {"suite": nsu.name if nsu else hex(nsid), "ver": pair.VNAME[nver]}
    if nsu is None:
        ctx.violation(dict(key, clause="unknown_suite_negotiated"), W, "")
        return
    # ---- version definition
    if not nsu.defined_for(nver):
        if nver == (3, 0) and nsu.kx in ("ECDHE_RSA", "ECDHE_ECDSA",
                                         "ECDH_ANON"):
            ctx.count("ecc_in_sslv3_recorded")
        else:
            ctx.violation(dict(key, clause="suite_in_undefined_version"), W,
                          "%s negotiated in %s which does not define it" % (
                              nsu.name, pair.VNAME[nver]))
            return
    if p.s.session.cipherSuite != nsid or tuple(p.s.version) != nver:
        ctx.violation(dict(key, clause="ends_disagree"), W, "")
        return
    if nsid != sid:
        # the forced cell is not defined here and a sibling was chosen
        ctx.count("sibling_negotiated")
    su = nsu
    ver = nver
    etm_on = bool(p.c.encryptThenMAC)
    ctx.count("negotiated")
    # ---- names reported by accessors
    names = {"conn.cipher": p.c.getCipherName(),
             "sess.cipher": p.c.session.getCipherName(),
             "sess.mac": p.c.session.getMacName(),
             "conn.version": p.c.getVersionName()}
    want_cipher = su.cipher
    # the draft-00 ChaCha suites are not IANA-registered; the connection
    # accessor names the primitive, which is the same
    conn_ok = names["conn.cipher"] == want_cipher or \
        (su.cipher == "null" and names["conn.cipher"] is None) or \
        (su.cipher_kind == "chacha_draft" and
         names["conn.cipher"] == "chacha20-poly1305")
    if not conn_ok or \
            names["sess.cipher"] != want_cipher:
        ctx.violation(dict(key, clause="cipher_name", got=str(
            names["conn.cipher"])), dict(W, names=names),
            "accessors report cipher %r / %r for %s" % (
                names["conn.cipher"], names["sess.cipher"], su.name))
    want_mac = None if su.mac == "aead" else su.mac
    if names["sess.mac"] not in (want_mac, su.mac):
        ctx.violation(dict(key, clause="mac_name", got=str(names["sess.mac"])),
                      dict(W, names=names),
                      "session.getMacName() = %r for %s" % (names["sess.mac"],
                                                           su.name))
    wantv = {(3, 0): "SSL 3.0", (3, 1): "TLS 1.0", (3, 2): "TLS 1.1",
             (3, 3): "TLS 1.2", (3, 4): "TLS 1.3"}[ver]
    if names["conn.version"] != wantv:
        ctx.violation(dict(key, clause="version_name",
                           got=str(names["conn.version"])), W, "")
    ctx.ev()
    # ---- key exchange on the wire (<= 1.2)
    if ver <= (3, 3):
        smsgs = wire.plain_handshake(p.link.records, "s2c")
        cmsgs = wire.plain_handshake(p.link.records, "c2s")
        st = [t for t, _ in smsgs]
        ct = [t for t, _ in cmsgs]
        has_cert = 11 in st
        has_ske = 12 in st
        if has_cert != (su.auth is not None):
            ctx.violation(dict(key, clause="kx_certificate_presence"), W,
                          "Certificate %s for %s" % (
                              "sent" if has_cert else "absent", su.name))
        if has_ske != (su.ske is not None):
            ctx.violation(dict(key, clause="kx_ske_presence"), W,
                          "ServerKeyExchange %s for %s" % (
                              "sent" if has_ske else "absent", su.name))
        if has_cert:
            body = [b for t, b in smsgs if t == 11][0]
            ders = wire.cert_list(body)
            from tlslite.x509 import X509
            x = X509()
            x.parseBinary(ders[0])
            kt = {"rsa": "rsa", "rsa-pss": "rsa", "ecdsa": "ecdsa",
                  "Ed25519": "ecdsa", "Ed448": "ecdsa",
                  "dsa": "dsa"}.get(x.certAlg)
            if kt != su.auth:
                ctx.violation(dict(key, clause="kx_certificate_keytype",
                                   got=str(x.certAlg)), W, "")
        if has_ske:
            body = [b for t, b in smsgs if t == 12][0]
            try:
                ske = wire.parse_ske(body, su.ske, ver)
                signed = ske.signature is not None
                if signed != (su.auth is not None):
                    ctx.violation(dict(key, clause="kx_ske_signedness"), W,
                                  "ServerKeyExchange signed=%s for %s" % (
                                      signed, su.name))
                if ske.consumed != len(body):
                    ctx.violation(dict(key, clause="kx_ske_shape"), W,
                                  "ServerKeyExchange does not parse as %s "
                                  "parameters" % su.ske)
            except Exception as e:   # noqa
                ctx.violation(dict(key, clause="kx_ske_shape",
                                   exc=type(e).__name__), W, repr(e))
        cke = [b for t, b in cmsgs if t == 16]
        if cke:
            b = cke[0]
            form = None
            if su.kx == "RSA":
                k = len(creds.server("rsa")[1]) // 8
                form = (len(b) == k + 2 and wire.u16(b, 0) == k) if \
                    ver > (3, 0) else len(b) == k
            elif su.ske == "dh":
                form = len(b) >= 2 and wire.u16(b, 0) == len(b) - 2
            elif su.ske == "ecdh":
                form = len(b) >= 1 and b[0] == len(b) - 1
            elif su.ske == "srp":
                form = len(b) >= 2 and wire.u16(b, 0) == len(b) - 2
            if form is False:
                ctx.violation(dict(key, clause="kx_cke_form"), W,
                              "ClientKeyExchange of %d bytes does not have "
                              "the %s form" % (len(b), su.kx))
        ctx.ev()
    # ---- record protection with independently derived keys
    snd, rcv = (p.c, p.s) if init == "c" else (p.s, p.c)
    ssock, rsock = (p.csock, p.ssock) if init == "c" else (p.ssock, p.csock)
    d = "c2s" if init == "c" else "s2c"
    who = "c" if init == "c" else "s"
    # drain tickets etc.
    for conn, sock in ((p.c, p.csock), (p.s, p.ssock)):
        dd = "s2c" if conn is p.c else "c2s"
        if p.link.in_flight(dd):
            t = drive.Task("d", drive.aread(conn, None, 0), sock)
            drive.run([t], p.link)
    pts = []
    n0 = len(p.link.recs(d))
    for n in LENS:
        pt = mon.keystream("%s/%d" % (cid, n), n)
        # no 1/n-1 split: write via the record layer boundary the API offers
        t = drive.Task("w", drive.awrite(snd, pt), ssock)
        drive.run([t], p.link)
        pts.append(pt)
    newrecs = p.link.recs(d)[n0:]
    stream = b"".join(pts)
    if ver <= (3, 3):
        cr, sr = bytes(p.c._clientRandom), bytes(p.c._serverRandom)
        master = bytes(p.c.session.masterSecret)
        ivlen = {"cbc": su.block if ver <= (3, 1) else 0, "gcm": 4, "ccm": 4,
                 "chacha": 12, "chacha_draft": 4}.get(su.cipher_kind, 0)
        n = 2 * (su.maclen + su.keylen + ivlen)
        kb = kdf.key_block(ver, su.prf, master, cr, sr, n)
        ks = kdf.split_key_block(kb, su.maclen, su.keylen, ivlen)
        recs = direction_records(p.link, d)
        got = bytearray()
        first = len(recs) - len(newrecs)
        for idx in range(first, len(recs)):
            if recs[idx].type != 23:
                continue
            try:
                pt = verify_le12(ctx, su, ver, etm_on, ks, recs, idx, 23,
                                 None, who)
            except Exception as e:   # noqa
                pt = None
                W = dict(W, exc=repr(e))
            ctx.ev()
            ctx.count("records_decrypted")
            if pt is None:
                ctx.violation(dict(key, clause="record_not_decryptable",
                                   etm=etm_on, kind=su.cipher_kind),
                              dict(W, record=recs[idx].raw[:200], seq=idx),
                              "an application record does not verify under "
                              "keys derived as %s prescribes (PRF %s, key "
                              "%d, MAC %s)" % (su.name, su.prf, su.keylen,
                                               su.mac))
                return
            got += pt
            # expansion
            emin, emax = su.expansion(ver, etm_on)
            if not (len(pt) + emin <= recs[idx].length <= len(pt) + emax):
                ctx.violation(dict(key, clause="record_expansion"), W,
                              "plaintext %d -> record %d" % (
                                  len(pt), recs[idx].length))
        if bytes(got) != stream:
            ctx.violation(dict(key, clause="decrypted_stream_differs"), W, "")
            return
    else:
        # the whole TLS 1.3 key schedule runs on the hash in the suite name:
        # every secret has that hash's length, and the exporter follows
        # RFC 8446 7.5 under that hash from the exporter master secret
        hl = kdf.dlen(su.prf)
        for end, conn in (("client", p.c), ("server", p.s)):
            se = conn.session
            for nm in ("cl_app_secret", "sr_app_secret",
                       "exporterMasterSecret", "resumptionMasterSecret"):
                v = getattr(se, nm, None)
                if v is not None and len(v) and len(v) != hl:
                    ctx.violation(dict(key, clause="prf_hash_secret_length",
                                       field=nm), dict(W, end=end),
                                  "%s.%s is %d bytes, %s prescribes %s (%d)"
                                  % (end, nm, len(v), su.name, su.prf, hl))
            try:
                got_e = bytes(conn.keyingMaterialExporter(
                    bytearray(b"EXPORTER-vt-c20"), 40))
                ref_e = kdf.tls13_exporter(
                    su.prf, bytes(se.exporterMasterSecret),
                    b"EXPORTER-vt-c20", b"", 40)
                ctx.ev()
                ctx.count("exporters_recomputed")
                if got_e != ref_e:
                    ctx.violation(dict(key, clause="prf_hash_exporter"),
                                  dict(W, end=end),
                                  "keyingMaterialExporter differs from RFC "
                                  "8446 7.5 under %s" % su.prf)
            except Exception as e:   # noqa
                ctx.violation(dict(key, clause="exporter_raises",
                                   exc=type(e).__name__), W, repr(e))
        secret = p.c.session.cl_app_secret if init == "c" else \
            p.c.session.sr_app_secret
        got = bytearray()
        seq_lo = 0
        for r in newrecs:
            if r.type != 23:
                continue
            res = verify_13(su, secret, r, range(seq_lo, seq_lo + 8))
            ctx.ev()
            ctx.count("records_decrypted")
            if res is None:
                ctx.violation(dict(key, clause="record_not_decryptable",
                                   kind=su.cipher_kind),
                              dict(W, record=r.raw[:200]),
                              "a TLS 1.3 record does not open under traffic "
                              "keys derived as %s prescribes" % su.name)
                return
            seq, ityp, pt = res
            seq_lo = seq + 1
            if ityp == 23:
                got += pt
            if r.length != len(pt) + 1 + su.taglen:
                ctx.violation(dict(key, clause="record_expansion"), W,
                              "plaintext %d -> record %d" % (len(pt),
                                                             r.length))
        if bytes(got) != stream:
            ctx.violation(dict(key, clause="decrypted_stream_differs"), W, "")
            return
        # the next key generation (KeyUpdate) is derived with the same hash
        from tlslite.constants import KeyUpdateMessageType
        n1 = len(p.link.recs(d))
        t = drive.Task("ku", snd.send_keyupdate_request(
            KeyUpdateMessageType.update_not_requested), ssock)
        drive.run([t], p.link)
        pt2 = mon.keystream(cid + "/after-ku", 33)
        t2 = drive.Task("w", drive.awrite(snd, pt2), ssock)
        drive.run([t2], p.link)
        if t.status == "done" and t2.status == "done":
            secret2 = kdf.tls13_next_secret(su.prf, bytes(secret))
            after = [r for r in p.link.recs(d)[n1:] if r.type == 23]
            ctx.ev()
            ctx.count("keyupdate_records_checked")
            res = verify_13(su, secret2, after[-1], range(0, 4)) \
                if after else None
            if res is None or res[2] != pt2:
                ctx.violation(dict(key, clause="record_not_decryptable",
                                   kind=su.cipher_kind, phase="after_keyupdate"),
                              dict(W, record=after[-1].raw[:120] if after
                                   else None),
                              "the record after a KeyUpdate does not open "
                              "under the next traffic secret derived with "
                              "%s" % su.prf)
                return
        else:
            ctx.violation(dict(key, clause="keyupdate_failed"), W,
                          "%r %r" % (t.exc, t2.exc))
        if P.get("pha"):
            run_pha(ctx, cid, P, p, su, key, W, init)
    ctx.count("judged")
    ctx.cell("cell", "%s|%s|etm%d|%s%s" % (su.name, pair.VNAME[ver], etm_on,
                                          init, "|pha" if P.get("pha")
                                          else ""))
    if len(ctx.samples) < 4:
        ctx.sample({"case": cid, "suite": su.name, "ver": pair.VNAME[ver],
                    "names": names, "records": len(newrecs)})


def run(ctx):
    for cid, P in ctx.cases(make_cases(ctx)):
        run_case(ctx, cid, P)


def finalize(m, tier):
    out = []
    c = m["counters"]
    if c.get("judged", 0) < 150:
        out.append("fewer than 150 (suite, version) cells judged")
    if c.get("records_decrypted", 0) < 500:
        out.append("fewer than 500 records independently decrypted")
    if c.get("pha_finished_recomputed", 0) < 8:
        out.append("fewer than 8 post-handshake Finished recomputed")
    if c.get("kdf_calls_recomputed", 0) < 500:
        out.append("fewer than 500 calc_key calls recomputed")
    odd = [x for x in m["cells"].get("kdfcall", ()) if x.endswith("|odd")]
    if not any(x.startswith(("TLS1.0|master", "TLS1.1|master",
                             "TLS1.0|extended", "TLS1.1|extended"))
               for x in odd):
        out.append("no TLS 1.0/1.1 master secret from an odd-length "
                   "premaster observed")
    if c.get("resver_attempts", 0) < 100:
        out.append("fewer than 100 sessions offered at a lower version")
    if c.get("names_cross_checked", 0) < 40:
        out.append("IANA name table not cross-checked against OpenSSL")
    return out
