"""C10 - signatures and key agreement are sound, strict and never emitted
when faulty."""
from vt import boot  # noqa
import hashlib
import os
import subprocess
import tempfile

from vt import creds, pair, drive
from vt.pair import Pair
from vt.refs import sigref as R

from tlslite.utils.python_rsakey import Python_RSAKey
from tlslite.utils.keyfactory import generateRSAKey
from tlslite.utils.cryptomath import getRandomPrime
from tlslite.keyexchange import FFDHKeyExchange, ECDHKeyExchange
from tlslite.constants import GroupName
from tlslite import errors as E

import ecdsa
from ecdsa.util import sigdecode_der

LEVEL = "exploration"
RULE = ("cells: (key, scheme, hash, salt class) signature cells - honest "
        "round trips (positive controls) and every structural mutation "
        "class built with the private key plus strided/all single-bit flips "
        "(each must make verify return False); OpenSSL CLI agreement in "
        "both directions per cell; (group, version) key-agreement cells - "
        "honest pairs compared with independent references and every "
        "bad-share class (must raise a TLS exception); fault cells - one "
        "live handshake per (signer, key type, version, fault kind, call "
        "index) with the signer's private operation corrupted, every "
        "ServerKeyExchange/CertificateVerify that left the endpoint is "
        "Messages include ones whose digests begin or end with zero "
        "bytes; DSA is cross-checked with the harness's own signer and "
        "verifier; ECDH also runs through the handshake-level helper "
        "classes for every pair of point-format lists.   "
        "verified independently.  distinct_nontrivial = distinct "
        "(key type, scheme, mutation class) + (group, bad-share class) + "
        "fault sites actually hit + OpenSSL-agreement cells.")
ASSUMPTIONS = [
    "python-ecdsa 0.19 and pure-python RSA/DSA only (no m2crypto/gmpy)",
    "OpenSSL CLI (3.x) is the independent verifier/signer/deriver; FFDH "
    "reference is Python pow with RFC 7919 primes recomputed from the RFC "
    "formula",
    "ECDSA (r, n-s) malleability is inherent to the scheme and is recorded, "
    "not counted as an accepted mutation (OpenSSL agrees)",
    "absent AlgorithmIdentifier parameters in DigestInfo: either verdict "
    "is allowed and recorded",
    "fault model: wrong value returned by the n-th private-key primitive "
    "(RSA result+1, CRT half fault; bit flip in ECDSA/EdDSA/DSA result); "
    "TLS 1.3 and SSLv3 CertificateVerify are checked against the bytes the "
    "endpoint handed to its own sign call (transcript is encrypted / needs "
    "the master secret), everything else against the wire transcript",
]
NONTRIVIAL = ["mutcell", "kexcell", "faultsite", "osslcell"]
DEADLINE = {"quick": 120, "thorough": 900}

HASHES = R.HASHES
PSS_HASHES = ["sha1", "sha224", "sha256", "sha384", "sha512"]

# ------------------------------------------------------------------ keys

RSA_KEYS = {   # name -> (source, arg, tiers)
    "srv2048": ("S", "rsa", "qt"),
    "cli1024": ("C", "rsa", "qt"),
    "pss2048": ("S", "rsapss", "qt"),
    "nonca2048": ("S", "rsa_nonca", "t"),
    "gen1024": ("gen", 1024, "qt"),
    "gen1536": ("gen", 1536, "t"),
    "odd1025": ("odd", 1025, "qt"),
    "odd1027": ("odd", 1027, "qt"),
}
EC_KEYS = {
    "p256": ("S", "ecdsa256"), "p384": ("S", "ecdsa384"),
    "p521": ("S", "ecdsa521"), "bp256": ("S", "bp256"),
    "bp384": ("S", "bp384"), "bp512": ("S", "bp512"),
    "cli_p256": ("C", "ecdsa"),
}
ED_KEYS = {"ed25519": ("S", "ed25519"), "ed448": ("S", "ed448"),
           "cli_ed25519": ("C", "ed25519")}
DSA_KEYS = {"dsa_srv": ("S", "dsa"), "dsa_cli": ("C", "dsa")}
OTHER_KEY = {"srv2048": "nonca2048", "cli1024": "gen1024",
             "pss2048": "srv2048", "nonca2048": "srv2048",
             "gen1024": "cli1024", "gen1536": "cli1024",
             "odd1025": "cli1024", "odd1027": "cli1024",
             "p256": "cli_p256", "cli_p256": "p256", "p384": "bp384",
             "p521": "bp512", "bp256": "p256", "bp384": "p384",
             "bp512": "p521", "ed25519": "cli_ed25519",
             "cli_ed25519": "ed25519", "ed448": "ed25519",
             "dsa_srv": "dsa_cli", "dsa_cli": "dsa_srv"}

_keys = {}
_seed = [0]


class K(object):
    def __init__(self, name, priv, pub, pem):
        self.name = name
        self.priv = priv
        self.pub = pub
        self.pem = pem       # private key PEM text for openssl


def _tbl(src):
    return creds.SERVER if src == "S" else creds.CLIENT


def getkey(name):
    if name in _keys:
        return _keys[name]
    for table in (RSA_KEYS, EC_KEYS, ED_KEYS, DSA_KEYS):
        if name in table:
            spec = table[name]
            break
    src, arg = spec[0], spec[1]
    if src in ("S", "C"):
        chain, priv = creds.load(_tbl(src), arg, fresh=True)
        k = K(name, priv, chain.getEndEntityPublicKey(),
              creds.key_pem(_tbl(src), arg))
    else:
        saved = (boot.drbg.key, boot.drbg.ctr)
        boot.drbg.reseed("c10-key/%s/%d" % (name, _seed[0]))
        if src == "gen":
            priv = generateRSAKey(arg, implementations=["python"])
        else:
            while True:
                p = getRandomPrime(arg - 512, False)
                q = getRandomPrime(512, False)
                if (p * q).bit_length() == arg and (p - 1) % 65537 and \
                        (q - 1) % 65537 and p != q:
                    break
            if p < q:
                p, q = q, p
            d = pow(65537, -1, (p - 1) * (q - 1))
            priv = Python_RSAKey(p * q, 65537, d, p, q)
        boot.drbg.key, boot.drbg.ctr = saved
        pub = Python_RSAKey(int(priv.n), int(priv.e))
        k = K(name, priv, pub,
              R.rsa_private_pem(priv.n, priv.e, priv.d, priv.p, priv.q))
    _keys[name] = k
    return k


def H(h, data):
    return hashlib.new(h, bytes(data)).digest()


def call(f, *a, **kw):
    """-> ('ok', value) | ('exc', exception)"""
    try:
        return "ok", f(*a, **kw)
    except Exception as e:   # noqa
        return "exc", e


def ba(b):
    return bytearray(b)


def flip_positions(ctx, nbits, quick_n):
    if not ctx.quick or nbits <= quick_n:
        return range(nbits)
    stride = max(1, nbits // quick_n)
    off = ctx.rng.randrange(stride)
    pos = set(range(off, nbits, stride))
    pos.update((0, 7, nbits - 1, nbits - 8))
    return sorted(pos)


_SHAPED = {}


def shaped_messages(h):
    """messages whose digest under h has a particular shape: first byte 0,
    first byte 0xff, last byte 0, first two bytes 0 (found by counting)"""
    if h in _SHAPED:
        return _SHAPED[h]
    want = {"lead00": lambda d: d[0] == 0, "leadff": lambda d: d[0] == 0xff,
            "tail00": lambda d: d[-1] == 0,
            "lead0000": lambda d: d[0] == 0 and d[1] == 0}
    out = {}
    i = 0
    while len(out) < len(want) and i < 400000:
        m = b"vt-shaped-digest-%d" % i
        d = H(h, m)
        for nm, f in want.items():
            if nm not in out and f(d):
                out[nm] = m
        i += 1
    _SHAPED[h] = [out[k] for k in sorted(out)]
    return _SHAPED[h]


def messages(ctx, n, h=None):
    lens = [0, 1, 55, 56, 64, 119, 1000]
    out = [b"", b"a"]
    while len(out) < n:
        out.append(ctx.rng.randbytes(ctx.rng.choice(lens)))
    out = out[:n]
    if h is not None:
        out += shaped_messages(h)
    return out


class Cell(object):
    """bookkeeping for one signature cell"""

    def __init__(self, ctx, keytype, scheme, kname, extra=None):
        self.ctx = ctx
        self.keytype = keytype
        self.scheme = scheme
        self.kname = kname
        self.extra = extra or {}

    def key(self, clause, **kw):
        d = {"clause": clause, "keytype": self.keytype,
             "scheme": self.scheme}
        d.update(self.extra)
        d.update(kw)
        return d

    def pos(self, ok, what, wit):
        """positive control: ok must be True"""
        self.ctx.ev()
        self.ctx.count("pos/%s/%s" % (self.keytype, self.scheme))
        if ok is not True:
            self.ctx.violation(self.key("roundtrip", what=what),
                               dict(wit, key=self.kname),
                               "%s/%s %s: %s" % (self.kname, self.scheme,
                                                 what, wit.get("got")))
            return False
        return True

    def neg(self, cls, f, wit, allow=None):
        """negative trial: f() must return False"""
        self.ctx.ev()
        self.ctx.count("neg/%s/%s" % (self.keytype, self.scheme))
        st, v = call(f)
        self.ctx.cell("mutcell", "%s/%s/%s" % (self.keytype, self.scheme,
                                               cls))
        if st == "ok" and v is False:
            return "rejected"
        if st == "ok" and v is True:
            out = "accepted"
        elif st == "ok":
            out = "returned:%s" % type(v).__name__
        else:
            out = "raised:%s" % type(v).__name__
        if allow is not None:
            self.ctx.cell("allowed_either", "%s/%s/%s:%s" % (
                self.keytype, self.scheme, cls, out))
            return out
        if out == "accepted":
            vk = self.key("strict", mutation=cls, outcome=out)
            vk.pop("curve", None)
            if self.scheme != "pss":
                vk.pop("modbits_mod8", None)
        else:
            # one mechanism per (key type, exception): the mutation class
            # is in the witness
            vk = self.key("verify_raises", outcome=out)
            vk.pop("curve", None)
        self.ctx.violation(
            vk, dict(wit, key=self.kname, mutation=cls,
                     detail=repr(v)[:200]),
            "%s %s mutation %s -> %s (callers test only the truth value, "
            "nothing catches)" % (self.kname, self.scheme, cls, out))
        return out


# ---------------------------------------------------------- RSA cells

def rsa_extra(k):
    return {"modbits_mod8": int(k.priv.n).bit_length() % 8}


def i2b(v, n):
    return int(v).to_bytes(n, "big")


def rsa_sig_from_em(k, em):
    n = int(k.priv.n)
    m = int.from_bytes(em, "big")
    if m >= n:
        return None
    kl = (n.bit_length() + 7) // 8
    return i2b(R.rsa_priv(k.priv, m), kl)


def pkcs1_variants(h, digest, kl, rng):
    """name -> EM' (bytes of length kl) for every non-canonical encoding;
    h None = raw (TLS <= 1.1 MD5||SHA1) payload"""
    T = R.digest_info(h, digest) if h else bytes(digest)
    pl = kl - 3 - len(T)
    ff = b"\xff"
    out = {}

    def em(t, bt=1, ps=None, sep=b"\x00", tail=b"", lead=b"\x00"):
        if ps is None:
            n = kl - 3 - len(t) - len(tail) + (1 - len(sep))
            if n < 0:
                return None
            ps = ff * n
        v = lead + bytes([bt]) + ps + sep + t + tail
        return v if len(v) == kl else None

    g = lambda n: bytes(rng.randrange(1, 256) for _ in range(n))  # noqa
    if pl > 7:
        out["ps_short_7"] = em(T, ps=ff * 7, tail=g(pl - 7))
        out["ps_short_1"] = em(T, ps=ff, tail=g(pl - 1))
        out["ps_short_0"] = em(T, ps=b"", tail=g(pl))
        out["garbage_after_1"] = em(T, tail=g(1))
        out["garbage_after_8"] = em(T, tail=g(8))
        out["garbage_after_max"] = em(T, ps=ff * 8, tail=g(pl - 8))
    for nm, i in (("first", 0), ("mid", pl // 2), ("last", pl - 1)):
        ps = bytearray(ff * pl)
        ps[i] = 0
        out["ps_zero_" + nm] = em(T, ps=bytes(ps))
    ps = bytearray(ff * pl)
    ps[pl // 2] = 0xfe
    out["ps_not_ff"] = em(T, ps=bytes(ps))
    out["bt_00"] = em(T, bt=0)
    out["bt_02"] = em(T, bt=2)
    out["bt_02_random_ps"] = em(T, bt=2, ps=g(pl))
    out["no_separator"] = em(T, sep=b"")
    out["separator_ff"] = em(T, sep=b"\xff")
    out["lead_01"] = em(T, lead=b"\x01")
    if h:
        hl = len(digest)
        alg = R.der_seq(R.der_oid(R.HASH_OID[h]), b"\x05\x00")
        octet = R.der_tlv(4, bytes(digest))
        other = "sha256" if h != "sha256" else "sha512"
        out["wrong_oid"] = em(R.digest_info(other, digest))
        body = alg + octet
        out["ber_outer_longform"] = em(b"\x30\x81" + bytes([len(body)]) +
                                       body)
        out["ber_alg_longform"] = em(R.der_seq(
            b"\x30\x81" + bytes([len(alg) - 2]) + alg[2:], octet))
        out["ber_octet_longform"] = em(R.der_seq(
            alg, b"\x04\x81" + bytes([hl]) + bytes(digest)))
        out["outer_len_plus1"] = em(b"\x30" + bytes([len(body) + 1]) + body)
        out["outer_len_minus1"] = em(b"\x30" + bytes([len(body) - 1]) + body)
        out["octet_len_plus1"] = em(R.der_seq(
            alg, b"\x04" + bytes([hl + 1]) + bytes(digest)))
        out["octet_len_minus1"] = em(R.der_seq(
            alg, b"\x04" + bytes([hl - 1]) + bytes(digest)))
        out["params_octetstring"] = em(R.digest_info(h, digest, b"\x04\x00"))
        out["params_null_longform"] = em(R.digest_info(h, digest,
                                                       b"\x05\x81\x00"))
        out["params_null_len1"] = em(R.digest_info(h, digest,
                                                   b"\x05\x01\x00"))
        out["digest_short"] = em(R.digest_info(h, digest[:-1]))
        out["digest_long"] = em(R.digest_info(h, bytes(digest) + b"\0"))
        out["oid_tag_wrong"] = em(R.der_seq(
            R.der_seq(b"\x07" + R.der_oid(R.HASH_OID[h])[1:], b"\x05\x00"),
            octet))
        out["octet_tag_wrong"] = em(R.der_seq(alg, b"\x03" + octet[1:]))
    else:
        out["payload_short"] = em(T[:-1])
        out["payload_long"] = em(T + b"\0")
    return {k: v for k, v in out.items() if v is not None}, T


def verify_rsa(k, sig, digest, scheme, h, slen=None):
    return k.pub.verify(ba(sig), ba(digest), scheme, h, slen)


def run_rsa_pkcs1(ctx, P):
    k = getkey(P["key"])
    h = P["hash"]
    c = Cell(ctx, "rsa", "pkcs1" if h else "pkcs1_raw", k.name, rsa_extra(k))
    n = int(k.priv.n)
    kl = (n.bit_length() + 7) // 8
    msgs = messages(ctx, ctx.pick(4, 8), h)
    sig0 = dig0 = None
    for m in msgs:
        dg = H(h, m) if h else H("md5", m) + H("sha1", m)
        wit = {"hash": h, "msg": m}
        st, sig = call(k.priv.sign, ba(dg), "pkcs1", h, None)
        if st != "ok":
            c.pos(False, "sign_raises:" + type(sig).__name__,
                  dict(wit, got=repr(sig)))
            continue
        sig = bytes(sig)
        # deterministic scheme: must equal the reference encoding signed
        # with the same key
        T = R.digest_info(h, dg) if h else dg
        ref = rsa_sig_from_em(k, R.emsa_pkcs1(T, kl))
        c.pos(sig == ref, "signature_differs_from_RFC8017_encoding",
              dict(wit, got=sig, want=ref))
        st, v = call(verify_rsa, k, sig, dg, "pkcs1", h)
        c.pos(v if st == "ok" else False, "verify_false" if st == "ok" else
              "verify_raises:" + type(v).__name__, dict(wit, got=repr(v),
                                                        sig=sig))
        if h:
            st, s2 = call(k.priv.hashAndSign, ba(m), "PKCS1", h)
            c.pos(st == "ok" and bytes(s2) == sig, "hashAndSign_differs",
                  dict(wit, got=repr(s2)[:80]))
            st, v = call(k.pub.hashAndVerify, ba(sig), ba(m), "PKCS1", h)
            c.pos(v if st == "ok" else False, "hashAndVerify_false",
                  dict(wit, got=repr(v)))
        if sig0 is None and len(m) > 0:
            sig0, dig0, msg0 = sig, dg, m
    if sig0 is None:
        return
    wit = {"hash": h, "msg": msg0, "sig": sig0}
    # structural mutations built with the private key
    variants, T = pkcs1_variants(h, dig0, kl, ctx.rng)
    for cls, em in sorted(variants.items()):
        s = rsa_sig_from_em(k, em)
        if s is None:
            ctx.count("skipped_em_ge_n")
            continue
        c.neg(cls, lambda: verify_rsa(k, s, dig0, "pkcs1", h),
              dict(wit, em=em, sig=s))
    if h:
        # both RFC 8017 forms: NULL must verify (checked above); absent
        # parameters: either verdict, recorded
        s = rsa_sig_from_em(k, R.emsa_pkcs1(R.digest_info(h, dig0, b""), kl))
        c.neg("params_absent", lambda: verify_rsa(k, s, dig0, "pkcs1", h),
              wit, allow="either")
    s_int = int.from_bytes(sig0, "big")
    big = s_int + n
    forms = {"s_plus_n": i2b(big, kl if big.bit_length() <= 8 * kl
                             else kl + 1),
             "s_leading_zero_added": b"\0" + sig0,
             "s_last_byte_dropped": sig0[:-1],
             "s_first_byte_dropped": sig0[1:],
             "s_trailing_byte": sig0 + b"\0",
             "s_empty": b"", "s_zero": bytes(kl), "s_one": i2b(1, kl),
             "s_n_minus_1": i2b(n - 1, kl), "s_n": i2b(n, kl)}
    for cls, s in sorted(forms.items()):
        c.neg(cls, lambda: verify_rsa(k, s, dig0, "pkcs1", h),
              dict(wit, sig=s))
    # changed message / hash / scheme / key
    d2 = bytearray(dig0)
    d2[ctx.rng.randrange(len(d2))] ^= 1 << ctx.rng.randrange(8)
    c.neg("digest_bit", lambda: verify_rsa(k, sig0, d2, "pkcs1", h), wit)
    if h:
        c.neg("message_changed", lambda: k.pub.hashAndVerify(
            ba(sig0), ba(msg0 + b"x"), "PKCS1", h), wit)
        for h2 in HASHES:
            if h2 != h:
                c.neg("hash_changed", lambda: k.pub.hashAndVerify(
                    ba(sig0), ba(msg0), "PKCS1", h2), dict(wit, as_hash=h2))
                if len(H(h2, b"")) == len(dig0):
                    c.neg("hash_changed_same_len", lambda: verify_rsa(
                        k, sig0, dig0, "pkcs1", h2), dict(wit, as_hash=h2))
        c.neg("declared_hash_none", lambda: verify_rsa(
            k, sig0, dig0, "pkcs1", None), wit)
    hp = h if h in PSS_HASHES else "sha256"
    for sl in (0, len(dig0)):
        if len(dig0) == R.hlen(hp):
            c.neg("scheme_changed_to_pss", lambda: verify_rsa(
                k, sig0, dig0, "pss", hp, sl), wit)
    ok = getkey(OTHER_KEY[k.name])
    c.neg("other_key", lambda: verify_rsa(ok, sig0, dig0, "pkcs1", h),
          dict(wit, other=ok.name))
    for b in flip_positions(ctx, 8 * len(sig0), 192):
        s = bytearray(sig0)
        s[b // 8] ^= 0x80 >> (b % 8)
        c.neg("bitflip", lambda: verify_rsa(k, s, dig0, "pkcs1", h),
              dict(wit, bit=b))
    ctx.cell("sigcell", "rsa/%s/%s/%s" % (k.name, c.scheme, h))


def run_pss_key_pkcs1(ctx, P):
    """a certificate key restricted to RSASSA-PSS must not verify PKCS#1
    v1.5 signatures, however well-formed (made here with the private
    exponent and the RFC 8017 encoding), under any hash or call form"""
    k = getkey(P["key"])
    c = Cell(ctx, "rsa", "pkcs1_on_pss_key", k.name, rsa_extra(k))
    n = int(k.priv.n)
    kl = (n.bit_length() + 7) // 8
    for m in messages(ctx, 3):
        for h in [None] + HASHES:
            dg = H(h, m) if h else H("md5", m) + H("sha1", m)
            T = R.digest_info(h, dg) if h else dg
            s = rsa_sig_from_em(k, R.emsa_pkcs1(T, kl))
            if s is None:
                continue
            wit = {"hash": h, "msg": m, "sig": s}
            c.neg("pkcs1_sig_on_pss_key/verify",
                  lambda: verify_rsa(k, s, dg, "pkcs1", h), wit)
            if h:
                c.neg("pkcs1_sig_on_pss_key/hashAndVerify",
                      lambda: k.pub.hashAndVerify(ba(s), ba(m), "PKCS1", h),
                      wit)
                if h == "sha1":
                    # the historical form without the NULL parameters
                    s2 = rsa_sig_from_em(k, R.emsa_pkcs1(
                        R.digest_info(h, dg, b""), kl))
                    if s2 is not None:
                        c.neg("pkcs1_sig_on_pss_key/sha1_no_null",
                              lambda: verify_rsa(k, s2, dg, "pkcs1", h),
                              dict(wit, sig=s2))
    ctx.cell("sigcell", "rsa/%s/pkcs1_on_pss_key" % k.name)


def salt_len(cls, h, embits):
    hl = R.hlen(h)
    mx = (embits + 7) // 8 - hl - 2
    return {"0": 0, "hlen": hl, "max": mx}[cls]


def run_rsa_pss(ctx, P):
    k = getkey(P["key"])
    h = P["hash"]
    c = Cell(ctx, "rsa", "pss", k.name, rsa_extra(k))
    n = int(k.priv.n)
    e = int(k.priv.e)
    kl = (n.bit_length() + 7) // 8
    embits = n.bit_length() - 1
    emlen = (embits + 7) // 8
    sl = salt_len(P["salt"], h, embits)
    hl = R.hlen(h)
    if sl < 0 or emlen < hl + sl + 2:
        ctx.count("pss_cell_does_not_fit")
        return
    sig0 = None
    for m in messages(ctx, ctx.pick(3, 6), P["hash"]):
        dg = H(h, m)
        wit = {"hash": h, "salt": P["salt"], "slen": sl, "msg": m}
        st, sig = call(k.priv.sign, ba(dg), "pss", h, sl)
        if st != "ok":
            c.pos(False, "sign_raises:" + type(sig).__name__,
                  dict(wit, got=repr(sig)))
        else:
            sig = bytes(sig)
            st, v = call(verify_rsa, k, sig, dg, "pss", h, sl)
            c.pos(v if st == "ok" else False, "verify_false" if st == "ok"
                  else "verify_raises:" + type(v).__name__,
                  dict(wit, got=repr(v), sig=sig))
            # independent EMSA-PSS-VERIFY on s^e mod n
            emv = pow(int.from_bytes(sig, "big"), e, n)
            okref = len(sig) == kl and emv.bit_length() <= 8 * emlen and \
                R.pss_check(i2b(emv, emlen), dg, embits, h, sl)
            c.pos(okref, "reference_EMSA_PSS_VERIFY_rejects_tlslite_sig",
                  dict(wit, got=okref, sig=sig))
            st, v = call(k.pub.hashAndVerify, ba(sig), ba(m), "PSS", h, sl)
            c.pos(v if st == "ok" else False, "hashAndVerify_false",
                  dict(wit, got=repr(v)))
            if sig0 is None and m:
                sig0, dig0, msg0 = sig, dg, m
        # reference-made signature must verify under tlslite
        salt = ctx.rng.randbytes(sl)
        em = R.emsa_pss(dg, embits, h, salt)
        s = rsa_sig_from_em(k, em)
        if s is not None:
            st, v = call(verify_rsa, k, s, dg, "pss", h, sl)
            c.pos(v if st == "ok" else False,
                  "rejects_reference_made_signature",
                  dict(wit, got=repr(v), sig=s, em=em))
            if sig0 is None and m:
                sig0, dig0, msg0 = s, dg, m
    if sig0 is None:
        return
    wit = {"hash": h, "salt": P["salt"], "slen": sl, "msg": msg0,
           "sig": sig0}
    salt = ctx.rng.randbytes(sl)
    pslen = emlen - sl - hl - 2
    var = {"trailer_bd": R.emsa_pss(dig0, embits, h, salt, trailer=0xbd),
           "trailer_cc": R.emsa_pss(dig0, embits, h, salt, trailer=0xcc),
           "top_bit_set": R.emsa_pss(dig0, embits, h, salt, set_top=True)
           if 8 * emlen > embits else None,
           "db_separator_02": R.emsa_pss(dig0, embits, h, salt, sep=2),
           "db_separator_00": R.emsa_pss(dig0, embits, h, salt, sep=0)}
    if pslen > 0:
        for nm, i in (("first", 0), ("last", pslen - 1)):
            ps = bytearray(pslen)
            ps[i] = 1      # lowest bit: never inside the masked top bits
            var["db_ps_nonzero_" + nm] = R.emsa_pss(dig0, embits, h, salt,
                                                    ps=bytes(ps))
    good = R.emsa_pss(dig0, embits, h, salt)
    x = bytearray(good)
    x[emlen - hl - 1] ^= 1
    var["H_bit"] = bytes(x)
    x = bytearray(good)
    x[emlen - hl - 2] ^= 1      # last salt byte / separator
    var["salt_or_sep_bit"] = bytes(x)
    for cls, em in sorted(var.items()):
        s = rsa_sig_from_em(k, b"\0" * (kl - emlen) + em) if em else None
        if s is None:
            ctx.count("skipped_em_ge_n")
            continue
        c.neg(cls, lambda: verify_rsa(k, s, dig0, "pss", h, sl),
              dict(wit, em=em, sig=s))
    if kl > emlen:
        # modulus of 8k+1 bits: EM is one octet shorter than the modulus and
        # the octet in front of it has to be zero (RFC 8017 9.1.2 step 1
        # works on emLen octets; a set bit there is a different integer)
        for attempt in range(40):
            em = R.emsa_pss(dig0, embits, h, ctx.rng.randbytes(sl))
            s = rsa_sig_from_em(k, b"\x01" + em)
            if s is not None:
                c.neg("leading_octet_nonzero", lambda: verify_rsa(
                    k, s, dig0, "pss", h, sl), dict(wit, em=em, sig=s))
                break
        else:
            ctx.count("skipped_em_ge_n")
    for sl2 in sorted({0, hl, sl + 1, sl - 1, salt_len("max", h, embits)}):
        if sl2 != sl and sl2 >= 0:
            c.neg("salt_len_changed", lambda: verify_rsa(
                k, sig0, dig0, "pss", h, sl2), dict(wit, as_slen=sl2))
    d2 = bytearray(dig0)
    d2[ctx.rng.randrange(len(d2))] ^= 1 << ctx.rng.randrange(8)
    c.neg("digest_bit", lambda: verify_rsa(k, sig0, d2, "pss", h, sl), wit)
    c.neg("message_changed", lambda: k.pub.hashAndVerify(
        ba(sig0), ba(msg0 + b"x"), "PSS", h, sl), wit)
    for h2 in PSS_HASHES:
        if h2 != h:
            c.neg("hash_changed", lambda: k.pub.hashAndVerify(
                ba(sig0), ba(msg0), "PSS", h2, sl), dict(wit, as_hash=h2))
    c.neg("scheme_changed_to_pkcs1", lambda: verify_rsa(
        k, sig0, dig0, "pkcs1", h), wit)
    s_int = int.from_bytes(sig0, "big")
    big = s_int + n
    forms = {"s_plus_n": i2b(big, kl if big.bit_length() <= 8 * kl
                             else kl + 1),
             "s_leading_zero_added": b"\0" + sig0,
             "s_last_byte_dropped": sig0[:-1], "s_empty": b"",
             "s_zero": bytes(kl), "s_n": i2b(n, kl)}
    for cls, s in sorted(forms.items()):
        c.neg(cls, lambda: verify_rsa(k, s, dig0, "pss", h, sl),
              dict(wit, sig=s))
    ok = getkey(OTHER_KEY[k.name])
    c.neg("other_key", lambda: verify_rsa(ok, sig0, dig0, "pss", h, sl),
          dict(wit, other=ok.name))
    for b in flip_positions(ctx, 8 * len(sig0), 128):
        s = bytearray(sig0)
        s[b // 8] ^= 0x80 >> (b % 8)
        c.neg("bitflip", lambda: verify_rsa(k, s, dig0, "pss", h, sl),
              dict(wit, bit=b))
    ctx.cell("sigcell", "rsa/%s/pss/%s/%s" % (k.name, h, P["salt"]))


def run_rsa_strip(ctx, P):
    """a signature whose top byte is zero, sent with that byte stripped"""
    k = getkey(P["key"])
    c = Cell(ctx, "rsa", "pkcs1", k.name, rsa_extra(k))
    n = int(k.priv.n)
    kl = (n.bit_length() + 7) // 8
    for i in range(4000):
        dg = H("sha256", b"strip-%d" % i)
        s = rsa_sig_from_em(k, R.emsa_pkcs1(R.digest_info("sha256", dg), kl))
        if s[0] == 0:
            st, v = call(verify_rsa, k, s, dg, "pkcs1", "sha256")
            c.pos(v if st == "ok" else False, "verify_false_leading_zero_sig",
                  {"sig": s, "got": repr(v)})
            c.neg("s_leading_zero_stripped", lambda: verify_rsa(
                k, s[1:], dg, "pkcs1", "sha256"), {"sig": s[1:], "i": i})
            return
    ctx.count("strip_search_exhausted")


# ------------------------------------------------ ECDSA / DSA / EdDSA cells

def der_sint(v):
    """DER INTEGER for any (also negative) integer, minimal two's
    complement"""
    ln = 1
    while True:
        try:
            return R.der_tlv(2, int(v).to_bytes(ln, "big", signed=True))
        except OverflowError:
            ln += 1


def dersig_variants(r, s, q, rng):
    """-> (must_reject: name -> bytes, info: name -> bytes)"""
    I = R.der_int   # noqa
    seq = R.der_seq
    ri, si = I(r), I(s)
    out = {
        "r_zero": seq(I(0), si), "s_zero": seq(ri, I(0)),
        # degenerate pairs that make the verification equation trivial
        # when a range check is missing (s = 0 -> w = 0 -> v = 1)
        "r_one_s_zero": seq(I(1), I(0)), "r_zero_s_zero": seq(I(0), I(0)),
        "r_one_s_one": seq(I(1), I(1)), "r_one_s_n": seq(I(1), I(q)),
        "r_eq_n": seq(I(q), si), "s_eq_n": seq(ri, I(q)),
        "r_n_plus_1": seq(I(q + 1), si), "s_n_plus_1": seq(ri, I(q + 1)),
        "r_plus_n": seq(I(r + q), si), "s_plus_n": seq(ri, I(s + q)),
        "r_2k": seq(I(1 << q.bit_length()), si),
        "s_2k": seq(ri, I(1 << q.bit_length())),
        "r_negative": seq(der_sint(-r), si),
        "s_negative": seq(ri, der_sint(-s)),
        "r_minus_n": seq(der_sint(r - q), si),
        "s_minus_n": seq(ri, der_sint(s - q)),
        "r_nonminimal": seq(R.der_tlv(2, b"\0" + R.der_uint_body(r)), si),
        "s_nonminimal": seq(ri, R.der_tlv(2, b"\0" + R.der_uint_body(s))),
        "trailing_after_seq": seq(ri, si) + b"\0",
        "trailing_in_seq": seq(ri, si, b"\x05\x00"),
        "trailing_garbage_in_seq": seq(ri, si + bytes([rng.randrange(256)])),
        "tag_set_not_seq": b"\x31" + seq(ri, si)[1:],
        "tag_r_bitstring": seq(b"\x03" + ri[1:], si),
        "tag_s_octetstring": seq(ri, b"\x04" + si[1:]),
        "seq_len_plus1": b"\x30" + bytes([len(ri + si) + 1]) + ri + si,
        "seq_len_minus1": b"\x30" + bytes([len(ri + si) - 1]) + ri + si,
        "indefinite_len": b"\x30\x80" + ri + si + b"\0\0",
        "empty": b"", "only_seq_header": b"\x30\x00",
        "truncated": seq(ri, si)[:-1],
        "one_integer": seq(ri),
        "int_empty": seq(b"\x02\x00", si),
        "int_len_longform": seq(b"\x02\x81" + ri[1:], si),
    }
    body = ri + si
    if len(body) < 128:
        out["seq_len_longform"] = b"\x30\x81" + bytes([len(body)]) + body
    else:
        out["seq_len_longform"] = b"\x30\x82\x00" + bytes([len(body)]) + body
    # missing sign pad: top-bit-set magnitude without the 00 (reads negative)
    for nm, v in (("r", r), ("s", s)):
        mag = int(v).to_bytes((int(v).bit_length() + 7) // 8, "big")
        if mag and mag[0] & 0x80:
            bad = R.der_tlv(2, mag)
            out["%s_missing_sign_pad" % nm] = seq(bad, si) if nm == "r" \
                else seq(ri, bad)
    info = {"s_negated_mod_n": seq(ri, I(q - s))}
    return out, info


def run_dersig(ctx, P):
    k = getkey(P["key"])
    h = P["hash"]
    dsa = P["fam"] == "dsa"
    if dsa:
        q = int(k.priv.q)
        c = Cell(ctx, "dsa", "dsa", k.name)
        trunc = lambda d: d   # noqa
    else:
        q = int(k.priv.private_key.curve.order)
        bl = k.priv.private_key.curve.baselen
        c = Cell(ctx, "ecdsa", "ecdsa", k.name,
                 {"curve": k.priv.curve_name})
        trunc = lambda d: d[:bl]   # noqa (what every TLS call site does)
    sig0 = None
    for m in messages(ctx, ctx.pick(3, 6), h):
        dg = H(h, m)
        wit = {"hash": h, "msg": m}
        st, sig = call(k.priv.sign, ba(trunc(dg)), None, h, None)
        if st != "ok":
            c.pos(False, "sign_raises:" + type(sig).__name__,
                  dict(wit, got=repr(sig)))
            continue
        sig = bytes(sig)
        st, v = call(k.pub.verify, ba(sig), ba(trunc(dg)), None, h, None)
        c.pos(v if st == "ok" else False, "verify_false" if st == "ok" else
              "verify_raises:" + type(v).__name__,
              dict(wit, got=repr(v), sig=sig))
        if dsa:
            # an independent FIPS 186-4 verifier, and a signature made by an
            # independent signer must be accepted
            c.pos(dsa_ref_verify(k.priv, sig, dg),
                  "independent_verifier_rejects", dict(wit, sig=sig))
            rs = dsa_ref_sign(k.priv, dg, ctx.rng)
            st, v = call(k.pub.verify, ba(rs), ba(dg), None, h, None)
            c.pos(v if st == "ok" else False,
                  "independent_signature_rejected", dict(wit, sig=rs))
        # hashAndSign/hashAndVerify (API level; python-ecdsa refuses digests
        # longer than the curve there: recorded as an API limit, no sig made)
        if dsa:
            st, s2 = call(k.priv.hashAndSign, ba(m), h)
        else:
            st, s2 = call(k.priv.hashAndSign, ba(m), None, h, None)
        if st != "ok":
            if not dsa and len(dg) > bl and \
                    type(s2).__name__ == "BadDigestError":
                ctx.cell("api_limit", "ecdsa hashAndSign(%s) on %s raises "
                         "BadDigestError" % (h, k.priv.curve_name))
            else:
                c.pos(False, "hashAndSign_raises:" + type(s2).__name__,
                      dict(wit, got=repr(s2)))
        else:
            if dsa:
                st, v = call(k.pub.hashAndVerify, ba(s2), ba(m), h)
            else:
                st, v = call(k.pub.hashAndVerify, ba(s2), ba(m), None, h,
                             None)
            c.pos(v if st == "ok" else False, "hashAndVerify_false",
                  dict(wit, got=repr(v), sig=bytes(s2)))
        if sig0 is None and m:
            sig0, dig0, msg0 = sig, trunc(dg), m
    if sig0 is None:
        return
    ver = lambda s, d=dig0, kk=k: kk.pub.verify(ba(s), ba(d), None, h,  # noqa
                                                None)
    wit = {"hash": h, "msg": msg0, "sig": sig0}
    r, s = R.parse_sig(sig0)
    # canonical re-encoding is a positive control for the DER writer
    c.pos(R.der_seq(R.der_int(r), R.der_int(s)) == sig0,
          "signature_not_canonical_DER", dict(wit, got=sig0))
    bad, info = dersig_variants(r, s, q, ctx.rng)
    for cls, sg in sorted(bad.items()):
        c.neg(cls, lambda: ver(sg), dict(wit, mutated=sg))
    for cls, sg in info.items():
        st, v = call(ver, sg)
        ctx.cell("malleability", "%s/%s:%s" % (c.keytype, cls, v if st == "ok"
                                               else type(v).__name__))
    d2 = bytearray(dig0)
    # a flip inside the bits the scheme really uses
    d2[0] ^= 0x40
    c.neg("digest_bit", lambda: ver(sig0, d2), wit)
    for h2 in HASHES:
        if h2 != h:
            d3 = H(h2, msg0)
            d3 = d3 if dsa else d3[:bl]
            c.neg("hash_changed", lambda: ver(sig0, d3), dict(wit,
                                                              as_hash=h2))
    d4 = H(h, msg0 + b"x")
    c.neg("message_changed", lambda: ver(sig0, d4 if dsa else d4[:bl]), wit)
    ok = getkey(OTHER_KEY[k.name])
    if dsa or ok.priv.private_key.curve.baselen == bl:
        c.neg("other_key", lambda: ver(sig0, dig0, ok), dict(wit,
                                                             other=ok.name))
    for b in flip_positions(ctx, 8 * len(sig0), 80):
        sg = bytearray(sig0)
        sg[b // 8] ^= 0x80 >> (b % 8)
        c.neg("bitflip", lambda: ver(sg), dict(wit, bit=b))
    ctx.cell("sigcell", "%s/%s/%s" % (c.keytype, k.name, h))


def run_eddsa(ctx, P):
    k = getkey(P["key"])
    name = k.priv.key_type
    c = Cell(ctx, "eddsa", name.lower(), k.name)
    L = int(k.priv.private_key.curve.order)
    sig0 = None
    for m in messages(ctx, ctx.pick(4, 10)):
        st, sig = call(k.priv.hashAndSign, ba(m))
        wit = {"msg": m}
        if st != "ok":
            c.pos(False, "sign_raises:" + type(sig).__name__,
                  dict(wit, got=repr(sig)))
            continue
        sig = bytes(sig)
        st, v = call(k.pub.hashAndVerify, ba(sig), ba(m))
        c.pos(v if st == "ok" else False, "verify_false" if st == "ok" else
              "verify_raises:" + type(v).__name__,
              dict(wit, got=repr(v), sig=sig))
        st, s2 = call(k.priv.hashAndSign, ba(m), None, "intrinsic", None)
        c.pos(st == "ok" and bytes(s2) == sig, "not_deterministic",
              dict(wit, got=repr(s2)[:80]))
        if sig0 is None and m:
            sig0, msg0 = sig, m
    if sig0 is None:
        return
    ver = lambda s, m=msg0, kk=k: kk.pub.hashAndVerify(ba(s), ba(m))  # noqa
    wit = {"msg": msg0, "sig": sig0}
    half = len(sig0) // 2
    S = int.from_bytes(sig0[half:], "little")
    forms = {
        "S_plus_L": sig0[:half] + (S + L).to_bytes(half, "little"),
        "S_eq_L": sig0[:half] + L.to_bytes(half, "little"),
        "S_zero": sig0[:half] + bytes(half),
        "len_minus_1": sig0[:-1], "len_plus_1": sig0 + b"\0",
        "empty": b"", "doubled": sig0 + sig0, "only_R": sig0[:half],
        "R_S_swapped": sig0[half:] + sig0[:half],
        "all_zero": bytes(len(sig0)),
    }
    if (S + 2 * L).bit_length() <= 8 * half:
        forms["S_plus_2L"] = sig0[:half] + (S + 2 * L).to_bytes(half,
                                                                "little")
    for cls, sg in sorted(forms.items()):
        c.neg(cls, lambda: ver(sg), dict(wit, mutated=sg))
    c.neg("message_changed", lambda: ver(sig0, msg0 + b"x"), wit)
    m2 = bytearray(msg0)
    m2[0] ^= 1
    c.neg("message_bit", lambda: ver(sig0, m2), wit)
    ok = getkey(OTHER_KEY[k.name])
    c.neg("other_key", lambda: ver(sig0, msg0, ok), dict(wit, other=ok.name))
    for b in flip_positions(ctx, 8 * len(sig0), 128):
        sg = bytearray(sig0)
        sg[b // 8] ^= 0x80 >> (b % 8)
        c.neg("bitflip", lambda: ver(sg), dict(wit, bit=b))
    # EdDSA keys refuse pre-hashed sign()/verify(): documented TypeError
    st, v = call(k.priv.sign, ba(b"x" * 32))
    ctx.cell("api_limit", "eddsa sign() -> %s" % (
        type(v).__name__ if st == "exc" else "returned"))
    ctx.cell("sigcell", "eddsa/%s" % k.name)


# ------------------------------------------------------- OpenSSL cross

class Ossl(object):
    def __init__(self, ctx, d):
        self.ctx = ctx
        self.d = d
        self.n = 0

    def path(self, name):
        return os.path.join(self.d, name)

    def put(self, name, data):
        with open(self.path(name), "wb") as f:
            f.write(data if isinstance(data, bytes) else data.encode())
        return self.path(name)

    def run(self, *args):
        self.n += 1
        self.ctx.count("openssl_calls")
        return subprocess.run(("openssl",) + args, capture_output=True,
                              timeout=60, cwd=self.d)

    def pubout(self, keyfile, out):
        r = self.run("pkey", "-in", keyfile, "-pubout", "-out", out)
        return r.returncode == 0

    def verify(self, pub, data, sig, opts=(), rawin=False):
        a = ["pkeyutl", "-verify", "-pubin", "-inkey", pub, "-in",
             self.put("vd", data), "-sigfile", self.put("vs", sig)]
        if rawin:
            a.append("-rawin")
        for o in opts:
            a += ["-pkeyopt", o]
        r = self.run(*a)
        if r.returncode == 0:
            return True
        if b"Verification Failure" in r.stdout + r.stderr or \
                r.returncode == 1:
            return False
        return None

    def sign(self, key, data, opts=(), rawin=False):
        a = ["pkeyutl", "-sign", "-inkey", key, "-in", self.put("sd", data),
             "-out", "so"]
        if rawin:
            a.append("-rawin")
        for o in opts:
            a += ["-pkeyopt", o]
        try:
            os.unlink(self.path("so"))
        except OSError:
            pass
        r = self.run(*a)
        if r.returncode != 0:
            return None, r.stderr[-300:]
        with open(self.path("so"), "rb") as f:
            return f.read(), b""


def run_ossl(ctx, P):
    k = getkey(P["key"])
    fam = P["fam"]
    with tempfile.TemporaryDirectory(prefix="c10-") as d:
        o = Ossl(ctx, d)
        o.put("key.pem", k.pem)
        if not o.pubout("key.pem", "pub.pem"):
            ctx.inconc("openssl cannot load key %s" % k.name)
            return
        if fam == "rsa":
            _ossl_rsa(ctx, o, k, P)
        elif fam in ("ecdsa", "dsa"):
            _ossl_dersig(ctx, o, k, fam)
        else:
            _ossl_eddsa(ctx, o, k)


def _agree(ctx, c, direction, ok, wit, cellname):
    ctx.ev()
    ctx.count("ossl/%s/%s" % (direction, c.keytype))
    if ok is None:
        ctx.inconc("openssl failed to run a %s %s check (%s)" % (
            c.keytype, direction, str(wit.get("err"))[:200]))
        return
    if ok is not True:
        ctx.violation(c.key("openssl_rejects_tlslite_signature"
                            if direction == "t2o" else
                            "tlslite_rejects_openssl_signature"),
                      dict(wit, key=c.kname),
                      "%s %s: %s" % (c.kname, direction, cellname))
    else:
        ctx.cell("osslcell", "%s/%s/%s" % (direction, c.kname, cellname))


def _ossl_rsa(ctx, o, k, P):
    embits = int(k.priv.n).bit_length() - 1
    cells = []
    if k.priv.key_type == "rsa":
        cells += [("pkcs1", h, None) for h in [None] + HASHES]
    cells += [("pss", h, s) for h in PSS_HASHES for s in ("0", "hlen", "max")]
    for scheme, h, sc in cells:
        c = Cell(ctx, "rsa", scheme if h or scheme == "pss" else "pkcs1_raw",
                 k.name, rsa_extra(k))
        m = ctx.rng.randbytes(ctx.rng.choice([1, 20, 64, 300]))
        dg = H(h, m) if h else H("md5", m) + H("sha1", m)
        opts = []
        sl = None
        if h:
            opts.append("digest:" + h)
        if scheme == "pss":
            sl = salt_len(sc, h, embits)
            if sl < 0 or (embits + 7) // 8 < R.hlen(h) + sl + 2:
                continue
            opts += ["rsa_padding_mode:pss", "rsa_pss_saltlen:%d" % sl,
                     "rsa_mgf1_md:" + h]
        name = "%s/%s/%s" % (scheme, h, sc)
        wit = {"scheme": scheme, "hash": h, "slen": sl, "msg": m}
        st, sig = call(k.priv.sign, ba(dg), scheme, h, sl)
        if st == "ok":
            _agree(ctx, c, "t2o", o.verify("pub.pem", dg, bytes(sig), opts),
                   dict(wit, sig=bytes(sig)), name)
        else:
            ctx.count("ossl_skipped_sign_failed")
        osig, err = o.sign("key.pem", dg, opts)
        if osig is None:
            _agree(ctx, c, "o2t", None, dict(wit, err=err), name)
            continue
        st, v = call(verify_rsa, k, osig, dg, scheme, h, sl)
        _agree(ctx, c, "o2t", v if st == "ok" else False,
               dict(wit, sig=osig, got=repr(v)), name)
    # verdicts of the independent verifier on two negative classes
    if k.priv.key_type == "rsa":
        kl = (int(k.priv.n).bit_length() + 7) // 8
        dg = H("sha256", b"neg")
        s = rsa_sig_from_em(k, R.emsa_pkcs1(
            R.digest_info("sha256", dg, b""), kl))
        ctx.cell("openssl_verdict", "rsa params_absent:%s" % o.verify(
            "pub.pem", dg, s, ["digest:sha256"]))
        T = R.digest_info("sha256", dg)
        em = b"\0\1" + b"\xff" * (kl - 3 - len(T) - 8) + b"\0" + T + b"G" * 8
        r = o.verify("pub.pem", dg, rsa_sig_from_em(k, em), ["digest:sha256"])
        ctx.cell("openssl_verdict", "rsa garbage_after:%s" % r)
        if r is True:
            ctx.inconc("OpenSSL accepts garbage after the digest: not a "
                       "usable independent verifier")


def _ossl_dersig(ctx, o, k, fam):
    dsa = fam == "dsa"
    c = Cell(ctx, fam, fam, k.name,
             {} if dsa else {"curve": k.priv.curve_name})
    bl = None if dsa else k.priv.private_key.curve.baselen
    for h in HASHES:
        m = ctx.rng.randbytes(ctx.rng.choice([1, 20, 64, 300]))
        dg = H(h, m)
        dg = dg if dsa else dg[:bl]
        wit = {"hash": h, "msg": m}
        st, sig = call(k.priv.sign, ba(dg), None, h, None)
        if st == "ok":
            _agree(ctx, c, "t2o", o.verify("pub.pem", dg, bytes(sig)),
                   dict(wit, sig=bytes(sig)), h)
            if h == "sha256":
                r, s = R.parse_sig(bytes(sig))
                q = int(k.priv.q) if dsa else \
                    int(k.priv.private_key.curve.order)
                ctx.cell("openssl_verdict", "%s s_negated_mod_n:%s" % (
                    fam, o.verify("pub.pem", dg, R.der_seq(
                        R.der_int(r), R.der_int(q - s)))))
        osig, err = o.sign("key.pem", dg)
        if osig is None:
            _agree(ctx, c, "o2t", None, dict(wit, err=err), h)
            continue
        st, v = call(k.pub.verify, ba(osig), ba(dg), None, h, None)
        _agree(ctx, c, "o2t", v if st == "ok" else False,
               dict(wit, sig=osig, got=repr(v)), h)


def _ossl_eddsa(ctx, o, k):
    c = Cell(ctx, "eddsa", k.priv.key_type.lower(), k.name)
    for ln in (1, 32, 64, 200, 1000):
        m = ctx.rng.randbytes(ln)
        wit = {"msg": m}
        st, sig = call(k.priv.hashAndSign, ba(m))
        if st == "ok":
            _agree(ctx, c, "t2o", o.verify("pub.pem", m, bytes(sig),
                                           rawin=True),
                   dict(wit, sig=bytes(sig)), "len%d" % ln)
        osig, err = o.sign("key.pem", m, rawin=True)
        if osig is None:
            _agree(ctx, c, "o2t", None, dict(wit, err=err), "len%d" % ln)
            continue
        st2, v = call(k.pub.hashAndVerify, ba(osig), ba(m))
        _agree(ctx, c, "o2t", v if st2 == "ok" else False,
               dict(wit, sig=osig, got=repr(v)), "len%d" % ln)
        if st == "ok":
            # EdDSA is deterministic: byte equality with OpenSSL
            ctx.ev()
            if bytes(sig) != osig:
                ctx.violation(c.key("eddsa_signature_differs_from_openssl"),
                              dict(wit, got=bytes(sig), want=osig), "")


# ------------------------------------------------------- key agreement

EC_GROUPS = ["secp256r1", "secp384r1", "secp521r1", "brainpoolP256r1",
             "brainpoolP384r1", "brainpoolP512r1", "brainpoolP256r1tls13",
             "brainpoolP384r1tls13", "brainpoolP512r1tls13"]
X_GROUPS = ["x25519", "x448"]
FF_GROUPS = ["ffdhe2048", "ffdhe3072", "ffdhe4096", "ffdhe6144", "ffdhe8192"]
CURVE_OF = {"secp256r1": ecdsa.NIST256p, "secp384r1": ecdsa.NIST384p,
            "secp521r1": ecdsa.NIST521p,
            "brainpoolP256r1": ecdsa.BRAINPOOLP256r1,
            "brainpoolP384r1": ecdsa.BRAINPOOLP384r1,
            "brainpoolP512r1": ecdsa.BRAINPOOLP512r1}
REFUSAL = (E.TLSIllegalParameterException, E.TLSDecodeError)


def kex_family(group):
    return "ffdhe" if group.startswith("ffdhe") else \
        "xdh" if group.startswith("x") else "ec"


def kex_bad(ctx, group, ver, cls, f, wit):
    ctx.ev()
    ctx.count("kex_neg/" + group)
    st, v = call(f)
    if st == "exc" and isinstance(v, REFUSAL):
        out = "refused:" + type(v).__name__
    elif st == "exc":
        out = "raised:" + type(v).__name__
    else:
        out = "accepted"
    ctx.cell("kexcell", "%s/%s/%s" % (group, pair.VNAME[ver], cls))
    wit = dict(wit, bad_class=cls)
    if cls.startswith("low_order_"):
        cls = "low_order_point"
    ctx.cell("kex_outcome", "%s/%s:%s" % (group, cls, out))
    if out == "accepted":
        ctx.violation({"clause": "kex_bad_share_accepted",
                       "family": kex_family(group), "class": cls,
                       "private": wit.get("private")},
                      dict(wit, group=group, version=pair.VNAME[ver],
                           secret=bytes(v) if v is not None else None),
                      "%s accepted peer value class %s" % (group, cls))
    elif out.startswith("raised"):
        ctx.violation({"clause": "kex_bad_share_undocumented_exception",
                       "family": kex_family(group), "class": cls,
                       "exc": type(v).__name__,
                       "private": wit.get("private")},
                      dict(wit, group=group, version=pair.VNAME[ver],
                           detail=repr(v)[:200]),
                      "%s refuses class %s with %s, which no caller maps to "
                      "an alert" % (group, cls, type(v).__name__))


def kex_pos(ctx, group, ver, what, ok, wit):
    ctx.ev()
    ctx.count("kex_pos/" + group)
    if not ok:
        ctx.violation({"clause": "kex_" + what,
                       "family": kex_family(group),
                       "version": pair.VNAME[ver]},
                      dict(wit, group=group), "%s %s" % (group, what))


def run_kex_ff(ctx, P):
    group, ver = P["group"], P["ver"]
    bits = int(group[5:])
    kx = FFDHKeyExchange(getattr(GroupName, group), ver)
    p = int(kx.prime)
    g = int(kx.generator)
    ctx.ev()
    if p != R.ffdhe_prime(bits) or g != 2:
        ctx.violation({"clause": "ffdhe_parameters_not_rfc7919",
                       "group": group}, {"prime": hex(p), "g": g}, "")
    plen = (bits + 7) // 8

    def enc(v):
        return v if ver < (3, 4) else ba(int(v).to_bytes(
            max(plen, (int(v).bit_length() + 7) // 8), "big"))

    def expect(z):
        return z.to_bytes(plen, "big") if ver >= (3, 4) else \
            z.to_bytes((z.bit_length() + 7) // 8, "big")
    for i in range(P["pairs"]):
        a = kx.get_random_private_key()
        b = kx.get_random_private_key()
        A = kx.calc_public_value(a)
        B = kx.calc_public_value(b)
        za = bytes(kx.calc_shared_key(a, B))
        zb = bytes(kx.calc_shared_key(b, A))
        wit = {"a": hex(a), "b": hex(b)}
        kex_pos(ctx, group, ver, "sides_differ", za == zb, wit)
        Ai = A if isinstance(A, int) else int.from_bytes(A, "big")
        kex_pos(ctx, group, ver, "public_value_differs_from_reference",
                Ai == pow(2, a, p) and (isinstance(A, int) or
                                        len(A) == plen), wit)
        kex_pos(ctx, group, ver, "secret_differs_from_reference",
                za == expect(pow(2, a * b, p)), dict(wit, got=za))
    # a secret with a leading zero byte: stripped (<=1.2) vs padded (1.3)
    b = kx.get_random_private_key()
    Bi = pow(2, b, p)
    for a in range(2, 3000):
        z = pow(Bi, a, p)
        if z >> (bits - 8) == 0:
            got = bytes(kx.calc_shared_key(a, enc(Bi)))
            kex_pos(ctx, group, ver, "leading_zero_secret_encoding",
                    got == expect(z), {"a": a, "b": hex(b), "got": got})
            ctx.cell("kex_leading_zero", "%s/%s" % (group, pair.VNAME[ver]))
            break
    a = kx.get_random_private_key()
    bad = {"0": 0, "1": 1, "p-1": p - 1, "p": p, "p+1": p + 1,
           "p+2": p + 2, "2^bits": 1 << bits, "2^(bits+8)-1":
           (1 << (bits + 8)) - 1}
    for cls, v in bad.items():
        kex_bad(ctx, group, ver, cls,
                lambda: kx.calc_shared_key(a, enc(v)), {"a": hex(a)})
    if ver >= (3, 4):
        good = pow(2, b, p)
        for cls, raw in (("len-1", (good >> 8).to_bytes(plen - 1, "big")),
                         ("len+1_leading_zero",
                          b"\0" + good.to_bytes(plen, "big")),
                         ("empty", b"")):
            kex_bad(ctx, group, ver, cls,
                    lambda: kx.calc_shared_key(a, ba(raw)), {"a": hex(a)})
    # order-2 / small-subgroup result even though share is in range is
    # impossible for safe primes except p-1 (tested above)
    ctx.cell("kexgroup", "%s/%s" % (group, pair.VNAME[ver]))


def _small_point(curve):
    """smallest x >= 1 with a point on the curve (y by p = 3 mod 4 sqrt)"""
    p = curve.curve.p()
    a = curve.curve.a()
    b = curve.curve.b()
    x = 1
    while True:
        rhs = (x * x * x + a * x + b) % p
        y = pow(rhs, (p + 1) // 4, p)
        if y * y % p == rhs:
            return x, y
        x += 1


def run_kex_ec(ctx, P):
    group, ver = P["group"], P["ver"]
    kx = ECDHKeyExchange(getattr(GroupName, group), ver)
    base = group.replace("tls13", "")
    curve = CURVE_OF[base]
    p = curve.curve.p()
    fl = (p.bit_length() + 7) // 8
    G = curve.generator
    n = curve.order

    def pt(x, y, prefix=b"\x04"):
        return ba(prefix + int(x).to_bytes(fl, "big") +
                  int(y).to_bytes(fl, "big"))
    for i in range(P["pairs"]):
        a = kx.get_random_private_key()
        b = kx.get_random_private_key()
        A = kx.calc_public_value(a)
        B = kx.calc_public_value(b)
        za = bytes(kx.calc_shared_key(a, ba(B)))
        zb = bytes(kx.calc_shared_key(b, ba(A)))
        ai = a.privkey.secret_multiplier
        bi = b.privkey.secret_multiplier
        wit = {"a": hex(ai), "b": hex(bi)}
        kex_pos(ctx, group, ver, "sides_differ", za == zb, wit)
        ref = (G * (ai * bi % n)).x().to_bytes(fl, "big")
        kex_pos(ctx, group, ver, "secret_differs_from_reference",
                za == ref, dict(wit, got=za))
        # integer private path gives the same
        zc = bytes(kx.calc_shared_key(ai, ba(B)))
        kex_pos(ctx, group, ver, "int_private_path_differs", zc == za, wit)
        if P.get("openssl") and i == 0:
            _ossl_derive_ec(ctx, group, ver, curve, ai, bytes(B), za)
    # fixed width even when x has a leading zero byte
    b = kx.get_random_private_key()
    Bp = b.verifying_key.pubkey.point
    for a in range(2, 1200):
        S = Bp * a
        if S.x() >> (8 * fl - 8) == 0 and fl * 8 - p.bit_length() < 8:
            got = bytes(kx.calc_shared_key(a, ba(kx.calc_public_value(b))))
            kex_pos(ctx, group, ver, "leading_zero_secret_encoding",
                    got == S.x().to_bytes(fl, "big"), {"a": a, "got": got})
            ctx.cell("kex_leading_zero", "%s/%s" % (group, pair.VNAME[ver]))
            break
    a = kx.get_random_private_key()
    Q = G * ctx.rng.randrange(2, n)
    x, y = Q.x(), Q.y()
    sx, sy = _small_point(curve)
    bad = {
        "empty": ba(b""), "infinity_00": ba(b"\0"),
        "infinity_04_zeros": pt(0, 0), "zeros_no_prefix": ba(bytes(2 * fl)),
        "off_curve_y+1": pt(x, (y + 1) % p),
        "off_curve_x+1": pt((x + 1) % p, y),
        "off_curve_swapped": pt(y, x),
        "prefix_05": pt(x, y, b"\x05"), "prefix_00": pt(x, y, b"\x00"),
        "prefix_01": pt(x, y, b"\x01"),
        "hybrid_not_negotiated": pt(x, y, bytes([6 + (y & 1)])),
        "compressed_not_negotiated": ba(bytes([2 + (y & 1)]) +
                                        x.to_bytes(fl, "big")),
        "raw_no_prefix": ba(bytes(pt(x, y))[1:]),
        "short_by_1": ba(bytes(pt(x, y))[:-1]),
        "long_by_1": ba(bytes(pt(x, y)) + b"\0"),
        "only_prefix": ba(b"\x04"),
    }
    if (sx + p).bit_length() <= 8 * fl:
        bad["x_ge_p"] = pt(sx + p, sy)
        bad["x_eq_p_alias"] = pt(p, 0)
    if (sy + p).bit_length() <= 8 * fl:
        bad["y_ge_p"] = pt(sx, sy + p)
    # positive control for the small point used in the aliases
    st, z = call(kx.calc_shared_key, a, pt(sx, sy))
    kex_pos(ctx, group, ver, "small_x_point_refused",
            st == "ok" and len(z) == fl, {"got": repr(z)[:100]})
    for cls, share in bad.items():
        for nm, priv in (("sk", a), ("int", a.privkey.secret_multiplier)):
            kex_bad(ctx, group, ver, cls,
                    lambda: kx.calc_shared_key(priv, share),
                    {"share": bytes(share), "private": nm})
    ctx.cell("kexgroup", "%s/%s" % (group, pair.VNAME[ver]))


def run_kex_msg(ctx, P):
    from tlslite.keyexchange import AECDHKeyExchange
    from tlslite.messages import ClientHello, ServerHello
    from tlslite.extensions import ECPointFormatsExtension, \
        SupportedGroupsExtension
    from tlslite.constants import ECPointFormat as PF, CipherSuite
    from tlslite.utils.codec import Parser
    group, ver = P["group"], tuple(P["ver"])
    gid = getattr(GroupName, group)
    curve = CURVE_OF[group]
    fl = (curve.curve.p().bit_length() + 7) // 8
    n = curve.order
    suite = CipherSuite.TLS_ECDH_ANON_WITH_AES_128_CBC_SHA
    U, C = PF.uncompressed, PF.ansiX962_compressed_prime
    lists = [None, [U], [U, C], [C, U]]
    for cl in lists:
        for sl in lists:
            ce = [SupportedGroupsExtension().create([gid])]
            if cl is not None:
                ce.append(ECPointFormatsExtension().create(list(cl)))
            ch = ClientHello().create(ver, bytearray(32), bytearray(0),
                                      [suite], extensions=ce)
            se = [] if sl is None else \
                [ECPointFormatsExtension().create(list(sl))]
            sh = ServerHello().create(ver, bytearray(32), bytearray(0),
                                      suite, extensions=se or None)
            wit = {"client_formats": cl, "server_formats": sl}
            ctx.ev()
            ctx.count("kex_msg_pairs")
            srv = AECDHKeyExchange(suite, ch, sh, [gid])
            cli = AECDHKeyExchange(suite, ch, sh, [gid])
            try:
                ske = srv.makeServerKeyExchange()
                # over the wire
                ske2 = type(ske)(suite, ver).parse(
                    Parser(ske.write()[1:]))
                zc = bytes(cli.processServerKeyExchange(None, ske2))
                cke = cli.makeClientKeyExchange()
                cke2 = type(cke)(suite, ver).parse(Parser(cke.write()[1:]))
                zs = bytes(srv.processClientKeyExchange(cke2))
            except Exception as e:   # noqa
                ctx.violation({"clause": "kex_compatible_formats_failed",
                               "family": "ec", "exc": type(e).__name__,
                               "version": pair.VNAME[ver]},
                              dict(wit, group=group, detail=repr(e)[:200]),
                              "%s: both sides allow the uncompressed point "
                              "format, the exchange raised %r" % (group, e))
                continue
            kex_pos(ctx, group, ver, "sides_differ", zc == zs, wit)
            # both shares must be in a format the *receiver* listed (or
            # uncompressed), and the secret is x(abG)
            Ys, Yc = bytes(ske.ecdh_Ys), bytes(cke.ecdh_Yc)
            for who, share, recv_list in (("server", Ys, cl),
                                          ("client", Yc, sl)):
                fmt = U if share[:1] == b"\x04" else C
                allowed = recv_list if (cl is not None and sl is not None) \
                    else [U]
                kex_pos(ctx, group, ver, "share_format_not_offered_by_peer",
                        fmt in allowed, dict(wit, sender=who,
                                             share=share[:8]))
            a = srv.ecdhXs.privkey.secret_multiplier
            try:
                Pc = decode_point(curve, Yc, fl)
                ref = (Pc * a).x().to_bytes(fl, "big")
                kex_pos(ctx, group, ver, "secret_differs_from_reference",
                        zs == ref, dict(wit, got=zs))
            except Exception as e:   # noqa
                ctx.inconc("reference point decoding failed: %r" % (e,))
            ctx.cell("kexmsg", "%s/%s/%s/%s" % (group, pair.VNAME[ver], cl,
                                                sl))


def decode_point(curve, b, fl):
    """SEC1 octets -> ecdsa Point (own decompression)"""
    from ecdsa import ellipticcurve
    p_, a_, b_ = curve.curve.p(), curve.curve.a(), curve.curve.b()
    x = int.from_bytes(b[1:1 + fl], "big")
    if b[0] == 4:
        y = int.from_bytes(b[1 + fl:], "big")
    else:
        rhs = (pow(x, 3, p_) + a_ * x + b_) % p_
        if p_ % 4 == 3:
            y = pow(rhs, (p_ + 1) // 4, p_)
        else:
            from ecdsa.numbertheory import square_root_mod_prime
            y = square_root_mod_prime(rhs, p_)
        if (y & 1) != (b[0] & 1):
            y = p_ - y
    return ellipticcurve.Point(curve.curve, x, y)


def _ossl_derive(ctx, group, ver, privpem, pubpem, want):
    with tempfile.TemporaryDirectory(prefix="c10-") as d:
        o = Ossl(ctx, d)
        o.put("priv.pem", privpem)
        o.put("peer.pem", pubpem)
        r = o.run("pkeyutl", "-derive", "-inkey", "priv.pem", "-peerkey",
                  "peer.pem", "-out", "z")
        if want is None:
            return r.returncode
        if r.returncode != 0:
            ctx.inconc("openssl derive failed for %s: %s" % (
                group, r.stderr[-200:]))
            return None
        with open(o.path("z"), "rb") as f:
            z = f.read()
    ctx.count("ossl/derive/" + group)
    kex_pos(ctx, group, ver, "secret_differs_from_openssl", z == want,
            {"got": want, "openssl": z})
    ctx.cell("osslcell", "derive/%s" % group)
    return 0


def _ossl_derive_ec(ctx, group, ver, curve, ai, peer_bytes, want):
    sk = ecdsa.SigningKey.from_secret_exponent(ai, curve)
    vk = ecdsa.VerifyingKey.from_string(peer_bytes[1:], curve)
    _ossl_derive(ctx, group, ver, sk.to_pem(format="pkcs8").decode(),
                 vk.to_pem().decode(), want)


def run_kex_x(ctx, P):
    group, ver = P["group"], P["ver"]
    kx = ECDHKeyExchange(getattr(GroupName, group), ver)
    fn, sz, basepoint, low = {
        "x25519": (R.x25519, 32, 9, R.x25519_low_order()),
        "x448": (R.x448, 56, 5, R.x448_low_order())}[group]
    base = basepoint.to_bytes(sz, "little")
    for i in range(P["pairs"]):
        a = kx.get_random_private_key()
        b = kx.get_random_private_key()
        A = kx.calc_public_value(a)
        B = kx.calc_public_value(b)
        za = bytes(kx.calc_shared_key(a, B))
        zb = bytes(kx.calc_shared_key(b, A))
        wit = {"a": bytes(a), "b": bytes(b)}
        kex_pos(ctx, group, ver, "sides_differ", za == zb, wit)
        kex_pos(ctx, group, ver, "public_value_differs_from_reference",
                bytes(A) == fn(a, base), wit)
        kex_pos(ctx, group, ver, "secret_differs_from_reference",
                za == fn(a, fn(b, base)), dict(wit, got=za))
        if P.get("openssl") and i == 0:
            # openssl derives with the clamped scalar from the PKCS#8 key
            _ossl_derive(ctx, group, ver, R.xdh_private_pem(group, a),
                         R.xdh_public_pem(group, B), za)
    # non-canonical but valid u (top bit set for x25519) must still agree
    a = kx.get_random_private_key()
    if group == "x25519":
        u = bytearray(kx.calc_public_value(kx.get_random_private_key()))
        u[31] |= 0x80
        st, z = call(kx.calc_shared_key, a, u)
        kex_pos(ctx, group, ver, "masked_top_bit_handling",
                st == "ok" and bytes(z) == fn(a, bytes(u)), {"u": bytes(u)})
    for cls, u in sorted(low.items()):
        ctx.ev()
        if fn(a, u) != bytes(sz):
            ctx.inconc("reference says %s %s is not low order" % (group, cls))
            continue
        kex_bad(ctx, group, ver, "low_order_" + cls,
                lambda: kx.calc_shared_key(a, ba(u)), {"u": u})
    good = bytes(kx.calc_public_value(kx.get_random_private_key()))
    for cls, u in (("len-1", good[:-1]), ("len+1", good + b"\0"),
                   ("empty", b""), ("double", good + good)):
        kex_bad(ctx, group, ver, cls,
                lambda: kx.calc_shared_key(a, ba(u)), {"u": u})
    if P.get("openssl"):
        # the independent implementation refuses a low-order peer too
        rc = _ossl_derive(ctx, group, ver, R.xdh_private_pem(group, a),
                          R.xdh_public_pem(group, low["u=1"]), None)
        ctx.cell("openssl_verdict", "%s derive low-order u=1 rc=%s" % (
            group, rc))
    ctx.cell("kexgroup", "%s/%s" % (group, pair.VNAME[ver]))


# ------------------------------------------------------- fault injection

HASH_ID = {1: "md5", 2: "sha1", 3: "sha224", 4: "sha256", 5: "sha384",
           6: "sha512"}
PSS_ID = {4: "sha256", 5: "sha384", 6: "sha512", 9: "sha256", 10: "sha384",
          11: "sha512"}


def dsa_ref_sign(priv, digest, rng):
    p, q, g, x = (int(v) for v in (priv.p, priv.q, priv.g, priv.private_key))
    z = int.from_bytes(digest, "big")
    if len(digest) * 8 > q.bit_length():
        z >>= len(digest) * 8 - q.bit_length()
    while True:
        k = rng.randrange(1, q)
        r = pow(g, k, p) % q
        s = pow(k, -1, q) * (z + x * r) % q
        if r and s:
            return bytes(der_seq(der_sint(r), der_sint(s)))


def der_seq(*items):
    body = b"".join(items)
    ln = len(body)
    hdr = bytes([ln]) if ln < 128 else (
        bytes([0x81, ln]) if ln < 256 else bytes([0x82, ln >> 8, ln & 255]))
    return b"\x30" + hdr + body


def dsa_ref_verify(pub, sig, digest):
    try:
        r, s = R.parse_sig(sig)
    except Exception:   # noqa
        return False
    p, q, g, y = (int(x) for x in (pub.p, pub.q, pub.g, pub.public_key))
    if not (0 < r < q and 0 < s < q):
        return False
    z = int.from_bytes(digest, "big")
    if len(digest) * 8 > q.bit_length():
        z >>= len(digest) * 8 - q.bit_length()
    w = pow(s, -1, q)
    v = (pow(g, z * w % q, p) * pow(y, r * w % q, p)) % p % q
    return v == r


def ref_verify_prim(pub, how, data, sig):
    """independent verification at the primitive level.
    how: ('rsa_raw',) data=T | ('rsa_pkcs1', h) data=digest |
    ('rsa_pss', h, slen) data=digest | ('ecdsa',) data=digest |
    ('dsa',) data=digest | ('eddsa',) data=message"""
    sig = bytes(sig)
    data = bytes(data)
    kind = how[0]
    try:
        if kind.startswith("rsa"):
            n, e = int(pub.n), int(pub.e)
            kl = (n.bit_length() + 7) // 8
            if len(sig) != kl or int.from_bytes(sig, "big") >= n:
                return False
            em = pow(int.from_bytes(sig, "big"), e, n)
            if kind == "rsa_raw":
                return em.to_bytes(kl, "big") == R.emsa_pkcs1(data, kl)
            if kind == "rsa_pkcs1":
                return em.to_bytes(kl, "big") == R.emsa_pkcs1(
                    R.digest_info(how[1], data), kl)
            embits = n.bit_length() - 1
            emlen = (embits + 7) // 8
            if em.bit_length() > 8 * emlen:
                return False
            return R.pss_check(em.to_bytes(emlen, "big"), data, embits,
                               how[1], how[2])
        if kind == "ecdsa":
            return bool(pub.public_key.verify_digest(
                sig, data, sigdecode=sigdecode_der, allow_truncate=True))
        if kind == "dsa":
            return dsa_ref_verify(pub, sig, data)
        if kind == "eddsa":
            return bool(pub.public_key.verify(sig, data))
    except Exception:   # noqa
        return False
    raise ValueError(kind)


def how_for_tls(keytype, ver, alg, data):
    """(how, data-to-verify) for a TLS signature over `data` (the raw
    to-be-signed bytes) given version and the on-wire algorithm pair"""
    if ver < (3, 3):
        if keytype in ("rsa", "rsa-pss"):
            return ("rsa_raw",), H("md5", data) + H("sha1", data)
        return ("ecdsa" if keytype == "ecdsa" else "dsa",), H("sha1", data)
    ha, sa = alg
    if ha == 8:
        if sa in (7, 8):
            return ("eddsa",), data
        h = PSS_ID[sa]
        return ("rsa_pss", h, R.hlen(h)), H(h, data)
    h = HASH_ID[ha]
    if sa == 1:
        return ("rsa_pkcs1", h), H(h, data)
    if sa == 3:
        return ("ecdsa",), H(h, data)
    if sa == 2:
        return ("dsa",), H(h, data)
    raise ValueError("unknown signature algorithm %r" % (alg,))


def wire_messages(link):
    """plaintext handshake messages in wire order: (dir, type, raw)"""
    enc = {"c2s": False, "s2c": False}
    buf = {"c2s": bytearray(), "s2c": bytearray()}
    out = []
    for r in link.records:
        if r.ssl2 or enc[r.dir]:
            continue
        if r.type == 20:
            enc[r.dir] = True
            continue
        if r.type != 22:
            continue
        b = buf[r.dir]
        b += r.body
        while len(b) >= 4:
            ln = int.from_bytes(b[1:4], "big")
            if len(b) < 4 + ln:
                break
            out.append((r.dir, b[0], bytes(b[:4 + ln])))
            del b[:4 + ln]
    return out


def wire_signatures(link, ver, kx):
    """[(msgname, alg, signed_data, sig)] for plaintext SKE / CV"""
    msgs = wire_messages(link)
    cr = sr = None
    out = []
    for i, (d, t, raw) in enumerate(msgs):
        body = raw[4:]
        if t == 1 and d == "c2s":
            cr = body[2:34]
        elif t == 2 and d == "s2c":
            sr = body[2:34]
            if (body[0], body[1]) == (3, 3) and ver == (3, 4):
                return out        # TLS 1.3: nothing more in the clear
        elif t == 12 and d == "s2c":
            if kx.startswith("dhe"):
                i0 = 0
                for _ in range(3):
                    i0 += 2 + int.from_bytes(body[i0:i0 + 2], "big")
            else:
                i0 = 4 + body[3]
            params, rest = body[:i0], body[i0:]
            alg = None
            if ver == (3, 3):
                alg, rest = (rest[0], rest[1]), rest[2:]
            ln = int.from_bytes(rest[:2], "big")
            out.append(("ServerKeyExchange", alg, cr + sr + params,
                        rest[2:2 + ln]))
        elif t == 15 and d == "c2s":
            rest = body
            alg = None
            if ver == (3, 3):
                alg, rest = (rest[0], rest[1]), rest[2:]
            ln = int.from_bytes(rest[:2], "big")
            out.append(("CertificateVerify", alg,
                        b"".join(m[2] for m in msgs[:i]), rest[2:2 + ln]))
    return out


class Fault(object):
    """corrupt the n-th call of the key's private primitive"""

    def __init__(self, key, kind, nth):
        self.kind = kind
        self.nth = nth
        self.calls = 0
        self.hits = 0
        kt = key.key_type
        if kt in ("rsa", "rsa-pss"):
            if kind == "crt":
                self._wrap(key, "_rawPrivateKeyOpHelper",
                           lambda r, a: self._crt(key, a[0]))
            else:
                n = int(key.n)
                self._wrap(key, "_rawPrivateKeyOp", {
                    "plus1": lambda r, a: (r + 1) % n,
                    "bit": lambda r, a: r ^ (1 << 7),
                    "one": lambda r, a: 1}[kind])
        elif kt == "ecdsa":
            for nm in ("sign_digest_deterministic", "sign_deterministic"):
                self._wrap(key.private_key, nm, self._flip)
        elif kt in ("Ed25519", "Ed448"):
            self._wrap(key.private_key, "sign_deterministic", self._flip)
        elif kt == "dsa":
            self._wrap(key, "sign", self._flip)
        else:
            raise ValueError(kt)

    def _flip(self, r, a):
        r = bytearray(r)
        if self.kind == "first":
            r[len(r) // 2 - 1] ^= 0x01    # inside r (DER) / R (EdDSA)
        else:
            r[-1] ^= 0x01                 # low bit of s / S
        return type(r)(r) if not isinstance(r, bytearray) else r

    @staticmethod
    def _crt(key, m):
        p, q = int(key.p), int(key.q)
        s1 = pow(m, int(key.dP), p) ^ 1          # faulty half
        s2 = pow(m, int(key.dQ), q)
        return s2 + q * (((s1 - s2) * int(key.qInv)) % p)

    def _wrap(self, obj, name, corrupt):
        orig = getattr(obj, name)

        def w(*a, **kw):
            r = orig(*a, **kw)
            i = self.calls
            self.calls += 1
            if self.nth == "all" or i == self.nth:
                self.hits += 1
                out = corrupt(r, a)
                return bytes(out) if isinstance(r, bytes) else out
            return r
        setattr(obj, name, w)


class SignLog(object):
    """record what the endpoint asked its key to sign and what it sent"""

    def __init__(self, key, conn):
        self.calls = []
        self.sent = []
        for nm in ("sign", "hashAndSign"):
            self._wrap_sign(key, nm)
        for nm in ("_sendMsg", "_queue_message"):
            self._wrap_send(conn, nm)

    def _wrap_sign(self, key, nm):
        orig = getattr(key, nm)

        def w(data, *a, **kw):
            r = orig(data, *a, **kw)
            self.calls.append((nm, bytes(data), a, kw,
                               bytes(r) if r is not None else None))
            return r
        setattr(key, nm, w)

    def _wrap_send(self, conn, nm):
        orig = getattr(conn, nm)

        def w(msg, *a, **kw):
            sig = getattr(msg, "signature", None)
            cn = type(msg).__name__
            if cn in ("ServerKeyExchange", "CertificateVerify") and sig:
                self.sent.append((cn, bytes(sig)))
            return orig(msg, *a, **kw)
        setattr(conn, nm, w)


def how_for_call(keytype, call_rec):
    nm, data, a, kw, _ = call_rec
    a = list(a) + [None] * 3
    padding = kw.get("padding", a[0])
    halg = kw.get("hashAlg", a[1])
    slen = kw.get("saltLen", a[2])
    if keytype in ("Ed25519", "Ed448"):
        return ("eddsa",), data
    if keytype == "ecdsa":
        return ("ecdsa",), data
    if keytype == "dsa":
        return ("dsa",), data
    if (padding or "pkcs1").lower() == "pss":
        return ("rsa_pss", halg, slen), data
    if halg:
        return ("rsa_pkcs1", halg), data
    return ("rsa_raw",), data


SERVER_FLAV = [   # key, kx, versions
    ("rsa", "ecdhe_rsa", [(3, 0), (3, 1), (3, 2), (3, 3), (3, 4)]),
    ("rsa", "dhe_rsa", [(3, 0), (3, 3)]),
    ("rsapss", "ecdhe_rsa", [(3, 3), (3, 4)]),
    ("ecdsa256", "ecdhe_ecdsa", [(3, 0), (3, 1), (3, 2), (3, 3), (3, 4)]),
    ("ed25519", "ecdhe_ecdsa", [(3, 3), (3, 4)]),
    ("ed448", "ecdhe_ecdsa", [(3, 3), (3, 4)]),
    ("dsa", "dhe_dsa", [(3, 0), (3, 1), (3, 2), (3, 3)]),
]
CLIENT_FLAV = [
    ("rsa", [(3, 0), (3, 1), (3, 2), (3, 3), (3, 4)]),
    ("ecdsa", [(3, 0), (3, 1), (3, 2), (3, 3), (3, 4)]),
    ("ed25519", [(3, 3), (3, 4)]),
    ("dsa", [(3, 0), (3, 1), (3, 2), (3, 3)]),
]
FAULT_KINDS = {"rsa": ["plus1", "crt", "bit", "one"],
               "rsa-pss": ["plus1", "crt"],
               "ecdsa": ["last", "first"], "Ed25519": ["last", "first"],
               "Ed448": ["last"], "dsa": ["last", "first"]}


def run_fault(ctx, P):
    ver = tuple(P["ver"])
    signer = P["signer"]
    kx = P["kx"]
    p = Pair()
    sch, sk = creds.server(P["skey"], True)
    ckw = {}
    ck = None
    if P.get("ckey"):
        cch, ck = creds.client(P["ckey"], True)
        ckw = dict(certChain=cch, privateKey=ck)
    cs = pair.ver_settings(ver, keyExchangeNames=[kx])
    ss = pair.ver_settings(ver, keyExchangeNames=[kx])
    key = sk if signer == "server" else ck
    conn = p.s if signer == "server" else p.c
    chain = sch if signer == "server" else cch
    pub = chain.getEndEntityPublicKey()
    kt = key.key_type
    fault = None
    if P["fault"] != "none":
        fault = Fault(key, P["fault"], P["nth"])
    log = SignLog(key, conn)
    pha = bool(P.get("pha"))
    tc, ts = p.run(
        p.c.handshakeClientCert(settings=cs, async_=True, **ckw),
        p.s.handshakeServerAsync(certChain=sch, privateKey=sk, settings=ss,
                                 reqCert=bool(ck) and not pha))
    if pha and tc.status == "done" and ts.status == "done":
        def sprog():
            for r in p.s.request_post_handshake_auth():
                yield r
            r = yield from drive.aread(p.s, None, 0)
            return r

        def cprog():
            r = yield from drive.aread(p.c, None, 0)
            return r
        tc, ts = p.run(cprog(), sprog())
    me = ts if signer == "server" else tc
    msgname = "ServerKeyExchange" if signer == "server" and ver < (3, 4) \
        else "CertificateVerify"
    site = "%s/%s/%s/%s%s" % (signer, kt, pair.VNAME[ver], msgname,
                              "(post-handshake)" if pha else "")
    base = {"keytype": kt, "signer": signer, "message": msgname,
            "version": pair.VNAME[ver]}
    wit = {"params": P, "client": pair.outcome(tc),
           "server": pair.outcome(ts), "exc": repr(me.exc)[:200]}
    verdicts = []
    # monitor 1: wire transcript (plaintext phases)
    for name, alg, data, sig in wire_signatures(p.link, ver, kx):
        wkt = kt if name == msgname else sk.key_type
        wpub = pub if name == msgname else sch.getEndEntityPublicKey()
        if name == "CertificateVerify" and ver == (3, 0):
            continue       # needs the master secret: monitor 2 covers it
        how, d = how_for_tls(wkt, ver, alg, data)
        ok = ref_verify_prim(wpub, how, d, sig)
        if not ok and wkt == "dsa" and name == "CertificateVerify" and \
                ver < (3, 3):
            # tlslite signs MD5||SHA1 (RFC 4346 7.4.8 says SHA-1 only) with
            # DSA client keys below TLS 1.2: a conformance matter outside
            # this property; accept that content too and record it
            ok = ref_verify_prim(wpub, how, H("md5", data) + H("sha1", data),
                                 sig)
            if ok:
                ctx.cell("protocol_deviation",
                         "DSA CertificateVerify below TLS1.2 signs "
                         "MD5||SHA1 instead of SHA1")
        ctx.ev()
        ctx.count("fault_wire_sigs_checked")
        if name == msgname:
            verdicts.append(("wire", name, ok, sig))
        elif not ok:
            ctx.inconc("wire monitor rejects the un-faulted peer's %s in %s"
                       % (name, ctx.case_id))
    # monitor 2: what was handed to _sendMsg/_queue_message, against the
    # bytes the endpoint gave its own sign call
    for name, sig in log.sent:
        ok = False
        for rec in log.calls:
            how, d = how_for_call(kt, rec)
            if ref_verify_prim(pub, how, d, sig):
                ok = True
        ctx.ev()
        ctx.count("fault_sent_sigs_checked")
        verdicts.append(("send", name, ok, sig))
    emitted_bad = [v for v in verdicts if not v[2]]
    hits = fault.hits if fault else 0
    if fault is None:
        # positive control of the monitors
        ctx.count("fault_control/" + site)
        if me.status != "done" or tc.status != "done" or \
                ts.status != "done":
            ctx.violation(dict(base, clause="honest_handshake_failed"), wit,
                          "control handshake failed")
            return
        if not verdicts or emitted_bad or \
                (ver < (3, 4) and not any(v[0] == "wire" for v in verdicts)
                 and not (ver == (3, 0) and msgname == "CertificateVerify")):
            ctx.inconc("fault monitor control failed for %s: %r" % (
                site, [(v[0], v[1], v[2]) for v in verdicts]))
            return
        ctx.cell("fault_control", site)
        return
    ctx.count("fault_runs")
    if hits == 0:
        ctx.count("fault_no_hit")
        if emitted_bad:
            ctx.inconc("non-verifying signature without a fault hit in %s"
                       % ctx.case_id)
        return
    ctx.count("fault_hits/" + site, hits)
    ctx.cell("faultsite", "%s/%s" % (site, P["fault"]))
    ctx.cell("fault_outcome", "%s:%s" % (kt, pair.outcome(me)))
    if emitted_bad:
        ctx.violation(dict(base, clause="faulty_signature_emitted",
                           fault=P["fault"], seen_at=sorted(
                               {v[0] for v in emitted_bad})),
                      dict(wit, sig=emitted_bad[0][3]),
                      "%s sent a %s whose signature does not verify under "
                      "its own certificate key after a %s fault" % (
                          signer, msgname, P["fault"]))
    elif me.status == "done":
        # fault hit, nothing bad emitted, yet the handshake completed: the
        # corrupted result was not used for a signature (record)
        ctx.cell("fault_outcome", "%s:completed_after_hit" % kt)
    if len(ctx.samples) < 2:
        ctx.sample({"case": ctx.case_id, "site": site, "hits": hits,
                    "signer_outcome": pair.outcome(me),
                    "signatures_seen": [(v[0], v[1], v[2])
                                        for v in verdicts]})


# ------------------------------------------------------------- planning

def make_cases(ctx):
    t = "q" if ctx.quick else "t"
    rng = ctx.case_rng("plan")
    # (i)+(iii) signature cells
    for kn, spec in RSA_KEYS.items():
        if t not in spec[2]:
            continue
        pss_only = kn == "pss2048"
        if pss_only:
            yield "sig/%s/pkcs1_refused" % kn, dict(f="pss_key_pkcs1", key=kn)
        if not pss_only:
            for h in [None] + HASHES:
                yield "sig/%s/pkcs1/%s" % (kn, h), dict(
                    f="rsa_pkcs1", key=kn, hash=h)
        for h in PSS_HASHES:
            for s in ("0", "hlen", "max"):
                yield "sig/%s/pss/%s/%s" % (kn, h, s), dict(
                    f="rsa_pss", key=kn, hash=h, salt=s)
    yield "sig/cli1024/strip", dict(f="rsa_strip", key="cli1024")
    if not ctx.quick:
        yield "sig/gen1024/strip", dict(f="rsa_strip", key="gen1024")
    for kn in EC_KEYS:
        for h in HASHES:
            yield "sig/%s/ecdsa/%s" % (kn, h), dict(
                f="dersig", fam="ecdsa", key=kn, hash=h)
    for kn in DSA_KEYS:
        for h in HASHES[1:]:
            yield "sig/%s/dsa/%s" % (kn, h), dict(
                f="dersig", fam="dsa", key=kn, hash=h)
    for kn in ED_KEYS:
        yield "sig/%s/eddsa" % kn, dict(f="eddsa", key=kn)
    # (ii) OpenSSL
    for rep in range(ctx.pick(2, 8)):
        for kn, spec in RSA_KEYS.items():
            if t in spec[2]:
                yield "ossl/%s/%d" % (kn, rep), dict(f="ossl", fam="rsa",
                                                     key=kn)
        for kn in EC_KEYS:
            yield "ossl/%s/%d" % (kn, rep), dict(f="ossl", fam="ecdsa",
                                                 key=kn)
        for kn in DSA_KEYS:
            yield "ossl/%s/%d" % (kn, rep), dict(f="ossl", fam="dsa", key=kn)
        for kn in ED_KEYS:
            yield "ossl/%s/%d" % (kn, rep), dict(f="ossl", fam="eddsa",
                                                 key=kn)
    # (iv) key agreement
    for rep in range(ctx.pick(2, 6)):
        for ver in ((3, 3), (3, 4)):
            vn = "%d%d" % ver
            for g in FF_GROUPS:
                big = g in ("ffdhe6144", "ffdhe8192")
                yield "kex/%s/%s/%d" % (g, vn, rep), dict(
                    f="kex_ff", group=g, ver=ver,
                    pairs=ctx.pick(1 if big else 2, 3 if big else 8))
            for g in EC_GROUPS:
                if g.endswith("tls13") and ver != (3, 4):
                    continue
                yield "kex/%s/%s/%d" % (g, vn, rep), dict(
                    f="kex_ec", group=g, ver=ver, pairs=ctx.pick(2, 8),
                    openssl=not g.endswith("tls13"))
            for g in X_GROUPS:
                yield "kex/%s/%s/%d" % (g, vn, rep), dict(
                    f="kex_x", group=g, ver=ver, pairs=ctx.pick(4, 24),
                    openssl=True)
    # (iv') the same agreement through the handshake-level helpers: who
    # writes and who accepts which point encoding follows from the two
    # ec_point_formats lists (RFC 8422 5.1.2; uncompressed always allowed)
    for g in EC_GROUPS:
        if g.endswith("tls13"):
            continue
        for ver in ((3, 1), (3, 3)):
            yield "kexmsg/%s/%d%d" % (g, ver[0], ver[1]), dict(
                f="kex_msg", group=g, ver=ver)
    # (v) fault injection
    flav = []
    for skey, kx, vers in SERVER_FLAV:
        for ver in vers:
            flav.append(dict(signer="server", skey=skey, kx=kx, ver=ver,
                             kt=creds.SERVER[skey][2]))
    for ckey, vers in CLIENT_FLAV:
        for ver in vers:
            flav.append(dict(signer="client", skey="rsa", kx="ecdhe_rsa",
                             ckey=ckey, ver=ver, kt=creds.CLIENT[ckey][2]))
            if tuple(ver) == (3, 4):
                # the same signer in post-handshake authentication
                flav.append(dict(signer="client", skey="rsa", kx="ecdhe_rsa",
                                 ckey=ckey, ver=ver, pha=True,
                                 kt=creds.CLIENT[ckey][2]))
    for fl in flav:
        kt = fl.pop("kt")
        if kt == "eddsa":
            kt = "Ed448" if "448" in (fl.get("ckey") or fl["skey"]) \
                else "Ed25519"
        tag = "%s-%s-%s-%d%d%s" % (fl["signer"], fl.get("ckey") or fl["skey"],
                                   fl["kx"], fl["ver"][0], fl["ver"][1],
                                   "-pha" if fl.get("pha") else "")
        yield "fault/%s/control" % tag, dict(fl, f="fault", fault="none",
                                             nth=None)
        kinds = FAULT_KINDS[kt]
        if ctx.quick:
            kinds = kinds[:2] if fl["ver"] in ((3, 3), (3, 4)) else \
                [rng.choice(kinds)]
        for kind in kinds:
            nths = [0, "all"] + ([1, 2] if not ctx.quick else [])
            if ctx.quick and kind != kinds[0]:
                nths = [0]
            for nth in nths:
                yield "fault/%s/%s/%s" % (tag, kind, nth), dict(
                    fl, f="fault", fault=kind, nth=nth)


RUNNERS = {}


def run(ctx):
    _seed[0] = ctx.seed
    RUNNERS.update(rsa_pkcs1=run_rsa_pkcs1, rsa_pss=run_rsa_pss,
                   rsa_strip=run_rsa_strip, dersig=run_dersig,
                   eddsa=run_eddsa, ossl=run_ossl, kex_ff=run_kex_ff,
                   kex_ec=run_kex_ec, kex_x=run_kex_x, fault=run_fault,
                   kex_msg=run_kex_msg,
                   pss_key_pkcs1=run_pss_key_pkcs1)
    for cid, P in ctx.cases(make_cases(ctx)):
        RUNNERS[P["f"]](ctx, P)
        ctx.count("cases/" + P["f"])


def finalize(m, tier):
    out = []
    c = m["counters"]
    cells = m["cells"]
    if m.get("truncated"):
        out.append("soft deadline hit before all cells ran")
    for fam in ("rsa/pkcs1", "rsa/pkcs1_raw", "rsa/pss", "ecdsa/ecdsa",
                "dsa/dsa", "eddsa/ed25519", "eddsa/ed448"):
        if not c.get("pos/" + fam):
            out.append("no positive control for " + fam)
        if not c.get("neg/" + fam):
            out.append("no negative trial for " + fam)
    for kt in ("rsa", "ecdsa", "dsa", "eddsa"):
        for d in ("t2o", "o2t"):
            if not c.get("ossl/%s/%s" % (d, kt)):
                out.append("no OpenSSL cross-check %s for %s" % (d, kt))
    for g in FF_GROUPS + EC_GROUPS + X_GROUPS:
        if not c.get("kex_pos/" + g):
            out.append("no honest pair for group " + g)
        if not c.get("kex_neg/" + g):
            out.append("no bad share tried for group " + g)
    for g in X_GROUPS + EC_GROUPS[:6]:
        if not c.get("ossl/derive/" + g):
            out.append("no OpenSSL derive cross-check for " + g)
    sites = set()
    for skey, kx, vers in SERVER_FLAV:
        kt = creds.SERVER[skey][2]
        kt = {"eddsa": "Ed448" if "448" in skey else "Ed25519"}.get(kt, kt)
        for v in vers:
            sites.add("server/%s/%s/%s" % (
                kt, pair.VNAME[v], "ServerKeyExchange" if v < (3, 4)
                else "CertificateVerify"))
    for ckey, vers in CLIENT_FLAV:
        kt = creds.CLIENT[ckey][2]
        kt = {"eddsa": "Ed25519"}.get(kt, kt)
        for v in vers:
            sites.add("client/%s/%s/CertificateVerify" % (kt, pair.VNAME[v]))
    ctl = cells.get("fault_control", set())
    for s in sorted(sites):
        if not c.get("fault_hits/" + s):
            out.append("fault site never hit: " + s)
        if s not in ctl:
            out.append("fault monitor control missing: " + s)
    return out
