"""C13 - resumption reproduces the original security, or falls back cleanly."""
import copy

from vt import boot
from vt import pair, drive, mon, creds, net
from vt.pair import Pair, Flavor, settings, outcome

from tlslite import errors as E
from tlslite.sessioncache import SessionCache

LEVEL = "exploration"
RULE = ("one case = a seeded history of 3-9 connections between one client "
        "and two server configurations under a virtual clock: full "
        "handshakes (SSLv3..TLS 1.3, optional client certificate), resume "
        "attempts by session ID / TLS<=1.2 ticket / TLS 1.3 ticket, closures "
        "(clean, fatal alert, abrupt), clock advances around cache maxAge and "
        "ticket lifetime, ticket-key rotation, foreign server, cache "
        "eviction, bit flips / truncation of stored tickets, unknown session "
        "IDs, and ClientHello changes between attempts (suites, EMS, EtM, "
        "SNI, version). A harness-side history model derives may_resume / "
        "must_not_resume / must_complete per attempt; observed (client."
        "resumed, server.resumed, outcome, parameters, client identity) is "
        "Also: closes with closeSocket=False, fatal ends of resumed "
        "connections, abbreviated handshakes with a wrong client "
        "Finished (the session ID is invalidated), a passed-over ticket "
        "next to an external PSK, the session-ID ring filled past its "
        "capacity before the age limit passes, handshakes the client's "
        "Checker refuses at the very end (the retry must be a full "
        "handshake), resumption on server calls that do not request a "
        "certificate (identity still carried).   "
        "compared. distinct_nontrivial = distinct (mechanism, version, "
        "invalidation reason, observed outcome) cells.")
ASSUMPTIONS = [
    "may_resume never obliges the server to resume except in the control "
    "attempts (fresh, unmodified, same server)",
    "an inconsistent ClientHello (EMS/EtM/SNI/suite changed) may be answered "
    "by an alert or a full handshake; the one exception is a non-EMS "
    "session offered with the EMS extension, where RFC 7627 5.3 (and the "
    "code's own comment) ask for a full handshake: an abort there is "
    "reported",
]
NONTRIVIAL = ["cell"]
DEADLINE = {"quick": 90, "thorough": 900}

VERS = [(3, 0), (3, 1), (3, 2), (3, 3), (3, 4)]
MAXAGE = 3600
LIFETIME = 7200


class Server(object):
    def __init__(self, name, mech, rng):
        self.name = name
        self.mech = mech   # 'cache' | 'tickets' | 'both'
        self.max_entries = rng.choice([3, 4, 50])
        self.cache = SessionCache(maxEntries=self.max_entries,
                                  maxAge=MAXAGE) \
            if mech in ("cache", "both") else None
        self.keygen = 0
        self.keys = [self._mk(0)] if mech in ("tickets", "both") else []

    def _mk(self, g):
        return bytes([(g * 7 + i + (1 if self.name == "A" else 101)) & 255
                      for i in range(32)])

    def rotate(self, keep_old):
        self.keygen += 1
        nk = self._mk(self.keygen)
        self.keys = [nk] + (self.keys[:1] if keep_old else [])

    def settings(self, ver, **kw):
        d = dict(minVersion=(3, 0), maxVersion=ver,
                 ticketKeys=list(self.keys), ticketLifetime=LIFETIME)
        d.update(kw)
        return settings(**d)


class Rec(object):
    """what the harness knows about a stored client session"""

    def __init__(self):
        self.session = None
        self.ver = None
        self.server = None
        self.completed = False
        self.issue_time = None
        self.key_index = None     # key object used for tickets
        self.closed_how = None
        self.suite = None
        self.ems = None
        self.etm = None
        self.sni = None
        self.ckey = None
        self.n_after = 0          # sets into the same cache after this one
        self.sid = None


def pump(p, conn, sock, n=4):
    for _ in range(n):
        d = "s2c" if conn is p.c else "c2s"
        if not p.link.in_flight(d):
            return
        t = drive.Task("pump", drive.aread(conn, None, 0), sock)
        drive.run([t], p.link)
        if t.status != "done":
            return


def close_pair(p, how, rng):
    """returns description"""
    if rng.random() < 0.35:
        # the application keeps ownership of the sockets (closeSocket=False):
        # what happens to the session must not depend on that
        p.c.closeSocket = p.s.closeSocket = False
        try:
            _close_pair(p, how, rng)
        finally:
            p.csock.close()
            p.ssock.close()
        return
    _close_pair(p, how, rng)


def _close_pair(p, how, rng):
    if how == "clean":
        t1 = drive.Task("cc", drive.aclose(p.c), p.csock)
        drive.run([t1], p.link)
        t2 = drive.Task("sr", drive.aread(p.s, None, 1), p.ssock)
        drive.run([t2], p.link)
        t3 = drive.Task("sc", drive.aclose(p.s), p.ssock)
        drive.run([t3], p.link)
    elif how == "server_fatal":
        # garbage reaches the server: it fails with a fatal alert
        p.link.inject("c2s", b"\x17\x03\x03\x00\x20" + b"\x00" * 32)
        t2 = drive.Task("sr", drive.aread(p.s, None, 1), p.ssock)
        drive.run([t2], p.link)
        t1 = drive.Task("cr", drive.aread(p.c, None, 1), p.csock)
        drive.run([t1], p.link)
    elif how == "client_fatal":
        p.link.inject("s2c", b"\x17\x03\x03\x00\x20" + b"\x00" * 32)
        t1 = drive.Task("cr", drive.aread(p.c, None, 1), p.csock)
        drive.run([t1], p.link)
        t2 = drive.Task("sr", drive.aread(p.s, None, 1), p.ssock)
        drive.run([t2], p.link)
    elif how == "abrupt":
        p.csock.close()
        p.ssock.close()
        for conn, sock in ((p.c, p.csock), (p.s, p.ssock)):
            t = drive.Task("r", drive.aread(conn, None, 1), sock)
            drive.run([t], p.link)


def run_history(ctx, cid, P):
    rng = ctx.rng
    boot.install_vclock(1_800_000_000.0)
    servers = {"A": Server("A", rng.choice(["cache", "tickets", "both",
                                            "both"]), rng),
               "B": Server("B", "both", rng)}
    stored = []
    nsteps = rng.randint(3, ctx.pick(6, 9))
    W = {"case": cid, "steps": []}
    for step in range(nsteps):
        if ctx.expired():
            break
        can_resume = [r for r in stored if r.session is not None]
        do_resume = can_resume and rng.random() < 0.65
        # clock
        adv = rng.choice([0, 1, 1, 60, MAXAGE - 1, MAXAGE + 1, LIFETIME - 1,
                          LIFETIME + 1, 7 * 86400 + 1]
                         if rng.random() < 0.35 else [1])
        boot.vclock.advance(adv)
        if rng.random() < 0.12:
            sname = rng.choice("AB")
            keep = rng.random() < 0.5
            if servers[sname].keys:
                servers[sname].rotate(keep)
                W["steps"].append(["rotate", sname, keep])
        if not do_resume:
            full_connection(ctx, rng, servers, stored, W)
        else:
            resume_attempt(ctx, rng, servers, stored, W, rng.choice(
                can_resume))
    ctx.count("histories")
    if len(ctx.samples) < 4:
        ctx.sample(W)


def full_connection(ctx, rng, servers, stored, W, force=None):
    ver = rng.choice(VERS)
    sname = rng.choice("AAB")
    if force:
        ver, sname = force["ver"], force["server"]
    srv = servers[sname]
    ckey = rng.choice([None, None, "rsa", "ecdsa"])
    sni = rng.choice([None, "example.com", "other.example"])
    ems = rng.random() < 0.8
    etm = rng.random() < 0.7
    cs = settings(minVersion=(3, 0), maxVersion=ver,
                  useExtendedMasterSecret=ems, useEncryptThenMAC=etm)
    ss = srv.settings(ver)
    fl = Flavor("cert", skey="rsa", ckey=ckey, req_cert=bool(ckey), cset=cs,
                sset=ss, session_cache=srv.cache, sni=sni)
    p = Pair()
    tc, ts = p.handshake(fl)
    if tc.status != "done" or ts.status != "done":
        ctx.violation({"clause": "full_handshake_failed",
                       "ver": pair.VNAME[ver]},
                      dict(W, outcome=[outcome(tc), outcome(ts)]),
                      "honest full handshake failed: %r %r" % (tc.exc, ts.exc))
        return
    ctx.ev()
    if p.c.resumed or p.s.resumed:
        ctx.violation({"clause": "resumed_without_offer"}, W,
                      "full handshake reported as resumed")
    # exchange a little data; let tickets arrive
    tw, tr, got = p.xfer(p.s, p.c, b"server-hello-data")
    pump(p, p.c, p.csock)
    r = Rec()
    r.session = p.c.session
    r.ver = tuple(p.c.version) if p.c.version != (0, 0) else ver
    r.server = sname
    r.completed = True
    r.issue_time = boot.vclock.now
    r.key_obj = srv.keys[0] if srv.keys else None
    r.suite = p.c.session.cipherSuite
    r.ems = bool(p.c.session.extendedMasterSecret)
    r.etm = bool(p.c.session.encryptThenMAC)
    r.sni = sni
    r.ckey = ckey
    r.sid = bytes(p.c.session.sessionID or b"")
    r.server_session = p.s.session
    how = rng.choice(["clean", "clean", "clean", "server_fatal",
                      "client_fatal", "abrupt"])
    close_pair(p, how, rng)
    r.closed_how = how
    # every later set() into the same cache ages this entry
    if srv.cache is not None and r.sid:
        for o in stored:
            if o.server == sname and o.sid:
                o.n_after += 1
    stored.append(r)
    W["steps"].append(["full", sname, pair.VNAME[r.ver], how, ckey,
                       bool(r.session.tickets), bool(
                           r.session.tls_1_0_tickets), len(r.sid)])


def resume_attempt(ctx, rng, servers, stored, W, r, force=None):
    now = boot.vclock.now
    sess = r.session
    ver = r.ver
    tamper = rng.choice(["none", "none", "none", "flip_ticket",
                         "trunc_ticket", "unknown_id", "force_offer",
                         "bad_finished"])
    change = rng.choice(["none", "none", "none", "none", "drop_ems",
                         "drop_etm", "sni", "suites", "lower_version"])
    to = r.server if rng.random() < 0.8 else ("B" if r.server == "A"
                                              else "A")
    if force:
        tamper, change, to = "none", "none", r.server
    srv = servers[to]
    # a client that ignores local invalidation keeps offering
    s2 = copy.copy(sess)
    if sess.tickets:
        s2.tickets = [copy.copy(t) for t in sess.tickets]
    if sess.tls_1_0_tickets:
        s2.tls_1_0_tickets = [copy.copy(t) for t in sess.tls_1_0_tickets]
    forced = False
    if tamper == "force_offer" and not s2.resumable:
        s2.resumable = True
        forced = True
    mech = None
    if ver == (3, 4):
        mech = "ticket13" if s2.tickets else None
    else:
        if s2.tls_1_0_tickets:
            mech = "ticket12"
        elif s2.sessionID:
            mech = "id"
    if mech is None:
        ctx.count("nothing_to_offer")
        return
    tampered = False
    if tamper in ("flip_ticket", "trunc_ticket"):
        tk = s2.tickets[0] if mech == "ticket13" else (
            s2.tls_1_0_tickets[0] if mech == "ticket12" else None)
        if tk is not None:
            b = bytearray(tk.ticket)
            if tamper == "flip_ticket":
                b[rng.randrange(len(b))] ^= 1 << rng.randrange(8)
            else:
                b = b[:rng.randrange(1, len(b))]
            tk.ticket = b
            tampered = True
    if tamper == "unknown_id" and mech == "id":
        s2.sessionID = bytearray(rng.getrandbits(8) for _ in range(32))
        tampered = True
    ckw = dict(minVersion=(3, 0), maxVersion=ver,
               useExtendedMasterSecret=r.ems or True,
               useEncryptThenMAC=True)
    ckw["useExtendedMasterSecret"] = r.ems
    if not r.ems and (3, 0) < ver < (3, 4) and rng.random() < 0.3:
        # RFC 7627 5.3: offering EMS for a non-EMS session => full handshake
        ckw["useExtendedMasterSecret"] = True
        inconsistent_pre = "add_ems"
    else:
        inconsistent_pre = None
    sni = r.sni
    inconsistent = inconsistent_pre
    if change == "drop_ems" and r.ems and ver < (3, 4):
        ckw["useExtendedMasterSecret"] = False
        inconsistent = "ems"
    elif change == "drop_etm" and r.etm and ver < (3, 4):
        ckw["useEncryptThenMAC"] = False
        inconsistent = "etm"
    elif change == "sni":
        sni = "changed.example"
        inconsistent = "sni"
    elif change == "lower_version" and ver > (3, 0) and ver < (3, 4):
        ckw["maxVersion"] = (3, ver[1] - 1)
        inconsistent = "version"
        if ckw["maxVersion"] == (3, 0) and mech == "ticket12":
            # an SSLv3 ClientHello has no extensions: the ticket cannot be
            # offered, what goes out is the session ID (if the session has
            # one the server's cache may know it)
            if not s2.sessionID:
                ctx.count("nothing_to_offer")
                return
            mech = "id"
            if tamper in ("flip_ticket", "trunc_ticket"):
                tampered = False
    if getattr(r, "cipher_names", None):
        # the session came from a connection with a restricted offer: keep
        # offering the same, or the server may legitimately prefer a suite
        # of the other hash and pass the ticket over
        ckw["cipherNames"] = list(r.cipher_names)
    cs = settings(**ckw)
    if change == "suites":
        # offer only suites that exclude the session's suite
        from vt import suites as ST
        su = ST.TABLE.get(r.suite)
        if su is not None and not su.tls13:
            alt = [c for c in ("aes128", "aes256", "aes128gcm", "aes256gcm",
                               "chacha20-poly1305") if c != su.cipher]
            cs.cipherNames = alt
            inconsistent = "suite"
        elif su is not None:
            # TLS 1.3: a ticket is bound to the hash of its suite; offer
            # only suites with the other hash
            cs.cipherNames = ["aes128gcm", "chacha20-poly1305"] \
                if su.prf == "sha384" else ["aes256gcm"]
            inconsistent = "suite13"
    ss = srv.settings(ver)
    ext_psk = False
    if inconsistent == "suite13" and rng.random() < 0.6:
        # both sides also hold an external PSK (of the hash on offer): the
        # connection is keyed by it, which is not a resumption of the
        # session whose ticket was passed over
        ext = (creds.PSK_ID, creds.PSK_SECRET,
               "sha256" if "aes128gcm" in cs.cipherNames else "sha384")
        cs.pskConfigs = [ext]
        ss.pskConfigs = [ext]
        ext_psk = True
    req_cert = bool(r.ckey)
    if r.ckey and len(W["steps"]) % 3 == 0:
        # the accepting server call does not ask for a certificate: what the
        # original connection authenticated belongs to the session all the
        # same (no draw from rng: earlier histories stay as they were)
        req_cert = False
        ctx.count("resume_attempts_without_cert_request")
    fl = Flavor("cert", skey="rsa", ckey=r.ckey, req_cert=req_cert,
                cset=cs, sset=ss, session_cache=srv.cache, session=s2,
                sni=sni)
    if mech != "ticket13" and sni != r.sni:
        # tlslite takes SNI from the session when resuming <= 1.2
        pass
    # ---------------- model
    reasons = []
    if not r.completed:
        reasons.append("incomplete")
    if to != r.server:
        reasons.append("foreign_server")
    age = now - r.issue_time
    if mech == "id":
        if srv.cache is None:
            reasons.append("no_cache")
        if r.closed_how in ("server_fatal", "abrupt", "client_fatal"):
            reasons.append("invalidated:" + r.closed_how)
        if age > MAXAGE:
            reasons.append("expired_cache")
        if srv.cache is not None and r.n_after >= srv.max_entries:
            reasons.append("evicted")
    else:
        if not srv.keys:
            reasons.append("no_ticket_keys")
        elif r.key_obj not in srv.keys:
            reasons.append("key_rotated_out")
        if age > LIFETIME:
            reasons.append("expired_ticket")
        if mech == "ticket13" and age > 7 * 86400:
            reasons.append("expired_7d")
    if tampered:
        reasons.append(tamper)
    must_not = bool(reasons)
    # borderline bands: exact ages, and the slot the circular list keeps
    # empty, are don't-care
    dont_care = False
    if mech == "id" and srv.cache is not None and \
            r.n_after == srv.max_entries - 1:
        dont_care = True
    if abs(age - MAXAGE) < 1e-9 or abs(age - LIFETIME) < 1e-9:
        dont_care = True
    # the client itself prunes: not resumable / expired tickets
    client_will_offer = True
    if not s2.resumable and mech != "ticket13":
        client_will_offer = False
    control = (not reasons and inconsistent is None and tamper == "none" and
               r.closed_how == "clean" and age < min(MAXAGE, LIFETIME) / 2 and
               (mech != "id" or r.n_after <= (srv.max_entries - 2
                                              if srv.cache else 0)))
    # ---------------- run
    p = Pair()
    badfin = {"hit": False}
    if tamper == "bad_finished" and ver < (3, 4):
        # a client that holds the session but sends a wrong Finished: the
        # attempt itself has to fail, and a session ID whose abbreviated
        # handshake ended in a fatal alert is invalidated (RFC 5246 7.2.2)
        from vt import adv

        def rw(i, t, msg, raw):
            if t == 20:
                b = bytearray(raw)
                b[-1] ^= 1
                badfin["hit"] = True
                return [adv.Raw(22, bytes(b))]
            return None
        adv.Deviant(p.c, rw)
    try:
        tc, ts = p.handshake(fl)
    except Exception as e:   # noqa
        ctx.inconc("harness exception in resume attempt: %r" % (e,))
        return
    ctx.ev()
    ctx.count("resume_attempts")
    if badfin["hit"]:
        from vt import wire
        ctx.count("bad_finished_attempts")
        W["steps"].append(["resume_bad_finished", mech, pair.VNAME[ver],
                           "to=" + to, "out=%s/%s" % (outcome(tc),
                                                     outcome(ts))])
        if ts.status == "done":
            ctx.violation({"mech": mech, "ver": pair.VNAME[ver],
                           "clause": "bad_finished_accepted"}, W,
                          "server completed a handshake whose client "
                          "Finished was wrong")
            return
        # did the server answer with the abbreviated handshake?
        sh = [b for t, b in wire.plain_handshake(p.link.records, "s2c")
              if t == 2]
        took = False
        if sh and s2.sessionID:
            sl = sh[0][34]
            took = bytes(sh[0][35:35 + sl]) == bytes(s2.sessionID) and \
                11 not in [t for t, _ in wire.plain_handshake(
                    p.link.records, "s2c")]
        if took and mech == "id" and to == r.server and \
                isinstance(ts.exc, E.TLSLocalAlert):
            r.closed_how = "server_fatal"
            ctx.count("session_id_invalidated_by_failed_resumption")
        ctx.cell("cell", "%s|%s|bad_finished|%s" % (mech, pair.VNAME[ver],
                                                  "abbreviated" if took
                                                  else "full"))
        return
    if isinstance(tc.exc, ValueError) and not p.link.recs("c2s"):
        # the client refused locally, before sending anything, to offer a
        # session that does not fit its new parameters (documented)
        ctx.count("client_local_refusal")
        ctx.cell("cell", "%s|%s|local_refusal" % (mech, pair.VNAME[ver]))
        return
    both = tc.status == "done" and ts.status == "done"
    cres, sres = bool(p.c.resumed), bool(p.s.resumed)
    step = ["resume", mech, pair.VNAME[ver], "to=" + to, "tamper=" + tamper,
            "change=" + str(inconsistent), "reasons=" + ",".join(reasons),
            "age=%d" % age, "closed=" + str(r.closed_how),
            "out=%s/%s" % (outcome(tc), outcome(ts)),
            "resumed=%s/%s" % (cres, sres)]
    W2 = dict(W)
    W2["steps"] = W["steps"] + [step]
    W["steps"].append(step)
    key = {"mech": mech, "ver": pair.VNAME[ver]}
    reason0 = reasons[0].split(":")[0] if reasons else (
        "inconsistent:" + inconsistent if inconsistent else "none")
    if both and cres != sres:
        ctx.violation(dict(key, clause="resumed_flag_disagree",
                           client=cres, server=sres), W2,
                      "client.resumed=%s server.resumed=%s" % (cres, sres))
    if ext_psk and both:
        ctx.count("ticket_passed_over_for_external_psk")
        chain = p.s.session.clientCertChain
        if chain is not None and chain.getNumCerts():
            ctx.violation(dict(key, clause="identity_carried_without_"
                               "resumption"), W2,
                          "the server attributes the passed-over ticket's "
                          "client certificate to a connection keyed by an "
                          "external PSK")
    resumed = both and (cres or sres)
    if resumed and must_not and not dont_care and client_will_offer:
        ctx.violation(dict(key, clause="resumed_must_not", reason=reason0),
                      W2, "connection resumed although: %s" % reasons)
    if resumed and inconsistent == "version":
        # not named by the property; recorded only
        ctx.count("resumed_at_lower_version")
    if resumed and inconsistent in ("ems", "etm", "suite", "add_ems",
                                    "suite13"):
        ctx.violation(dict(key, clause="resumed_inconsistent_hello",
                           what=inconsistent), W2,
                      "resumed although the ClientHello dropped/changed %s"
                      % inconsistent)
    if not both:
        # may the connection fail?  A session that merely does not fit the
        # new offer (suite no longer offered, other hash) is not usable and
        # must be passed over; only the EMS / EtM mismatches are cases where
        # an abort is a legitimate answer (RFC 7627 5.3, RFC 7366 3.1); a
        # non-EMS session offered together with the EMS extension is the
        # other RFC 7627 5.3 case: not resumed, full handshake (the usual
        # situation after one side was upgraded)
        if inconsistent in (None, "suite13", "add_ems"):
            # stale / forged / unknown / fine credentials never break the
            # connection: a full handshake must complete
            ctx.violation(dict(key, clause="fallback_failed",
                               reason=reason0,
                               c=str(outcome(tc)), s=str(outcome(ts))), W2,
                          "resumption attempt (%s) made the connection fail "
                          "instead of falling back: %r / %r" % (
                              reasons or "valid", tc.exc, ts.exc))
        else:
            for t in (tc, ts):
                if t.exc is not None and mon.classify_exc(t.exc).startswith(
                        "undocumented"):
                    ctx.violation(dict(key, clause="undocumented_exception",
                                       exc=type(t.exc).__name__,
                                       frame=t.frame()), W2, repr(t.exc))
            ctx.count("inconsistent_aborted")
    if control and both and not resumed:
        ctx.violation(dict(key, clause="control_not_resumed"), W2,
                      "fresh unmodified session was not resumed")
    if resumed:
        ctx.count("resumed:" + mech)
        cs_, ss_ = p.c.session, p.s.session
        # same security parameters as the original
        if cs_.cipherSuite != r.suite or ss_.cipherSuite != r.suite:
            ctx.violation(dict(key, clause="resumed_param_changed",
                               field="suite"), W2, "")
        if ver < (3, 4):
            if bool(cs_.extendedMasterSecret) != r.ems or \
                    bool(ss_.extendedMasterSecret) != r.ems:
                ctx.violation(dict(key, clause="resumed_param_changed",
                                   field="ems"), W2, "")
            if bool(p.c.encryptThenMAC) != bool(p.s.encryptThenMAC):
                ctx.violation(dict(key, clause="resumed_param_changed",
                                   field="etm_disagree"), W2, "")
            if bool(p.s.encryptThenMAC) != r.etm and \
                    suite_is_cbc(r.suite):
                ctx.violation(dict(key, clause="resumed_param_changed",
                                   field="etm"), W2, "")
        # authenticated client identity carried over
        if r.ckey:
            want = [bytes(x.bytes) for x in creds.client(r.ckey)[0].x509List]
            got = ss_.clientCertChain
            gotb = [bytes(x.bytes) for x in got.x509List] if got else None
            if not req_cert:
                ctx.count("resumed_identity_checked_without_cert_request")
            if gotb != want:
                ctx.violation(dict(key, clause="resumed_identity_lost",
                                   got="none" if got is None else "other"),
                              W2, "client identity after resumption: %r" %
                              (None if got is None else "different chain"))
        elif ss_.clientCertChain is not None and \
                ss_.clientCertChain.getNumCerts():
            ctx.violation(dict(key, clause="resumed_identity_invented"), W2,
                          "")
        sn = ss_.serverName
        if ver < (3, 4) and (sn or None) != (r.sni or None):
            ctx.violation(dict(key, clause="resumed_param_changed",
                               field="sni"), W2, "%r vs %r" % (sn, r.sni))
    else:
        if both:
            ctx.count("declined_full:" + reason0)
            # a new full session may be stored by the client
            nr = Rec()
            nr.session = p.c.session
            nr.ver = tuple(p.c.version)
            nr.server = to
            nr.completed = True
            nr.issue_time = now
            nr.key_obj = srv.keys[0] if srv.keys else None
            nr.suite = p.c.session.cipherSuite
            nr.ems = bool(p.c.session.extendedMasterSecret)
            nr.etm = bool(p.c.session.encryptThenMAC)
            nr.sni = sni
            # (a connection keyed by an external PSK shows no certificates)
            # (nor does a full handshake that did not ask for one)
            nr.ckey = None if (ext_psk or not req_cert) else r.ckey
            nr.sid = bytes(p.c.session.sessionID or b"")
            if inconsistent == "suite13" or getattr(r, "cipher_names", None):
                nr.cipher_names = list(cs.cipherNames)
            pump(p, p.c, p.csock)
            close_pair(p, "clean", rng)
            nr.closed_how = "clean"
            if srv.cache is not None and nr.sid:
                for o in stored:
                    if o.server == to and o.sid and o is not nr:
                        o.n_after += 1
            stored.append(nr)
            ctx.cell("cell", "%s|%s|%s|%s" % (mech, pair.VNAME[ver],
                                             reason0, "full"))
            return
    if resumed:
        pump(p, p.c, p.csock)
        # a fatal error or abrupt end of the *resumed* connection invalidates
        # the cached session just as one on the original connection does
        how = rng.choice(["clean", "clean", "clean", "server_fatal",
                          "client_fatal", "abrupt"])
        close_pair(p, how, rng)
        W["steps"].append(["closed_resumed", how])
        if how != "clean":
            ctx.count("resumed_connection_closed_" + how)
            if mech == "id":
                r.closed_how = how
    ctx.cell("cell", "%s|%s|%s|%s" % (mech, pair.VNAME[ver], reason0,
                                     "resumed" if resumed else (
                                         "failed" if not both else "full")))


def suite_is_cbc(sid):
    from vt import suites as ST
    su = ST.TABLE.get(sid)
    return su is not None and su.cipher_kind == "cbc"


def run_wrap(ctx, cid, P):
    """the session-ID cache is a ring: fill it past its capacity, let the
    age limit pass, and offer the newest session - expired is expired
    wherever the ring's indices stand"""
    rng = ctx.rng
    boot.install_vclock(1_800_000_000.0)
    srv = Server("A", "cache", rng)
    srv.max_entries = P["cap"]
    srv.cache = SessionCache(maxEntries=P["cap"], maxAge=MAXAGE)
    servers = {"A": srv, "B": Server("B", "both", rng)}
    stored = []
    W = {"case": cid, "steps": []}
    ver = tuple(P["ver"])
    for i in range(P["cap"] + P["extra"]):
        boot.vclock.advance(P["gap"])
        full_connection(ctx, rng, servers, stored, W,
                        force={"ver": ver, "server": "A"})
    live = [r for r in stored if r.session is not None and
            r.closed_how == "clean"]
    if not live:
        ctx.count("wrap_nothing_clean")
        return
    ctx.count("wrap_histories")
    boot.vclock.advance(P["wait"])
    # newest first: the one least likely to have been evicted
    for r in reversed(live[-3:]):
        resume_attempt(ctx, rng, servers, stored, W, r, force=True)


def run_refused(ctx, cid, P):
    """the handshake *call* fails at its very end (the application's Checker
    refuses the peer after Finished): that connection never completed for the
    client, so its session is not a resumption source - a retry makes a full
    handshake"""
    from tlslite.checker import Checker
    rng = ctx.rng
    boot.install_vclock(1_800_000_000.0)
    ver = tuple(P["ver"])
    srv = Server("A", P["mech"], rng)
    cs = settings(minVersion=(3, 0), maxVersion=ver)
    fl = Flavor("cert", skey="rsa", cset=cs, sset=srv.settings(ver),
                session_cache=srv.cache,
                checker_c=Checker(x509Fingerprint="00" * 20))
    W = {"case": cid, "steps": [["refused_by_checker", P["mech"],
                                 pair.VNAME[ver]]]}
    p = Pair()
    tc, ts = p.handshake(fl)
    ctx.ev()
    if not isinstance(tc.exc, E.TLSAuthenticationError):
        ctx.count("refused_setup_unexpected")
        return
    ctx.count("refused_handshakes")
    sess = p.c.session
    if sess is None:
        ctx.count("refused_no_session_left")
        ctx.cell("cell", "refused|%s|%s|no_session" % (P["mech"],
                                                      pair.VNAME[ver]))
        return
    boot.vclock.advance(5)
    fl2 = Flavor("cert", skey="rsa", cset=cs, sset=srv.settings(ver),
                 session_cache=srv.cache, session=sess)
    p2 = Pair()
    try:
        t2c, t2s = p2.handshake(fl2)
    except Exception as e:   # noqa
        ctx.inconc("harness exception in refused retry: %r" % (e,))
        return
    ctx.ev()
    W["outcome"] = [outcome(t2c), outcome(t2s)]
    key = {"clause": "resumed_refused_handshake", "mech": P["mech"],
           "ver": pair.VNAME[ver]}
    if p2.c.resumed or p2.s.resumed:
        ctx.violation(key, W, "the session of a handshake the client's "
                      "Checker refused was resumed (client=%s server=%s)" %
                      (p2.c.resumed, p2.s.resumed))
    elif t2c.status != "done" or t2s.status != "done":
        if isinstance(t2c.exc, ValueError) and not p2.link.recs("c2s"):
            ctx.count("client_local_refusal")
        else:
            ctx.violation(dict(key, clause="refused_retry_broke"), W,
                          "retry after a refused handshake did not fall "
                          "back to a full handshake: %r %r" % (t2c.exc,
                                                               t2s.exc))
    else:
        ctx.count("refused_retry_full")
    ctx.cell("cell", "refused|%s|%s|%s" % (P["mech"], pair.VNAME[ver],
                                           "resumed" if p2.c.resumed
                                           else t2c.status))


def make_cases(ctx):
    for mech in ("cache", "tickets", "both"):
        for ver in VERS:
            yield "refused-%s-%d" % (mech, ver[1]), dict(
                refused=True, mech=mech, ver=ver)
    for cap in (3, 4):
        for extra in (0, 1, 2, 5):
            for ver in ((3, 1), (3, 3)):
                for wait in (MAXAGE + 1, MAXAGE - 600, 10):
                    yield "wrap-%d-%d-%d-%d" % (cap, extra, ver[1], wait), \
                        dict(wrap=True, cap=cap, extra=extra, ver=ver,
                             wait=wait, gap=7)
    for i in range(ctx.pick(600, 30000)):
        yield "h%d" % i, {}


def run(ctx):
    for cid, P in ctx.cases(make_cases(ctx)):
        try:
            if P.get("wrap"):
                run_wrap(ctx, cid, P)
            elif P.get("refused"):
                run_refused(ctx, cid, P)
            else:
                run_history(ctx, cid, P)
        finally:
            boot.uninstall_vclock()


def finalize(m, tier):
    out = []
    c = m["counters"]
    for mech in ("id", "ticket12", "ticket13"):
        if c.get("resumed:" + mech, 0) < 5:
            out.append("fewer than 5 resumptions observed via " + mech)
    if not any(k.startswith("declined_full:") and not k.endswith(":none")
               for k in c):
        out.append("no declined-and-fell-back outcome observed")
    return out
